// h_c03: probes of StatesClassification / Hamiltonian look-ups by state label (C03: "the eigenvalue looked up for any
// state label is the one stored for its block and position"; C17 for the out-of-range label).
// Input:  model <scenario lines> end   then   probe <label> ...
// Output: N, NBLOCKS, BLOCK (as h_ed), SBI <StateBlockIndex...>, and per probe one line
//         PROBE <label> <what> <result>    with what in {block, inner, eig}; result = value | THROWS <what()>
// Each PROBE line is announced by "TRY <label> <what>" (flushed) so that a sanitizer abort can be attributed.
// Run under the asan variant: reading StateBlockIndex[2^N] is a heap-buffer-overflow there.
//
// Histories on ONE object (C03 for objects that are prepared / computed more than once):
//   history <h1> <h2> ...        after a model; a history is a word over {p, c} (HamiltonianPart::prepare / compute on one fresh
//                                HamiltonianPart per block and history) or over {P, C} (Hamiltonian::prepare / compute on one fresh
//                                Hamiltonian object per history).  Prints HPOLY (as h_ed) once, then after EVERY call
//     PSTEP <h> <k> <b> <status> <size> <entries of getMatrix(), row-major, re im>     and, if status >= Computed,
//     PEIG  <h> <k> <b> <eigenvalues>
//   for part histories (k = number of calls made so far - 1), and for Hamiltonian histories
//     HSTEP <h> <k> <status of the Hamiltonian>
//     HPART <h> <k> <b> <status> <size> <entries>,  HEIG <h> <k> <b> <eigenvalues>  (if the part is Computed)
//     HGROUND <h> <k> <getGroundEnergy()>, HESTATE <h> <k> <getEigenValue(label) for every label>, HEALL <h> <k> <getEigenValues()>
//                                                                                       (if the Hamiltonian is Computed)
//   A call that throws prints  PTHROW|HTHROW <h> <k> [<b>] <what()>  and ends that history.
#include "ed_common.h"
using namespace Pomerol;

static void dump_matrix(const MatrixType& m) {
    printf(" %ld", long(m.rows()));
    for (int r = 0; r < m.rows(); ++r) for (int c = 0; c < m.cols(); ++c) printf(" %s", pv::hexm(m(r, c)).c_str());
}
static void dump_eigs(const RealVectorType& e) { for (int k = 0; k < e.size(); ++k) printf(" %s", pv::hexd(e[k]).c_str()); }

static void part_history(pv::ED* ed, const std::string& h, int b) {
    HamiltonianPart P(*ed->Idx, *ed->Hidx, *ed->S, BlockNumber(b));
    for (size_t k = 0; k < h.size(); ++k) {
        try { if (h[k] == 'p') P.prepare(); else P.compute(); }
        catch (std::exception& e) { printf("PTHROW %s %ld %d %s\n", h.c_str(), long(k), b, e.what()); return; }
        printf("PSTEP %s %ld %d %u", h.c_str(), long(k), b, P.Status);
        dump_matrix(P.getMatrix());
        printf("\n");
        if (P.Status >= HamiltonianPart::Computed) { printf("PEIG %s %ld %d", h.c_str(), long(k), b); dump_eigs(P.getEigenValues()); printf("\n"); }
    }
}

static void ham_history(pv::ED* ed, const std::string& h) {
    Hamiltonian H(*ed->Idx, *ed->Hidx, *ed->S);
    int nb = ed->S->NumberOfBlocks();
    for (size_t k = 0; k < h.size(); ++k) {
        try { if (h[k] == 'P') H.prepare(ed->comm); else H.compute(ed->comm); }
        catch (std::exception& e) { printf("HTHROW %s %ld %s\n", h.c_str(), long(k), e.what()); return; }
        printf("HSTEP %s %ld %u\n", h.c_str(), long(k), H.Status);
        if (H.Status < Hamiltonian::Prepared) continue;
        for (int b = 0; b < nb; ++b) {
            const HamiltonianPart& hp = H.getPart(BlockNumber(b));
            printf("HPART %s %ld %d %u", h.c_str(), long(k), b, hp.Status);
            dump_matrix(hp.getMatrix());
            printf("\n");
            if (hp.Status >= HamiltonianPart::Computed) { printf("HEIG %s %ld %d", h.c_str(), long(k), b); dump_eigs(hp.getEigenValues()); printf("\n"); }
        }
        if (H.Status >= Hamiltonian::Computed) {
            try {
                printf("HGROUND %s %ld %s\n", h.c_str(), long(k), pv::hexd(H.getGroundEnergy()).c_str());
                printf("HESTATE %s %ld", h.c_str(), long(k));
                for (unsigned long s = 0; s < ed->S->getNumberOfStates(); ++s) printf(" %s", pv::hexd(H.getEigenValue(s)).c_str());
                printf("\nHEALL %s %ld", h.c_str(), long(k));
                dump_eigs(H.getEigenValues());
                printf("\n");
            } catch (std::exception& e) { printf("\nHTHROW %s %ld %s\n", h.c_str(), long(k), e.what()); return; }
        }
    }
}

int main(int argc, char* argv[]) {
    boost::mpi::environment env(argc, argv);
    pv::Quiet quiet;
    pv::ED* ed = 0;
    std::string line;
    while (std::getline(std::cin, line)) {
        std::istringstream ss(line);
        std::vector<std::string> t; std::string w;
        while (ss >> w) t.push_back(w);
        if (t.empty()) continue;
        if (t[0] == "model") {
            pv::Scenario sc;
            pv::read_scenario(std::cin, sc);
            ed = new pv::ED();
            if (!ed->build(sc, "diag")) { printf("ERROR %s\n", ed->error.c_str()); fflush(stdout); continue; }
            printf("N %u\n", ed->Idx->getIndexSize());
            int nb = ed->S->NumberOfBlocks();
            printf("NBLOCKS %d\n", nb);
            for (int b = 0; b < nb; ++b) {
                const std::vector<FockState>& st = ed->S->getFockStates(BlockNumber(b));
                printf("BLOCK %d %ld", b, long(st.size()));
                for (size_t k = 0; k < st.size(); ++k) printf(" %lu", st[k].to_ulong());
                printf("\n");
            }
            printf("SBI");
            for (size_t k = 0; k < ed->S->StateBlockIndex.size(); ++k) printf(" %d", int(ed->S->StateBlockIndex[k]));
            printf("\n");
            for (int b = 0; b < nb; ++b) {
                const HamiltonianPart& hp = ed->H->getPart(BlockNumber(b));
                printf("EIG %d", b);
                for (int k = 0; k < hp.getEigenValues().size(); ++k) printf(" %s", pv::hexd(hp.getEigenValues()[k]).c_str());
                printf("\n");
            }
            fflush(stdout);
        } else if (t[0] == "history" && ed && ed->S && ed->Hidx) {
            printf("HPOLY %ld", long(std::distance(ed->Hidx->begin(), ed->Hidx->end())));
            for (Operator::const_iterator it = ed->Hidx->begin(); it != ed->Hidx->end(); ++it) {
                printf(" %s %ld", pv::hexm(it->second).c_str(), long(it->first.size()));
                for (size_t k = 0; k < it->first.size(); ++k)
                    printf(" %d %u", boost::get<0>(it->first[k]) == Operator::creation ? 1 : 0, boost::get<1>(it->first[k]));
            }
            printf("\n");
            int nb = ed->S->NumberOfBlocks();
            for (size_t k = 1; k < t.size(); ++k) {
                if (t[k].find_first_not_of("pc") == std::string::npos) { for (int b = 0; b < nb; ++b) part_history(ed, t[k], b); }
                else if (t[k].find_first_not_of("PC") == std::string::npos) ham_history(ed, t[k]);
                else printf("BADHISTORY %s\n", t[k].c_str());
                fflush(stdout);
            }
            printf("HISTDONE\n");
            fflush(stdout);
        } else if (t[0] == "probe" && ed) {
            for (size_t k = 1; k < t.size(); ++k) {
                QuantumState q = strtoul(t[k].c_str(), 0, 10);
                printf("TRY %lu block\n", q); fflush(stdout);
                try { BlockNumber b = ed->S->getBlockNumber(q); printf("PROBE %lu block %d\n", q, int(b)); }
                catch (std::exception& e) { printf("PROBE %lu block THROWS %s\n", q, e.what()); }
                fflush(stdout);
                printf("TRY %lu inner\n", q); fflush(stdout);
                try { InnerQuantumState i = ed->S->getInnerState(q); printf("PROBE %lu inner %lu\n", q, (unsigned long)i); }
                catch (std::exception& e) { printf("PROBE %lu inner THROWS %s\n", q, e.what()); }
                fflush(stdout);
                printf("TRY %lu eig\n", q); fflush(stdout);
                try { RealType e = ed->H->getEigenValue(q); printf("PROBE %lu eig %s\n", q, pv::hexd(e).c_str()); }
                catch (std::exception& e) { printf("PROBE %lu eig THROWS %s\n", q, e.what()); }
                fflush(stdout);
            }
        }
    }
    return 0;
}
