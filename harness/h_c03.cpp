// h_c03: probes of StatesClassification / Hamiltonian look-ups by state label (C03: "the eigenvalue looked up for any
// state label is the one stored for its block and position"; C17 for the out-of-range label).
// Input:  model <scenario lines> end   then   probe <label> ...
// Output: N, NBLOCKS, BLOCK (as h_ed), SBI <StateBlockIndex...>, and per probe one line
//         PROBE <label> <what> <result>    with what in {block, inner, eig}; result = value | THROWS <what()>
// Each PROBE line is announced by "TRY <label> <what>" (flushed) so that a sanitizer abort can be attributed.
// Run under the asan variant: reading StateBlockIndex[2^N] is a heap-buffer-overflow there.
#include "ed_common.h"
using namespace Pomerol;

int main(int argc, char* argv[]) {
    boost::mpi::environment env(argc, argv);
    pv::Quiet quiet;
    pv::ED* ed = 0;
    std::string line;
    while (std::getline(std::cin, line)) {
        std::istringstream ss(line);
        std::vector<std::string> t; std::string w;
        while (ss >> w) t.push_back(w);
        if (t.empty()) continue;
        if (t[0] == "model") {
            pv::Scenario sc;
            pv::read_scenario(std::cin, sc);
            ed = new pv::ED();
            if (!ed->build(sc, "diag")) { printf("ERROR %s\n", ed->error.c_str()); fflush(stdout); continue; }
            printf("N %u\n", ed->Idx->getIndexSize());
            int nb = ed->S->NumberOfBlocks();
            printf("NBLOCKS %d\n", nb);
            for (int b = 0; b < nb; ++b) {
                const std::vector<FockState>& st = ed->S->getFockStates(BlockNumber(b));
                printf("BLOCK %d %ld", b, long(st.size()));
                for (size_t k = 0; k < st.size(); ++k) printf(" %lu", st[k].to_ulong());
                printf("\n");
            }
            printf("SBI");
            for (size_t k = 0; k < ed->S->StateBlockIndex.size(); ++k) printf(" %d", int(ed->S->StateBlockIndex[k]));
            printf("\n");
            for (int b = 0; b < nb; ++b) {
                const HamiltonianPart& hp = ed->H->getPart(BlockNumber(b));
                printf("EIG %d", b);
                for (int k = 0; k < hp.getEigenValues().size(); ++k) printf(" %s", pv::hexd(hp.getEigenValues()[k]).c_str());
                printf("\n");
            }
            fflush(stdout);
        } else if (t[0] == "probe" && ed) {
            for (size_t k = 1; k < t.size(); ++k) {
                QuantumState q = strtoul(t[k].c_str(), 0, 10);
                printf("TRY %lu block\n", q); fflush(stdout);
                try { BlockNumber b = ed->S->getBlockNumber(q); printf("PROBE %lu block %d\n", q, int(b)); }
                catch (std::exception& e) { printf("PROBE %lu block THROWS %s\n", q, e.what()); }
                fflush(stdout);
                printf("TRY %lu inner\n", q); fflush(stdout);
                try { InnerQuantumState i = ed->S->getInnerState(q); printf("PROBE %lu inner %lu\n", q, (unsigned long)i); }
                catch (std::exception& e) { printf("PROBE %lu inner THROWS %s\n", q, e.what()); }
                fflush(stdout);
                printf("TRY %lu eig\n", q); fflush(stdout);
                try { RealType e = ed->H->getEigenValue(q); printf("PROBE %lu eig %s\n", q, pv::hexd(e).c_str()); }
                catch (std::exception& e) { printf("PROBE %lu eig THROWS %s\n", q, e.what()); }
                fflush(stdout);
            }
        }
    }
    return 0;
}
