// C06 harness (run under mpiexec -np P). argv[1] = output directory: every rank writes rank<r>.out there.
// stdin (read by every rank; mpiexec forwards stdin to rank 0 only, so the input is given as a FILE argv[2]):
//   model ... end
//   ham                               : dump eigenvalues and a checksum of the eigenvectors of every block on this rank
//   gf <i> <j> <n...>                 : GreensFunction at Matsubara numbers
//   c2 <split> <clear> <nq> {i j k l} <nf> {n1 n2 n3}
//                                     : TwoParticleGFContainer: prepareAll(set of quads); computeAll(clear, freqs, world, split);
//                                       prints the returned table per key, then evaluates every listed element on demand
//   chi <i> <j> <k> <l> <clear> <nf> {n1 n2 n3}
//                                     : a single TwoParticleGF::compute(clear, freqs, world): returned table + on-demand values
#include "ed_common.h"
#include <pomerol/TwoParticleGFContainer.h>
#include <fstream>
using namespace Pomerol;

static FILE* out;
static std::vector<std::string> toks(const std::string& line) {
    std::istringstream ss(line); std::vector<std::string> t; std::string w;
    while (ss >> w) t.push_back(w);
    return t;
}
static long L(const std::string& s) { return atol(s.c_str()); }

typedef std::vector<boost::tuple<ComplexType, ComplexType, ComplexType> > FreqVec;
typedef std::vector<boost::tuple<long, long, long> > NumVec;
// TwoParticleGFContainer on the communicator comm: prepareAll(quads); computeAll(clear, freqs, comm, split); returned tables, then
// every listed element evaluated on demand on this rank
static void run_c2(pv::ED* ed, const std::set<IndexCombination4>& quads, const FreqVec& fr, const NumVec& ns, bool clear, bool split,
                   const boost::mpi::communicator& comm) {
    int nf = int(ns.size());
    TwoParticleGFContainer c(*ed->Idx, *ed->S, *ed->H, *ed->rho, *ed->Ops);
    c.prepareAll(quads);
    fprintf(out, "C2 split=%d clear=%d listed=%ld nontrivial=%ld\n", int(split), int(clear), long(c.ElementsMap.size()), long(c.NonTrivialElements.size()));
    fflush(out);
    std::map<IndexCombination4, std::vector<ComplexType> > res = c.computeAll(clear, fr, comm, split);
    for (std::map<IndexCombination4, std::vector<ComplexType> >::const_iterator it = res.begin(); it != res.end(); ++it) {
        fprintf(out, "TABLE %u %u %u %u %ld", it->first.Index1, it->first.Index2, it->first.Index3, it->first.Index4, long(it->second.size()));
        for (size_t k = 0; k < it->second.size(); ++k) fprintf(out, " %s", pv::hexc(it->second[k]).c_str());
        fprintf(out, "\n");
    }
    // every element the container lists: evaluate on demand on this rank
    for (std::map<IndexCombination4, ElementWithPermFreq<TwoParticleGF> >::iterator it = c.ElementsMap.begin(); it != c.ElementsMap.end(); ++it) {
        fprintf(out, "EVAL %u %u %u %u", it->first.Index1, it->first.Index2, it->first.Index3, it->first.Index4);
        TwoParticleGF& x = it->second;
        fprintf(out, " vanishing=%d status=%u", int(x.isVanishing()), x.getStatus());
        for (int f = 0; f < nf; ++f) {
            try {
                ComplexType v = it->second(boost::get<0>(ns[f]), boost::get<1>(ns[f]), boost::get<2>(ns[f]));
                fprintf(out, " %s", pv::hexc(v).c_str());
            } catch (std::exception& e) { fprintf(out, " THROWS THROWS"); }
        }
        fprintf(out, "\n");
    }
}

int main(int argc, char* argv[]) {
    boost::mpi::environment env(argc, argv);
    boost::mpi::communicator world;
    pv::Quiet quiet;
    std::string dir = argv[1];
    char fn[512]; snprintf(fn, sizeof fn, "%s/rank%d.out", dir.c_str(), world.rank());
    out = fopen(fn, "w");
    std::ifstream in(argv[2]);
    pv::ED* ed = 0;
    std::string line;
    fprintf(out, "RANK %d %d\n", world.rank(), world.size());
    while (std::getline(in, line)) {
        std::vector<std::string> t = toks(line);
        if (t.empty()) continue;
        try {
        if (t[0] == "model") {
            pv::Scenario sc; pv::read_scenario(in, sc);
            ed = new pv::ED();
            ed->comm = world;
            if (!ed->build(sc)) fprintf(out, "ERROR %s\n", ed->error.c_str());
            else fprintf(out, "BUILT\n");
        } else if (t[0] == "ham") {
            int nb = ed->S->NumberOfBlocks();
            for (int b = 0; b < nb; ++b) {
                const HamiltonianPart& hp = ed->H->getPart(BlockNumber(b));
                fprintf(out, "EIG %d", b);
                for (int k = 0; k < hp.getEigenValues().size(); ++k) fprintf(out, " %s", pv::hexd(hp.getEigenValues()[k]).c_str());
                fprintf(out, "\nVEC %d", b);
                const MatrixType& m = hp.getMatrix();
                for (int r = 0; r < m.rows(); ++r) for (int c = 0; c < m.cols(); ++c) fprintf(out, " %s", pv::hexd(std::real(ComplexType(m(r, c)))).c_str());
                fprintf(out, "\n");
            }
            fprintf(out, "GROUND %s\n", pv::hexd(ed->H->getGroundEnergy()).c_str());
        } else if (t[0] == "gf") {
            int i = L(t[1]), j = L(t[2]);
            GreensFunction g(*ed->S, *ed->H, ed->Ops->getAnnihilationOperator(i), ed->Ops->getCreationOperator(j), *ed->rho);
            g.prepare(); g.compute();
            fprintf(out, "G %d %d", i, j);
            for (size_t k = 3; k < t.size(); ++k) fprintf(out, " %s", pv::hexc(g(long(L(t[k])))).c_str());
            fprintf(out, "\n");
        } else if (t[0] == "c2") {
            bool split = L(t[1]) != 0, clear = L(t[2]) != 0;
            int nq = L(t[3]);
            std::set<IndexCombination4> quads;
            for (int q = 0; q < nq; ++q) quads.insert(IndexCombination4(L(t[4 + 4 * q]), L(t[5 + 4 * q]), L(t[6 + 4 * q]), L(t[7 + 4 * q])));
            size_t p = 4 + 4 * nq;
            int nf = L(t[p++]);
            std::vector<boost::tuple<ComplexType, ComplexType, ComplexType> > fr;
            std::vector<boost::tuple<long, long, long> > ns;
            ComplexType sp = Pomerol::I * M_PI / ed->rho->beta;
            for (int f = 0; f < nf; ++f) {
                long n1 = L(t[p]), n2 = L(t[p + 1]), n3 = L(t[p + 2]); p += 3;
                ns.push_back(boost::make_tuple(n1, n2, n3));
                fr.push_back(boost::make_tuple(sp * RealType(2 * n1 + 1), sp * RealType(2 * n2 + 1), sp * RealType(2 * n3 + 1)));
            }
            run_c2(ed, quads, fr, ns, clear, split, world);
        } else if (t[0] == "c2sub") {
            // c2sub <groups> <split> <clear> <nf> {n1 n2 n3} then per group: <nq> {i j k l}
            // the world is split into <groups> sub-communicators (colour = world rank mod groups); every group fills and computes a
            // container of ITS OWN list of components on ITS OWN communicator, all groups at the same time
            int ng = L(t[1]); bool split = L(t[2]) != 0, clear = L(t[3]) != 0; int nf = L(t[4]);
            size_t p = 5;
            FreqVec fr; NumVec ns;
            ComplexType sp = Pomerol::I * M_PI / ed->rho->beta;
            for (int f = 0; f < nf; ++f) {
                long n1 = L(t[p]), n2 = L(t[p + 1]), n3 = L(t[p + 2]); p += 3;
                ns.push_back(boost::make_tuple(n1, n2, n3));
                fr.push_back(boost::make_tuple(sp * RealType(2 * n1 + 1), sp * RealType(2 * n2 + 1), sp * RealType(2 * n3 + 1)));
            }
            int mine = world.rank() % ng;
            std::set<IndexCombination4> quads;
            for (int g = 0; g < ng; ++g) {
                int nq = L(t[p++]);
                for (int q = 0; q < nq; ++q, p += 4)
                    if (g == mine) quads.insert(IndexCombination4(L(t[p]), L(t[p + 1]), L(t[p + 2]), L(t[p + 3])));
            }
            boost::mpi::communicator sub = world.split(mine);
            fprintf(out, "GROUP %d %d %d\n", mine, sub.rank(), sub.size());
            run_c2(ed, quads, fr, ns, clear, split, sub);
        } else if (t[0] == "chi") {
            int i = L(t[1]), j = L(t[2]), k = L(t[3]), l = L(t[4]); bool clear = L(t[5]) != 0; int nf = L(t[6]);
            TwoParticleGF y(*ed->S, *ed->H, ed->Ops->getAnnihilationOperator(i), ed->Ops->getAnnihilationOperator(j),
                            ed->Ops->getCreationOperator(k), ed->Ops->getCreationOperator(l), *ed->rho);
            y.prepare();
            std::vector<boost::tuple<ComplexType, ComplexType, ComplexType> > fr;
            ComplexType sp = Pomerol::I * M_PI / ed->rho->beta;
            for (int f = 0; f < nf; ++f)
                fr.push_back(boost::make_tuple(sp * RealType(2 * L(t[7 + 3 * f]) + 1), sp * RealType(2 * L(t[8 + 3 * f]) + 1), sp * RealType(2 * L(t[9 + 3 * f]) + 1)));
            std::vector<ComplexType> table = y.compute(clear, fr, world);
            fprintf(out, "CHITABLE %d %d %d %d %ld", i, j, k, l, long(table.size()));
            for (size_t f = 0; f < table.size(); ++f) fprintf(out, " %s", pv::hexc(table[f]).c_str());
            fprintf(out, "\nCHIEVAL %d %d %d %d", i, j, k, l);
            for (int f = 0; f < nf; ++f) {
                try { fprintf(out, " %s", pv::hexc(y(long(L(t[7 + 3 * f])), long(L(t[8 + 3 * f])), long(L(t[9 + 3 * f])))).c_str()); }
                catch (std::exception& e) { fprintf(out, " THROWS THROWS"); }
            }
            fprintf(out, "\n");
        }
        } catch (std::exception& ex) {
            fprintf(out, "THROWS %s %s\n", t[0].c_str(), ex.what());
        }
        fflush(out);
    }
    fprintf(out, "DONE\n");
    fclose(out);
    return 0;
}
