// C13 harness: interprets histories of TwoParticleGFContainer calls on a model built from a scenario
// (ed_common.h) and prints canonical results, plus the property's oracle: a freshly constructed
// TwoParticleGF for a quadruple (prepare + compute), evaluated at a Matsubara triple.
//
// Commands on stdin (one per line):
//   model ... end                       scenario; prints "M ok <IndexSize>"
//   van <m> <i_1> .. <i_m>              for every quadruple over the given indices: "VAN i j k l <0|1>"
//                                       (isVanishing() of a fresh, prepared TwoParticleGF)
//   hist                                start a history: a new TwoParticleGFContainer; prints "H"
//   dump <0|1>                          switch the state dump after each operation on/off (default on)
//   fill <n> <4n indices>               container.fill(set of n quadruples)           (n = 0: all combinations)
//   prep <n> <4n indices>               container.prepareAll(set)
//   compall <split 0|1>                 container.computeAll(false, freqs, world, split)
//   lookup i j k l                      container(IndexCombination4(i,j,k,l))          (creates on a miss)
//   prepelem i j k l                    static_cast<TwoParticleGF&>(container(q)).prepare()
//   compelem i j k l                    static_cast<TwoParticleGF&>(container(q)).compute(false, freqs, world)
//   eval i j k l n1 n2 n3               container(q)(n1,n2,n3)
//   oracle i j k l n1 n2 n3             fresh TwoParticleGF(q): prepare, compute, evaluate; "O i j k l n1 n2 n3 re im"
// Output per operation (k = running number within the history):
//   R <k> UNIT | R <k> THROWS <exception text> | R <k> VAL <re> <im>           (hex floats)
//   D <k> E <key>><id>:<perm><sign>:<status> ... | N <key>><id>:<status> ...    (map order; ids = order of first
//                                       appearance over all dumps of this history; status C|P|X = Constructed|Prepared|Computed)
//   T <k> <key>=<len> ...               keys and vector lengths of the table returned by computeAll (informative)
#include "ed_common.h"
#include <pomerol/TwoParticleGFContainer.h>
#include <map>
using namespace Pomerol;

typedef boost::shared_ptr<TwoParticleGF> EPtr;
typedef std::vector<boost::tuple<ComplexType, ComplexType, ComplexType> > FreqVec;

struct Hist {
    TwoParticleGFContainer* C;
    std::vector<EPtr> reg;      // keeps every element ever seen alive, so addresses identify elements for the whole history
    int k;
    // the references container(q) has returned to the caller (a caller may keep one and evaluate through it later); dropped when
    // the container is refilled (fill / prepareAll clear the map)
    std::map<IndexCombination4, ElementWithPermFreq<TwoParticleGF>*> held;
    Hist() : C(0), k(0) {}
    int id_of(const EPtr& p) {
        for (size_t i = 0; i < reg.size(); ++i) if (reg[i].get() == p.get()) return int(i);
        reg.push_back(p);
        return int(reg.size()) - 1;
    }
};

static char status_char(TwoParticleGF& g) {
    unsigned s = g.getStatus();
    return s == ComputableObject::Constructed ? 'C' : s == ComputableObject::Prepared ? 'P' : s == ComputableObject::Computed ? 'X' : '?';
}

static std::string key(const IndexCombination4& q) {
    char b[64]; snprintf(b, sizeof b, "%u,%u,%u,%u", q.Index1, q.Index2, q.Index3, q.Index4); return b;
}

static void dump(Hist& h) {
    // first pass registers new elements in scan order (ElementsMap, then NonTrivialElements)
    for (std::map<IndexCombination4, ElementWithPermFreq<TwoParticleGF> >::iterator it = h.C->ElementsMap.begin(); it != h.C->ElementsMap.end(); ++it)
        h.id_of(it->second.pElement);
    for (std::map<IndexCombination4, EPtr>::iterator it = h.C->NonTrivialElements.begin(); it != h.C->NonTrivialElements.end(); ++it)
        h.id_of(it->second);
    printf("D %d E", h.k);
    for (std::map<IndexCombination4, ElementWithPermFreq<TwoParticleGF> >::iterator it = h.C->ElementsMap.begin(); it != h.C->ElementsMap.end(); ++it) {
        const Permutation4& p = it->second.FrequenciesPermutation;
        printf(" %s>%d:%zu%zu%zu%zu%s:%c", key(it->first).c_str(), h.id_of(it->second.pElement), p.perm[0], p.perm[1], p.perm[2], p.perm[3],
               p.sign == 1 ? "+" : p.sign == -1 ? "-" : "?", status_char(*it->second.pElement));
    }
    printf(" | N");
    for (std::map<IndexCombination4, EPtr>::iterator it = h.C->NonTrivialElements.begin(); it != h.C->NonTrivialElements.end(); ++it)
        printf(" %s>%d:%c", key(it->first).c_str(), h.id_of(it->second), status_char(*it->second));
    printf("\n");
}

static std::set<IndexCombination4> read_set(std::istringstream& ss) {
    int n; ss >> n;
    std::set<IndexCombination4> S;
    for (int a = 0; a < n; ++a) { int i, j, k, l; ss >> i >> j >> k >> l; S.insert(IndexCombination4(i, j, k, l)); }
    return S;
}

int main(int argc, char* argv[]) {
    boost::mpi::environment env(argc, argv);
    boost::mpi::communicator world;
    pv::Quiet quiet;
    std::string line;
    pv::ED* ed = 0;
    Hist h;
    bool dumps = true;
    FreqVec freqs;
    std::map<IndexCombination4, EPtr> fresh;     // oracle cache
    while (std::getline(std::cin, line)) {
        std::istringstream ss(line);
        std::string cmd;
        if (!(ss >> cmd)) continue;
        if (cmd == "model") {
            pv::Scenario sc;
            pv::read_scenario(std::cin, sc);
            ed = new pv::ED();
            if (!ed->build(sc)) { printf("E %s\n", ed->error.c_str()); return 2; }
            fresh.clear();
            freqs.clear();
            ComplexType w0 = Pomerol::I * M_PI / ed->rho->beta;
            freqs.push_back(boost::make_tuple(w0, w0, w0));
            printf("M ok %u\n", ed->Idx->getIndexSize());
            continue;
        }
        if (!ed) { printf("E no model\n"); return 2; }
        if (cmd == "van") {
            int m; ss >> m; std::vector<int> ix(m);
            for (int a = 0; a < m; ++a) ss >> ix[a];
            for (int a = 0; a < m; ++a) for (int b = 0; b < m; ++b) for (int c = 0; c < m; ++c) for (int d = 0; d < m; ++d) {
                TwoParticleGF g(*ed->S, *ed->H, ed->Ops->getAnnihilationOperator(ix[a]), ed->Ops->getAnnihilationOperator(ix[b]),
                                ed->Ops->getCreationOperator(ix[c]), ed->Ops->getCreationOperator(ix[d]), *ed->rho);
                g.prepare();
                printf("VAN %d %d %d %d %d\n", ix[a], ix[b], ix[c], ix[d], g.isVanishing() ? 1 : 0);
            }
        } else if (cmd == "hist") {
            h = Hist();    // the previous container is leaked on purpose (its elements are referenced by the old registry)
            h.C = new TwoParticleGFContainer(*ed->Idx, *ed->S, *ed->H, *ed->rho, *ed->Ops);
            printf("H\n");
        } else if (cmd == "dump") {
            int d; ss >> d; dumps = d != 0;
        } else if (cmd == "oracle") {
            int i, j, k, l; long n1, n2, n3;
            ss >> i >> j >> k >> l >> n1 >> n2 >> n3;
            IndexCombination4 q(i, j, k, l);
            if (!fresh.count(q)) {
                EPtr g(new TwoParticleGF(*ed->S, *ed->H, ed->Ops->getAnnihilationOperator(i), ed->Ops->getAnnihilationOperator(j),
                                         ed->Ops->getCreationOperator(k), ed->Ops->getCreationOperator(l), *ed->rho));
                g->prepare();
                g->compute(false, freqs, world);
                fresh[q] = g;
            }
            try {
                ComplexType v = (*fresh[q])(n1, n2, n3);
                printf("O %d %d %d %d %ld %ld %ld %s\n", i, j, k, l, n1, n2, n3, pv::hexc(v).c_str());
            } catch (std::exception& e) { printf("O %d %d %d %d %ld %ld %ld THROWS %s\n", i, j, k, l, n1, n2, n3, e.what()); }
        } else {
            if (!h.C) { printf("E no history\n"); return 2; }
            ++h.k;
            try {
                if (cmd == "fill") { h.held.clear(); h.C->fill(read_set(ss)); printf("R %d UNIT\n", h.k); }
                else if (cmd == "prep") { h.held.clear(); h.C->prepareAll(read_set(ss)); printf("R %d UNIT\n", h.k); }
                else if (cmd == "compall") {
                    int split; ss >> split;
                    std::map<IndexCombination4, std::vector<ComplexType> > out = h.C->computeAll(false, freqs, world, split != 0);
                    printf("R %d UNIT\n", h.k);
                    printf("T %d", h.k);
                    for (std::map<IndexCombination4, std::vector<ComplexType> >::iterator it = out.begin(); it != out.end(); ++it)
                        printf(" %s=%zu", key(it->first).c_str(), it->second.size());
                    printf("\n");
                } else {
                    int i, j, k, l; ss >> i >> j >> k >> l;
                    IndexCombination4 q(i, j, k, l);
                    if (cmd == "lookup") { h.held[q] = &(*h.C)(q); printf("R %d UNIT\n", h.k); }
                    else if (cmd == "prepelem") { static_cast<TwoParticleGF&>((*h.C)(q)).prepare(); printf("R %d UNIT\n", h.k); }
                    else if (cmd == "compelem") { static_cast<TwoParticleGF&>((*h.C)(q)).compute(false, freqs, world); printf("R %d UNIT\n", h.k); }
                    else if (cmd == "eval") {
                        long n1, n2, n3; ss >> n1 >> n2 >> n3;
                        ComplexType v = (*h.C)(q)(n1, n2, n3);
                        // a caller that kept the reference an earlier container(q) returned evaluates through it: it must be the
                        // same element with the same permutation; when it is not, the caller's value is what is reported
                        if (h.held.count(q)) {
                            ComplexType v2 = (*h.held[q])(n1, n2, n3);
                            if (v2 != v) { printf("X %d held-reference-differs fresh-lookup=%s\n", h.k, pv::hexc(v).c_str()); v = v2; }
                        }
                        printf("R %d VAL %s\n", h.k, pv::hexc(v).c_str());
                    } else { printf("E unknown command %s\n", cmd.c_str()); return 2; }
                }
            } catch (std::exception& e) {
                printf("R %d THROWS %s\n", h.k, e.what());
            }
            if (dumps) dump(h);
        }
        fflush(stdout);
    }
    return 0;
}
