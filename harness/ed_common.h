// Shared scenario interpreter for the C++ harnesses: builds the documented pomerol workflow
// (Lattice -> IndexClassification -> IndexHamiltonian -> Symmetrizer -> StatesClassification ->
//  Hamiltonian -> DensityMatrix -> FieldOperatorContainer) from a plain-text scenario.
// Harness TUs are compiled with -fno-access-control, so private members are readable.
//
// Scenario lines (tokens separated by blanks; numbers are decimal dyadics, complex as re,im):
//   site <label> <orbitals> <spins>
//   addCoulombS <label> <U> <level>
//   addCoulombP <label> <U> <Up> <J> <level>
//   addCoulombP3 <label> <U> <J> <level>
//   addLevel <label> <level>
//   addMagnetization <label> <mH>
//   addSzSz <l1> <l2> <J>        addSS <l1> <l2> <J>
//   addHopping8 <l1> <l2> <t> <o1> <o2> <s1> <s2>
//   addHopping7 <l1> <l2> <t> <o1> <o2> <s>
//   addHopping6 <l1> <l2> <t> <o1> <o2>
//   addHopping4 <l1> <l2> <t>
//   term <N> <value> <N x (op label orbital spin)>        op: 1 = creation, 0 = annihilation
//   order_spins <0|1>
//   symm default | ignore | custom      (custom: followed by `iom <k> <k x (coef nops (dag idx)*)>` lines)
//   iom <nterms> { <coef> <nops> { <dag> <idx> } }
//   beta <b>
//   truncv <eps>                         -- like trunc, but truncateBlocks(eps) is called with its default arguments (verbose report)
//   trunc <eps>                          -- may be repeated: truncateBlocks is then called once per line, in order, on the same DensityMatrix
//   end                                  -- end of the model part
#ifndef PV_ED_COMMON_H
#define PV_ED_COMMON_H
#include <pomerol.h>
#include <pomerol/Vertex4.h>
#include <cstdio>
#include <cstdlib>
#include <iostream>
#include <sstream>
#include <string>
#include <vector>
#include <set>
#include <stdexcept>

namespace pv {
using namespace Pomerol;

inline MelemType parse_melem(const std::string& s) {
    size_t c = s.find(',');
    double re = atof(s.substr(0, c).c_str());
    double im = (c == std::string::npos) ? 0.0 : atof(s.substr(c + 1).c_str());
#ifdef POMEROL_COMPLEX_MATRIX_ELEMENTS
    return MelemType(re, im);
#else
    if (im != 0.0) throw std::runtime_error("complex amplitude in a real build");
    return re;
#endif
}

inline std::string hexd(double x) { char b[64]; snprintf(b, sizeof b, "%a", x); return b; }
inline std::string hexc(ComplexType z) { return hexd(z.real()) + " " + hexd(z.imag()); }
inline std::string hexm(MelemType z) {
#ifdef POMEROL_COMPLEX_MATRIX_ELEMENTS
    return hexc(z);
#else
    return hexd(z) + " 0x0p+0";
#endif
}

struct Scenario {
    std::vector<std::vector<std::string> > lines;
    bool order_spins;
    std::string symm;
    std::vector<Operator> ioms;
    double beta, trunc;
    bool has_trunc;
    std::vector<double> truncs;      // every `trunc` / `truncv` line, in order
    std::vector<bool> trunc_default_args;   // `truncv <eps>`: truncateBlocks(eps) with the default second argument (verbose report on stdout)
    Scenario() : order_spins(false), symm("default"), beta(1.0), trunc(0.0), has_trunc(false) {}
};

// reads lines up to "end" (or EOF); returns false at EOF with nothing read
inline bool read_scenario(std::istream& in, Scenario& sc) {
    std::string line;
    bool any = false;
    while (std::getline(in, line)) {
        std::istringstream ss(line);
        std::vector<std::string> t;
        std::string w;
        while (ss >> w) t.push_back(w);
        if (t.empty() || t[0][0] == '#') continue;
        any = true;
        if (t[0] == "end") break;
        if (t[0] == "order_spins") sc.order_spins = atoi(t[1].c_str()) != 0;
        else if (t[0] == "symm") sc.symm = t[1];
        else if (t[0] == "beta") sc.beta = atof(t[1].c_str());
        else if (t[0] == "trunc" || t[0] == "truncv") { sc.trunc = atof(t[1].c_str()); sc.has_trunc = true; sc.truncs.push_back(sc.trunc);
                                                         sc.trunc_default_args.push_back(t[0] == "truncv"); }
        else if (t[0] == "iom") {
            Operator op;
            size_t p = 1;
            int nt = atoi(t[p++].c_str());
            for (int k = 0; k < nt; ++k) {
                MelemType coef = parse_melem(t[p++]);
                int nops = atoi(t[p++].c_str());
                Operator mono;
                bool first = true;
                for (int j = 0; j < nops; ++j) {
                    int dag = atoi(t[p++].c_str());
                    int idx = atoi(t[p++].c_str());
                    Operator f = dag ? OperatorPresets::c_dag(idx) : OperatorPresets::c(idx);
                    if (first) { mono = f; first = false; } else mono *= f;
                }
                if (nops == 0) { op += coef; }
                else op += mono * coef;
            }
            sc.ioms.push_back(op);
        }
        else sc.lines.push_back(t);
    }
    return any;
}

// apply one lattice-building line; returns "ok" or the exception class name
inline std::string apply_lattice_line(Lattice& L, const std::vector<std::string>& t) {
    try {
        const std::string& c = t[0];
        if (c == "site") L.addSite(new Lattice::Site(t[1], atoi(t[2].c_str()), atoi(t[3].c_str())));
        else if (c == "addCoulombS") LatticePresets::addCoulombS(&L, t[1], parse_melem(t[2]), parse_melem(t[3]));
        else if (c == "addCoulombP") LatticePresets::addCoulombP(&L, t[1], parse_melem(t[2]), parse_melem(t[3]), parse_melem(t[4]), parse_melem(t[5]));
        else if (c == "addCoulombP3") LatticePresets::addCoulombP(&L, t[1], parse_melem(t[2]), parse_melem(t[3]), parse_melem(t[4]));
        else if (c == "addLevel") LatticePresets::addLevel(&L, t[1], parse_melem(t[2]));
        else if (c == "addMagnetization") LatticePresets::addMagnetization(&L, t[1], parse_melem(t[2]));
        else if (c == "addSzSz") LatticePresets::addSzSz(&L, t[1], t[2], parse_melem(t[3]));
        else if (c == "addSS") LatticePresets::addSS(&L, t[1], t[2], parse_melem(t[3]));
        else if (c == "addHopping8") LatticePresets::addHopping(&L, t[1], t[2], parse_melem(t[3]), (unsigned short)atoi(t[4].c_str()), (unsigned short)atoi(t[5].c_str()), (unsigned short)atoi(t[6].c_str()), (unsigned short)atoi(t[7].c_str()));
        else if (c == "addHopping7") LatticePresets::addHopping(&L, t[1], t[2], parse_melem(t[3]), (unsigned short)atoi(t[4].c_str()), (unsigned short)atoi(t[5].c_str()), (unsigned short)atoi(t[6].c_str()));
        else if (c == "addHopping6") LatticePresets::addHopping(&L, t[1], t[2], parse_melem(t[3]), (unsigned short)atoi(t[4].c_str()), (unsigned short)atoi(t[5].c_str()));
        else if (c == "addHopping4") LatticePresets::addHopping(&L, t[1], t[2], parse_melem(t[3]));
        else if (c == "term") {
            int N = atoi(t[1].c_str());
            Lattice::Term T(N);
            T.Value = parse_melem(t[2]);
            for (int i = 0; i < N; ++i) {
                T.OperatorSequence[i] = atoi(t[3 + 4 * i].c_str()) != 0;
                T.SiteLabels[i] = t[4 + 4 * i];
                T.Orbitals[i] = atoi(t[5 + 4 * i].c_str());
                T.Spins[i] = atoi(t[6 + 4 * i].c_str());
            }
            L.addTerm(&T);
        }
        else return "unknown-command";
    } catch (Lattice::exWrongLabel&) { return "exWrongLabel";
    } catch (Lattice::Term::Presets::exWrongIndices&) { return "exWrongIndices";
    } catch (std::exception& e) { return std::string("exception:") + e.what(); }
    return "ok";
}

struct ED {
    Lattice L;
    IndexClassification* Idx;
    IndexHamiltonian* Hidx;
    Symmetrizer* Symm;
    StatesClassification* S;
    Hamiltonian* H;
    DensityMatrix* rho;
    FieldOperatorContainer* Ops;
    boost::mpi::communicator comm;
    std::string stage;     // last stage reached
    std::string error;     // non-empty if a stage threw
    ED() : Idx(0), Hidx(0), Symm(0), S(0), H(0), rho(0), Ops(0) {}

    // stages: lattice index ham symm states diag dm ops
    bool build(const Scenario& sc, const std::string& upto = "ops") {
        try {
            stage = "lattice";
            for (size_t i = 0; i < sc.lines.size(); ++i) {
                std::string r = apply_lattice_line(L, sc.lines[i]);
                if (r != "ok") { error = "lattice line " + sc.lines[i][0] + ": " + r; return false; }
            }
            if (upto == "lattice") return true;
            stage = "index";
            Idx = new IndexClassification(L.getSiteMap());
            Idx->prepare(sc.order_spins);
            if (upto == "index") return true;
            stage = "ham";
            Hidx = new IndexHamiltonian(&L, *Idx);
            Hidx->prepare();
            if (upto == "ham") return true;
            stage = "symm";
            Symm = new Symmetrizer(*Idx, *Hidx);
            if (sc.symm == "default") Symm->compute(false);
            else if (sc.symm == "ignore") Symm->compute(true);
            else Symm->compute(sc.ioms);
            if (upto == "symm") return true;
            stage = "states";
            S = new StatesClassification(*Idx, *Symm);
            S->compute();
            if (upto == "states") return true;
            stage = "diag";
            H = new Hamiltonian(*Idx, *Hidx, *S);
            H->prepare(comm);
            if (upto == "hprep") return true;
            H->compute(comm);
            if (upto == "diag") return true;
            stage = "dm";
            rho = new DensityMatrix(*S, *H, sc.beta);
            rho->prepare();
            rho->compute();
            for (size_t ti = 0; ti < sc.truncs.size(); ++ti) {
                if (sc.trunc_default_args[ti]) rho->truncateBlocks(sc.truncs[ti]);    // as a user calls it: default arguments
                else rho->truncateBlocks(sc.truncs[ti], false);
            }
            if (upto == "dm") return true;
            stage = "ops";
            Ops = new FieldOperatorContainer(*Idx, *S, *H);
            Ops->prepareAll();
            Ops->computeAll();
            return true;
        } catch (std::exception& e) {
            error = std::string("exception at stage ") + stage + ": " + e.what();
            return false;
        }
    }
};

// silence the library's INFO chatter on stdout: harness results go to a separate stream
struct Quiet {
    std::streambuf* old;
    std::ostringstream sink;
    Quiet() { old = std::cout.rdbuf(sink.rdbuf()); }
    ~Quiet() { std::cout.rdbuf(old); }
};

} // namespace pv
#endif
