// C12 harness: free (quadratic) models -- Green's function and the real Vertex4 of the library.
// Input:  model <scenario lines> end    (see ed_common.h), then one command per line:
//   info                               -> "N <n>" and "INFO <idx> <label> <orbital> <spin>" per single-particle index, "BETA <hex>"
//   gf <i> <j> <nz> {re im}            -> "G i j vanishing {re im}"      GreensFunction::operator()(ComplexType)
//   gfn <i> <j> <n...>                 -> "GN i j {n re im}"             GreensFunction::operator()(long)
//   vertex <i> <j> <k> <l> <nf> {n1 n2 n3}
//        -> "VX i j k l chi_vanishing {n1 n2 n3  chi  g13(n1) g24(n2) g14(n1) g23(n2)  value}" (complex numbers as hex re im)
//           value = Vertex4::value(n1,n2,n3) of the real class built from the same objects
// All floating-point output is hex floats.
#include "ed_common.h"
using namespace Pomerol;

static std::vector<std::string> toks(const std::string& line) {
    std::istringstream ss(line); std::vector<std::string> t; std::string w;
    while (ss >> w) t.push_back(w);
    return t;
}
static long L(const std::string& s) { return atol(s.c_str()); }
static double D(const std::string& s) { return strtod(s.c_str(), 0); }

int main(int argc, char* argv[]) {
    boost::mpi::environment env(argc, argv);
    pv::Quiet quiet;
    pv::ED* ed = 0;
    std::string line;
    while (std::getline(std::cin, line)) {
        std::vector<std::string> t = toks(line);
        if (t.empty()) continue;
        const std::string& c = t[0];
        try {
        if (c == "model") {
            pv::Scenario sc;
            pv::read_scenario(std::cin, sc);
            ed = new pv::ED();
            bool ok = ed->build(sc, "ops");
            if (!ok) printf("ERROR %s\n", ed->error.c_str());
            else printf("BUILT\n");
        } else if (c == "info") {
            printf("N %u\n", ed->Idx->getIndexSize());
            for (ParticleIndex i = 0; i < ed->Idx->getIndexSize(); ++i) {
                IndexClassification::IndexInfo* p = ed->Idx->IndicesToInfo[i];
                if (p) printf("INFO %u %s %u %u\n", i, p->SiteLabel.c_str(), unsigned(p->Orbital), unsigned(p->Spin));
                else printf("INFO %u NULL\n", i);
            }
            printf("BETA %s\n", pv::hexd(ed->rho->beta).c_str());
        } else if (c == "gf") {
            int i = L(t[1]), j = L(t[2]); int nz = L(t[3]);
            GreensFunction g(*ed->S, *ed->H, ed->Ops->getAnnihilationOperator(i), ed->Ops->getCreationOperator(j), *ed->rho);
            g.prepare(); g.compute();
            printf("G %d %d %d", i, j, int(g.isVanishing()));
            for (int k = 0; k < nz; ++k) printf(" %s", pv::hexc(g(ComplexType(D(t[4 + 2 * k]), D(t[5 + 2 * k])))).c_str());
            printf("\n");
        } else if (c == "gfn") {
            int i = L(t[1]), j = L(t[2]);
            GreensFunction g(*ed->S, *ed->H, ed->Ops->getAnnihilationOperator(i), ed->Ops->getCreationOperator(j), *ed->rho);
            g.prepare(); g.compute();
            printf("GN %d %d", i, j);
            for (size_t k = 3; k < t.size(); ++k) printf(" %ld %s", L(t[k]), pv::hexc(g(long(L(t[k])))).c_str());
            printf("\n");
        } else if (c == "vertex") {
            int i = L(t[1]), j = L(t[2]), k = L(t[3]), l = L(t[4]); int nf = L(t[5]);
            TwoParticleGF chi(*ed->S, *ed->H, ed->Ops->getAnnihilationOperator(i), ed->Ops->getAnnihilationOperator(j),
                              ed->Ops->getCreationOperator(k), ed->Ops->getCreationOperator(l), *ed->rho);
            chi.prepare(); chi.compute();
            GreensFunction g13(*ed->S, *ed->H, ed->Ops->getAnnihilationOperator(i), ed->Ops->getCreationOperator(k), *ed->rho);
            GreensFunction g24(*ed->S, *ed->H, ed->Ops->getAnnihilationOperator(j), ed->Ops->getCreationOperator(l), *ed->rho);
            GreensFunction g14(*ed->S, *ed->H, ed->Ops->getAnnihilationOperator(i), ed->Ops->getCreationOperator(l), *ed->rho);
            GreensFunction g23(*ed->S, *ed->H, ed->Ops->getAnnihilationOperator(j), ed->Ops->getCreationOperator(k), *ed->rho);
            g13.prepare(); g13.compute(); g24.prepare(); g24.compute(); g14.prepare(); g14.compute(); g23.prepare(); g23.compute();
            Vertex4 gamma(chi, g13, g24, g14, g23);
            printf("VX %d %d %d %d %d", i, j, k, l, int(chi.isVanishing()));
            for (int f = 0; f < nf; ++f) {
                long n1 = L(t[6 + 3 * f]), n2 = L(t[7 + 3 * f]), n3 = L(t[8 + 3 * f]);
                printf(" %ld %ld %ld %s %s %s %s %s %s", n1, n2, n3, pv::hexc(chi(n1, n2, n3)).c_str(),
                       pv::hexc(g13(n1)).c_str(), pv::hexc(g24(n2)).c_str(), pv::hexc(g14(n1)).c_str(), pv::hexc(g23(n2)).c_str(),
                       pv::hexc(gamma.value(n1, n2, n3)).c_str());
            }
            printf("\n");
        } else {
            printf("UNKNOWN %s\n", c.c_str());
        }
        } catch (std::exception& ex) {
            printf("THROWS %s %s\n", c.c_str(), ex.what());
        }
        fflush(stdout);
    }
    return 0;
}
