// C12 harness: free (quadratic) models -- Green's function and the real Vertex4 of the library.
// Input:  model <scenario lines> end    (see ed_common.h), then one command per line:
//   info                               -> "N <n>" and "INFO <idx> <label> <orbital> <spin>" per single-particle index, "BETA <hex>"
//   gf <i> <j> <nz> {re im}            -> "G i j vanishing {re im}"      GreensFunction::operator()(ComplexType)
//   gfn <i> <j> <n...>                 -> "GN i j {n re im}"             GreensFunction::operator()(long)
//   vertex <i> <j> <k> <l> <nf> {n1 n2 n3}
//        -> "VX i j k l chi_vanishing {n1 n2 n3  chi  g13(n1) g24(n2) g14(n1) g23(n2)  value}" (complex numbers as hex re im)
//           value = Vertex4::value(n1,n2,n3) of the real class built from the same objects
//   checkterms <i> <j> <k> <l>
//        -> "CT i j k l nparts  nonresonant_lists_failing resonant_lists_failing  stored_negligible order_violations  coeff threshold size":
//           TermList::check_terms() (the condition asserted at the end of TwoParticleGFPart::compute, compiled out with NDEBUG) on
//           every computed part; which of its two conditions fails (a stored term negligible w.r.t. the final list size / the
//           order), and the smallest such coefficient with its threshold 1e-16/(size+1)
// All floating-point output is hex floats.
#include "ed_common.h"
using namespace Pomerol;

static std::vector<std::string> toks(const std::string& line) {
    std::istringstream ss(line); std::vector<std::string> t; std::string w;
    while (ss >> w) t.push_back(w);
    return t;
}
static long L(const std::string& s) { return atol(s.c_str()); }
static double D(const std::string& s) { return strtod(s.c_str(), 0); }

int main(int argc, char* argv[]) {
    boost::mpi::environment env(argc, argv);
    pv::Quiet quiet;
    pv::ED* ed = 0;
    std::string line;
    while (std::getline(std::cin, line)) {
        std::vector<std::string> t = toks(line);
        if (t.empty()) continue;
        const std::string& c = t[0];
        try {
        if (c == "model") {
            pv::Scenario sc;
            pv::read_scenario(std::cin, sc);
            ed = new pv::ED();
            bool ok = ed->build(sc, "ops");
            if (!ok) printf("ERROR %s\n", ed->error.c_str());
            else printf("BUILT\n");
        } else if (c == "info") {
            printf("N %u\n", ed->Idx->getIndexSize());
            for (ParticleIndex i = 0; i < ed->Idx->getIndexSize(); ++i) {
                IndexClassification::IndexInfo* p = ed->Idx->IndicesToInfo[i];
                if (p) printf("INFO %u %s %u %u\n", i, p->SiteLabel.c_str(), unsigned(p->Orbital), unsigned(p->Spin));
                else printf("INFO %u NULL\n", i);
            }
            printf("BETA %s\n", pv::hexd(ed->rho->beta).c_str());
        } else if (c == "gf") {
            int i = L(t[1]), j = L(t[2]); int nz = L(t[3]);
            GreensFunction g(*ed->S, *ed->H, ed->Ops->getAnnihilationOperator(i), ed->Ops->getCreationOperator(j), *ed->rho);
            g.prepare(); g.compute();
            printf("G %d %d %d", i, j, int(g.isVanishing()));
            for (int k = 0; k < nz; ++k) printf(" %s", pv::hexc(g(ComplexType(D(t[4 + 2 * k]), D(t[5 + 2 * k])))).c_str());
            printf("\n");
        } else if (c == "gfn") {
            int i = L(t[1]), j = L(t[2]);
            GreensFunction g(*ed->S, *ed->H, ed->Ops->getAnnihilationOperator(i), ed->Ops->getCreationOperator(j), *ed->rho);
            g.prepare(); g.compute();
            printf("GN %d %d", i, j);
            for (size_t k = 3; k < t.size(); ++k) printf(" %ld %s", L(t[k]), pv::hexc(g(long(L(t[k])))).c_str());
            printf("\n");
        } else if (c == "vertex") {
            int i = L(t[1]), j = L(t[2]), k = L(t[3]), l = L(t[4]); int nf = L(t[5]);
            TwoParticleGF chi(*ed->S, *ed->H, ed->Ops->getAnnihilationOperator(i), ed->Ops->getAnnihilationOperator(j),
                              ed->Ops->getCreationOperator(k), ed->Ops->getCreationOperator(l), *ed->rho);
            chi.prepare(); chi.compute();
            GreensFunction g13(*ed->S, *ed->H, ed->Ops->getAnnihilationOperator(i), ed->Ops->getCreationOperator(k), *ed->rho);
            GreensFunction g24(*ed->S, *ed->H, ed->Ops->getAnnihilationOperator(j), ed->Ops->getCreationOperator(l), *ed->rho);
            GreensFunction g14(*ed->S, *ed->H, ed->Ops->getAnnihilationOperator(i), ed->Ops->getCreationOperator(l), *ed->rho);
            GreensFunction g23(*ed->S, *ed->H, ed->Ops->getAnnihilationOperator(j), ed->Ops->getCreationOperator(k), *ed->rho);
            g13.prepare(); g13.compute(); g24.prepare(); g24.compute(); g14.prepare(); g14.compute(); g23.prepare(); g23.compute();
            Vertex4 gamma(chi, g13, g24, g14, g23);
            printf("VX %d %d %d %d %d", i, j, k, l, int(chi.isVanishing()));
            for (int f = 0; f < nf; ++f) {
                long n1 = L(t[6 + 3 * f]), n2 = L(t[7 + 3 * f]), n3 = L(t[8 + 3 * f]);
                printf(" %ld %ld %ld %s %s %s %s %s %s", n1, n2, n3, pv::hexc(chi(n1, n2, n3)).c_str(),
                       pv::hexc(g13(n1)).c_str(), pv::hexc(g24(n2)).c_str(), pv::hexc(g14(n1)).c_str(), pv::hexc(g23(n2)).c_str(),
                       pv::hexc(gamma.value(n1, n2, n3)).c_str());
            }
            printf("\n");
        } else if (c == "checkterms") {
            // checkterms <i> <j> <k> <l>: the two conditions that TwoParticleGFPart::compute() asserts at its end
            // (compiled out with NDEBUG), evaluated on every part of a freshly computed TwoParticleGF
            int i = L(t[1]), j = L(t[2]), k = L(t[3]), l = L(t[4]);
            TwoParticleGF chi(*ed->S, *ed->H, ed->Ops->getAnnihilationOperator(i), ed->Ops->getAnnihilationOperator(j),
                              ed->Ops->getCreationOperator(k), ed->Ops->getCreationOperator(l), *ed->rho);
            chi.prepare(); chi.compute();
            long nparts = 0, badnr = 0, badr = 0, negl = 0, order = 0;
            double worst = 0, worst_thr = 0; long worst_size = 0;
            for (std::vector<TwoParticleGFPart*>::const_iterator it = chi.parts.begin(); it != chi.parts.end(); ++it) {
                TwoParticleGFPart& p = **it;
                if (p.Status < TwoParticleGFPart::Computed) continue;
                ++nparts;
                bool nr = p.NonResonantTerms.check_terms(), rs = p.ResonantTerms.check_terms();
                badnr += !nr; badr += !rs;
                // which of the two conditions of check_terms fails: a stored term that is "negligible" w.r.t. the final size, or the order
                size_t n1 = p.NonResonantTerms.data.size(), n2 = p.ResonantTerms.data.size();
                TwoParticleGFPart::NonResonantTerm::Compare cmp1 = p.NonResonantTerms.data.key_comp();
                const TwoParticleGFPart::NonResonantTerm* prev1 = 0;
                for (std::set<TwoParticleGFPart::NonResonantTerm, TwoParticleGFPart::NonResonantTerm::Compare>::const_iterator q = p.NonResonantTerms.data.begin(); q != p.NonResonantTerms.data.end(); ++q) {
                    if (p.NonResonantTerms.is_negligible(*q, n1 + 1)) { ++negl; if (worst == 0 || std::abs(q->Coeff) < worst) { worst = std::abs(q->Coeff); worst_thr = 1e-16 / (n1 + 1); worst_size = n1; } }
                    if (prev1 && !cmp1(*prev1, *q)) ++order;
                    prev1 = &*q;
                }
                TwoParticleGFPart::ResonantTerm::Compare cmp2 = p.ResonantTerms.data.key_comp();
                const TwoParticleGFPart::ResonantTerm* prev2 = 0;
                for (std::set<TwoParticleGFPart::ResonantTerm, TwoParticleGFPart::ResonantTerm::Compare>::const_iterator q = p.ResonantTerms.data.begin(); q != p.ResonantTerms.data.end(); ++q) {
                    if (p.ResonantTerms.is_negligible(*q, n2 + 1)) { ++negl; double m = std::max(std::abs(q->ResCoeff), std::abs(q->NonResCoeff)); if (worst == 0 || m < worst) { worst = m; worst_thr = 1e-16 / (n2 + 1); worst_size = n2; } }
                    if (prev2 && !cmp2(*prev2, *q)) ++order;
                    prev2 = &*q;
                }
            }
            printf("CT %d %d %d %d %ld %ld %ld %ld %ld %s %s %ld\n", i, j, k, l, nparts, badnr, badr, negl, order,
                   pv::hexd(worst).c_str(), pv::hexd(worst_thr).c_str(), worst_size);
        } else {
            printf("UNKNOWN %s\n", c.c_str());
        }
        } catch (std::exception& ex) {
            printf("THROWS %s %s\n", c.c_str(), ex.what());
        }
        fflush(stdout);
    }
    return 0;
}
