// C15 harness. Commands on stdin:
//   probe <N> <lo> <hi>      exercise MatsubaraContainer4<Probe> from the real header: fill(N), then
//                            operator()(n1,n2,n3) over the box [lo,hi]^3; prints "P N n1 n2 n3 a b c"
//                            (a,b,c) = the triple the source was called with for the value returned
//   model ... end            scenario (see ed_common.h)
//   vertex <i> <j> <k> <l> <N> <lo> <hi> <stride>
//                            real Vertex4 on the model: compute(N); over the box compare operator() with
//                            value() bit for bit ("X ..." lines for mismatches, "S count mismatches"), and for
//                            every stride-th triple print the ingredients of value():
//                            "V n1 n2 n3 beta chi g13 g24 g14 g23 value" (hex floats)
#include "ed_common.h"
#include <memory>
using namespace Pomerol;

struct Probe {
    ComplexType value(long n1, long n2, long n3) const {
        return ComplexType(double((n1 + 100000) * 1000000 + (n2 + 100000)), double(n3));
    }
};

int main(int argc, char* argv[]) {
    boost::mpi::environment env(argc, argv);
    pv::Quiet quiet;
    std::string line;
    pv::ED* ed = 0;
    while (std::getline(std::cin, line)) {
        std::istringstream ss(line);
        std::string cmd;
        if (!(ss >> cmd)) continue;
        if (cmd == "probe") {
            long N, lo, hi;
            ss >> N >> lo >> hi;
            Probe p;
            MatsubaraContainer4<Probe> st;
            st.fill(&p, N);
            for (long n1 = lo; n1 <= hi; ++n1) for (long n2 = lo; n2 <= hi; ++n2) for (long n3 = lo; n3 <= hi; ++n3) {
                ComplexType v = st(n1, n2, n3);
                long long r = (long long)v.real();
                long a = long(r / 1000000) - 100000, b = long(r % 1000000) - 100000, c = long(v.imag());
                printf("P %ld %ld %ld %ld %ld %ld %ld\n", N, n1, n2, n3, a, b, c);
            }
        } else if (cmd == "probeseq") {
            // probeseq <k> <N1> ... <Nk> <lo> <hi> : fill(N1) ... fill(Nk) on the SAME container, then lookups with the last window
            int k; ss >> k;
            std::vector<long> Ns(k);
            for (int i = 0; i < k; ++i) ss >> Ns[i];
            long lo, hi; ss >> lo >> hi;
            Probe p;
            MatsubaraContainer4<Probe> st;
            for (int i = 0; i < k; ++i) st.fill(&p, Ns[i]);
            for (long n1 = lo; n1 <= hi; ++n1) for (long n2 = lo; n2 <= hi; ++n2) for (long n3 = lo; n3 <= hi; ++n3) {
                ComplexType v = st(n1, n2, n3);
                long long r = (long long)v.real();
                long a = long(r / 1000000) - 100000, b = long(r % 1000000) - 100000, c = long(v.imag());
                if (a != n1 || b != n2 || c != n3) printf("PSBAD %ld %ld %ld %ld %ld %ld\n", n1, n2, n3, a, b, c);
            }
            printf("PSDONE %d", k);
            for (int i = 0; i < k; ++i) printf(" %ld", Ns[i]);
            printf("\n");
        } else if (cmd == "vertexseq") {
            // vertexseq <i> <j> <k> <l> <m> <N1> ... <Nm> <margin>: one Vertex4 object recomputed with the windows in turn; after each
            // compute, operator() is compared with value() bit for bit over the box [-2N-margin, 2N+margin]^3
            int i, j, k, l, m; ss >> i >> j >> k >> l >> m;
            std::vector<long> Ns(m);
            for (int q = 0; q < m; ++q) ss >> Ns[q];
            long margin; ss >> margin;
            TwoParticleGF chi(*ed->S, *ed->H, ed->Ops->getAnnihilationOperator(i), ed->Ops->getAnnihilationOperator(j),
                              ed->Ops->getCreationOperator(k), ed->Ops->getCreationOperator(l), *ed->rho);
            chi.prepare(); chi.compute();
            GreensFunction g13(*ed->S, *ed->H, ed->Ops->getAnnihilationOperator(i), ed->Ops->getCreationOperator(k), *ed->rho);
            GreensFunction g24(*ed->S, *ed->H, ed->Ops->getAnnihilationOperator(j), ed->Ops->getCreationOperator(l), *ed->rho);
            GreensFunction g14(*ed->S, *ed->H, ed->Ops->getAnnihilationOperator(i), ed->Ops->getCreationOperator(l), *ed->rho);
            GreensFunction g23(*ed->S, *ed->H, ed->Ops->getAnnihilationOperator(j), ed->Ops->getCreationOperator(k), *ed->rho);
            g13.prepare(); g13.compute(); g24.prepare(); g24.compute(); g14.prepare(); g14.compute(); g23.prepare(); g23.compute();
            Vertex4 gamma(chi, g13, g24, g14, g23);
            for (int q = 0; q < m; ++q) {
                gamma.compute(Ns[q]);
                long lo = -2 * Ns[q] - margin, hi = 2 * Ns[q] + margin, mism = 0, count = 0;
                for (long n1 = lo; n1 <= hi; ++n1) for (long n2 = lo; n2 <= hi; ++n2) for (long n3 = lo; n3 <= hi; ++n3) {
                    ComplexType a = gamma(n1, n2, n3), b = gamma.value(n1, n2, n3);
                    ++count;
                    if (!(a.real() == b.real() && a.imag() == b.imag())) {
                        if (++mism == 1) printf("XS %d %ld %ld %ld %ld %s %s\n", q, Ns[q], n1, n2, n3, pv::hexc(a).c_str(), pv::hexc(b).c_str());
                    }
                }
                printf("SS %d %ld %ld %ld\n", q, Ns[q], count, mism);
            }
        } else if (cmd == "model") {
            pv::Scenario sc;
            pv::read_scenario(std::cin, sc);
            ed = new pv::ED();
            if (!ed->build(sc)) { printf("E %s\n", ed->error.c_str()); return 2; }
            printf("M ok %u\n", ed->Idx->getIndexSize());
        } else if (cmd == "vertex") {
            int i, j, k, l; long N, lo, hi, stride;
            ss >> i >> j >> k >> l >> N >> lo >> hi >> stride;
            // optional trailing 1: the Vertex4 object is constructed BEFORE chi and the four Green's functions are prepared and computed
            // (it refers to them; what it evaluates must be what they hold when it is asked)
            int early = 0; ss >> early;
            TwoParticleGF chi(*ed->S, *ed->H, ed->Ops->getAnnihilationOperator(i), ed->Ops->getAnnihilationOperator(j),
                              ed->Ops->getCreationOperator(k), ed->Ops->getCreationOperator(l), *ed->rho);
            GreensFunction g13(*ed->S, *ed->H, ed->Ops->getAnnihilationOperator(i), ed->Ops->getCreationOperator(k), *ed->rho);
            GreensFunction g24(*ed->S, *ed->H, ed->Ops->getAnnihilationOperator(j), ed->Ops->getCreationOperator(l), *ed->rho);
            GreensFunction g14(*ed->S, *ed->H, ed->Ops->getAnnihilationOperator(i), ed->Ops->getCreationOperator(l), *ed->rho);
            GreensFunction g23(*ed->S, *ed->H, ed->Ops->getAnnihilationOperator(j), ed->Ops->getCreationOperator(k), *ed->rho);
            std::unique_ptr<Vertex4> gp;
            if (early) gp.reset(new Vertex4(chi, g13, g24, g14, g23));
            chi.prepare(); chi.compute();
            g13.prepare(); g13.compute(); g24.prepare(); g24.compute(); g14.prepare(); g14.compute(); g23.prepare(); g23.compute();
            if (!early) gp.reset(new Vertex4(chi, g13, g24, g14, g23));
            Vertex4& gamma = *gp;
            gamma.compute(N);
            long count = 0, mism = 0, c2 = 0;
            for (long n1 = lo; n1 <= hi; ++n1) for (long n2 = lo; n2 <= hi; ++n2) for (long n3 = lo; n3 <= hi; ++n3) {
                ComplexType a = gamma(n1, n2, n3), b = gamma.value(n1, n2, n3);
                ++count;
                if (!(a.real() == b.real() && a.imag() == b.imag())) {
                    ++mism;
                    if (mism <= 5) printf("X %d %d %d %d %ld %ld %ld %ld %s %s\n", i, j, k, l, N, n1, n2, n3, pv::hexc(a).c_str(), pv::hexc(b).c_str());
                }
                bool special = (n1 == n3) || (n2 == n3);
                if ((special && (c2++ % 3 == 0)) || count % stride == 0)
                    printf("V %ld %ld %ld %s %s %s %s %s %s %s\n", n1, n2, n3, pv::hexd(ed->rho->beta).c_str(),
                           pv::hexc(chi(n1, n2, n3)).c_str(), pv::hexc(g13(n1)).c_str(), pv::hexc(g24(n2)).c_str(),
                           pv::hexc(g14(n1)).c_str(), pv::hexc(g23(n2)).c_str(), pv::hexc(b).c_str());
            }
            printf("S %d %d %d %d %ld %ld %ld\n", i, j, k, l, N, count, mism);
        }
    }
    return 0;
}
