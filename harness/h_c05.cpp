// C05 harness: evaluates RPN operator expressions with the real Pomerol::Operator and prints a fixed
// battery of results per case. Input line:  <M> ; <rpn A> ; <rpn B>
// RPN tokens: cI dI nI oI,J NM SM:u1,u2,.. Tu1,..|d1,..  kQ  * + - neg sQ aQ bQ comm acomm   (Q = p/q)
// Output: lines A,B,MUL,ADD,SUB,COMM,ACOMM,EQ,COMMUTES,MATA,MATB,MATMUL,(NSZ) then END. Coefficients as hex floats.
#include "ed_common.h"
#include <boost/foreach.hpp>
using namespace Pomerol;

static double parse_q(const std::string& s) {
    size_t p = s.find('/');
    if (p == std::string::npos) return atof(s.c_str());
    return atof(s.substr(0, p).c_str()) / atof(s.substr(p + 1).c_str());
}
static std::vector<ParticleIndex> parse_list(const std::string& s) {
    std::vector<ParticleIndex> v;
    std::stringstream ss(s); std::string w;
    while (std::getline(ss, w, ',')) if (!w.empty()) v.push_back(atoi(w.c_str()));
    return v;
}
struct Special { int kind; ParticleIndex M; std::vector<ParticleIndex> ups, downs; };   // 1 = N, 2 = Sz

static std::string eval_rpn(const std::string& rpn, Operator& out, std::vector<Special>& specials) {
    std::vector<Operator> st;
    std::stringstream ss(rpn); std::string t;
    try {
        while (ss >> t) {
            char k = t[0];
            std::string r = t.substr(1);
            if (t == "*" || t == "+" || t == "-" || t == "comm" || t == "acomm") {
                if (st.size() < 2) return "STACK";
                Operator b = st.back(); st.pop_back();
                Operator a = st.back(); st.pop_back();
                if (t == "*") st.push_back(a * b);
                else if (t == "+") st.push_back(a + b);
                else if (t == "-") st.push_back(a - b);
                else if (t == "comm") st.push_back(a.getCommutator(b));
                else st.push_back(a.getAntiCommutator(b));
            } else if (t == "neg") { Operator a = st.back(); st.pop_back(); st.push_back(-a); }
            else if (k == 'c') st.push_back(OperatorPresets::c(atoi(r.c_str())));
            else if (k == 'd') st.push_back(OperatorPresets::c_dag(atoi(r.c_str())));
            else if (k == 'n') st.push_back(OperatorPresets::n(atoi(r.c_str())));
            else if (k == 'o') { std::vector<ParticleIndex> v = parse_list(r); st.push_back(OperatorPresets::n_offdiag(v[0], v[1])); }
            else if (k == 'N') { ParticleIndex M = atoi(r.c_str()); st.push_back(OperatorPresets::N(M)); Special s; s.kind = 1; s.M = M; specials.push_back(s); }
            else if (k == 'S') {
                size_t c = r.find(':'); ParticleIndex M = atoi(r.substr(0, c).c_str());
                std::vector<ParticleIndex> ups = parse_list(r.substr(c + 1));
                st.push_back(OperatorPresets::Sz(M, ups));
                Special s; s.kind = 2; s.M = M; s.ups = ups; specials.push_back(s);
            }
            else if (k == 'T') {
                size_t c = r.find('|');
                std::vector<ParticleIndex> ups = parse_list(r.substr(0, c)), downs = parse_list(r.substr(c + 1));
                st.push_back(OperatorPresets::Sz(ups, downs));
                Special s; s.kind = 3; s.M = 0; s.ups = ups; s.downs = downs; specials.push_back(s);
            }
            else if (k == 'k') { Operator a; a += MelemType(parse_q(r)); st.push_back(a); }
            else if (k == 'm') {   // raw monomial through normalize_and_insert, e.g. mc0.d1.d0
                Operator::monomial_t m;
                std::stringstream ms(r); std::string w;
                while (std::getline(ms, w, '.')) if (!w.empty())
                    m.push_back(boost::make_tuple(w[0] == 'd' ? Operator::creation : Operator::annihilation, ParticleIndex(atoi(w.substr(1).c_str()))));
                Operator a;
                Operator::normalize_and_insert(m, MelemType(1), a.monomials);
                st.push_back(a);
            }
            else if (k == 's') { Operator a = st.back(); st.pop_back(); st.push_back(a * MelemType(parse_q(r))); }
            else if (k == 'a') { Operator a = st.back(); st.pop_back(); st.push_back(a + MelemType(parse_q(r))); }
            else if (k == 'b') { Operator a = st.back(); st.pop_back(); st.push_back(a - MelemType(parse_q(r))); }
            else return "TOKEN";
        }
    } catch (Operator::exWrongLabel&) { return "THROWS1"; }
    if (st.size() != 1) return "STACK";
    out = st.back();
    return "";
}

static void print_poly(const char* tag, const Operator& op) {
    printf("%s", tag);
    for (Operator::const_iterator it = op.begin(); it != op.end(); ++it) {
        printf(" ");
        if (it->first.empty()) printf("1");
        for (size_t i = 0; i < it->first.size(); ++i)
            printf("%s%c%u", i ? "." : "", boost::get<0>(it->first[i]) == Operator::creation ? 'd' : 'c', boost::get<1>(it->first[i]));
        printf("=%s", pv::hexd(std::real(ComplexType(it->second))).c_str());
    }
    printf("\n");
}
static void print_mat(const char* tag, const Operator& op, unsigned M) {
    printf("%s", tag);
    for (unsigned long k = 0; k < (1ul << M); ++k) {
        FockState ket(M, k);
        std::map<FockState, MelemType> r = op.actRight(ket);
        if (r.empty()) continue;
        printf(" %lu:", k);
        bool first = true;
        for (std::map<FockState, MelemType>::const_iterator it = r.begin(); it != r.end(); ++it) {
            printf("%s%lu=%s", first ? "" : ",", it->first.to_ulong(), pv::hexd(std::real(ComplexType(it->second))).c_str());
            first = false;
        }
    }
    printf("\n");
}

int main(int argc, char* argv[]) {
    boost::mpi::environment env(argc, argv);
    pv::Quiet quiet;
    std::string line;
    while (std::getline(std::cin, line)) {
        size_t p1 = line.find(';'), p2 = line.find(';', p1 + 1);
        if (p1 == std::string::npos || p2 == std::string::npos) continue;
        unsigned M = atoi(line.substr(0, p1).c_str());
        Operator A, B;
        std::vector<Special> sp, spB;
        std::string ea = eval_rpn(line.substr(p1 + 1, p2 - p1 - 1), A, sp);
        std::string eb = eval_rpn(line.substr(p2 + 1), B, spB);
        if (!ea.empty() || !eb.empty()) { printf("ERR %s %s\nEND\n", ea.c_str(), eb.c_str()); fflush(stdout); continue; }
        print_poly("A", A);
        print_poly("B", B);
        Operator AB = A * B;
        print_poly("MUL", AB);
        print_poly("ADD", A + B);
        print_poly("SUB", A - B);
        print_poly("COMM", A.getCommutator(B));
        print_poly("ACOMM", A.getAntiCommutator(B));
        printf("EQ %d\n", int(A == B));
        printf("COMMUTES %d\n", int(A.commutes(B)));
        print_mat("MATA", A, M);
        print_mat("MATB", B, M);
        print_mat("MATMUL", AB, M);
        // specialised N / Sz objects created while evaluating A: shortcut vs generic polynomial on every ket
        for (size_t i = 0; i < sp.size(); ++i) {
            printf("SPECIAL %d", sp[i].kind);
            for (unsigned long k = 0; k < (1ul << M); ++k) {
                FockState ket(M, k);
                MelemType fast, slow;
                if (sp[i].kind == 1) { OperatorPresets::N n(sp[i].M); fast = n.getMatrixElement(ket, ket); slow = Operator(n).getMatrixElement(ket, ket); }
                else if (sp[i].kind == 2) { OperatorPresets::Sz z(sp[i].M, sp[i].ups); fast = z.getMatrixElement(ket, ket); slow = Operator(z).getMatrixElement(ket, ket); }
                else { OperatorPresets::Sz z(sp[i].ups, sp[i].downs); fast = z.getMatrixElement(ket, ket); slow = Operator(z).getMatrixElement(ket, ket); }
                printf(" %lu:%s|%s", k, pv::hexd(std::real(ComplexType(fast))).c_str(), pv::hexd(std::real(ComplexType(slow))).c_str());
            }
            printf("\n");
        }
        printf("END\n"); fflush(stdout);
    }
    return 0;
}
