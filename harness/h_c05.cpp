// C05 harness: evaluates RPN operator expressions with the real Pomerol::Operator and prints a fixed
// battery of results per case. Input line:  <M> ; <rpn A> ; <rpn B>
// RPN tokens: cI dI nI oI,J NM SM:u1,u2,.. Tu1,..|d1,..  kQ  * + - neg sQ aQ bQ comm acomm   (Q = p/q)
// Output: lines A,B,MUL,ADD,SUB,COMM,ACOMM,EQ,COMMUTES,MATA,MATB,MATMUL,(NSZ) then END. Coefficients as hex floats.
// Further lines (not printed by the model driver; checks/C05.py compares them with matrix expressions of the model's MATA/MATB):
//   MATADD MATSUB MATCOMM MATACOMM          matrices of A+B, A-B, [A,B], {A,B} read through actRight(ket)
//   GMEA GMEB GMEMUL GMEADD GMESUB GMECOMM GMEACOMM   the same seven matrices read through getMatrixElement(bra,ket), ALL (bra,ket) pairs
//   SPECDIAG kind ket:one-arg|actRight-diag|n-offdiag-nonzero ...   N / Sz: getMatrixElement(ket), actRight(ket), getMatrixElement(bra!=ket)
//   ALIAS <name> MAT <matrix> GME <matrix>   in-place expressions whose right-hand side IS the left-hand side object (S = copy of A):
//       S*=S  S+=S  S*=S*S  S*=T(T a copy: reference)  S=S*S  S=S+S  S=S-S  S=S  S*=S;S*=S  S+=S;S*=S  S*=S;S+=S  S*=S;S-=T  S+=S*S  S-=S*S
//       comm(S,S) acomm(S,S)  S*=coef S+=coef S-=coef (coef = S.begin()->second read from the object itself)   and  ALIASFLAGS eq commutes
//   `h_c05 alias-sub`: per input line only  ALIASSUB MAT <matrix of S after S -= S> GME <...>  (a process of its own: see checks/C05.py)
#include "ed_common.h"
#include <boost/foreach.hpp>
#include <memory>
using namespace Pomerol;

static double parse_q(const std::string& s) {
    size_t p = s.find('/');
    if (p == std::string::npos) return atof(s.c_str());
    return atof(s.substr(0, p).c_str()) / atof(s.substr(p + 1).c_str());
}
static std::vector<ParticleIndex> parse_list(const std::string& s) {
    std::vector<ParticleIndex> v;
    std::stringstream ss(s); std::string w;
    while (std::getline(ss, w, ',')) if (!w.empty()) v.push_back(atoi(w.c_str()));
    return v;
}
struct Special { int kind; ParticleIndex M; std::vector<ParticleIndex> ups, downs; };   // 1 = N, 2 = Sz

static std::string eval_rpn(const std::string& rpn, Operator& out, std::vector<Special>& specials) {
    std::vector<Operator> st;
    std::stringstream ss(rpn); std::string t;
    try {
        while (ss >> t) {
            char k = t[0];
            std::string r = t.substr(1);
            if (t == "*" || t == "+" || t == "-" || t == "comm" || t == "acomm") {
                if (st.size() < 2) return "STACK";
                Operator b = st.back(); st.pop_back();
                Operator a = st.back(); st.pop_back();
                if (t == "*") st.push_back(a * b);
                else if (t == "+") st.push_back(a + b);
                else if (t == "-") st.push_back(a - b);
                else if (t == "comm") st.push_back(a.getCommutator(b));
                else st.push_back(a.getAntiCommutator(b));
            } else if (t == "neg") { Operator a = st.back(); st.pop_back(); st.push_back(-a); }
            else if (k == 'c') st.push_back(OperatorPresets::c(atoi(r.c_str())));
            else if (k == 'd') st.push_back(OperatorPresets::c_dag(atoi(r.c_str())));
            else if (k == 'n') st.push_back(OperatorPresets::n(atoi(r.c_str())));
            else if (k == 'o') { std::vector<ParticleIndex> v = parse_list(r); st.push_back(OperatorPresets::n_offdiag(v[0], v[1])); }
            else if (k == 'N') { ParticleIndex M = atoi(r.c_str()); st.push_back(OperatorPresets::N(M)); Special s; s.kind = 1; s.M = M; specials.push_back(s); }
            else if (k == 'S') {
                size_t c = r.find(':'); ParticleIndex M = atoi(r.substr(0, c).c_str());
                std::vector<ParticleIndex> ups = parse_list(r.substr(c + 1));
                st.push_back(OperatorPresets::Sz(M, ups));
                Special s; s.kind = 2; s.M = M; s.ups = ups; specials.push_back(s);
            }
            else if (k == 'T') {
                size_t c = r.find('|');
                std::vector<ParticleIndex> ups = parse_list(r.substr(0, c)), downs = parse_list(r.substr(c + 1));
                st.push_back(OperatorPresets::Sz(ups, downs));
                Special s; s.kind = 3; s.M = 0; s.ups = ups; s.downs = downs; specials.push_back(s);
            }
            else if (k == 'k') { Operator a; a += MelemType(parse_q(r)); st.push_back(a); }
            else if (k == 'm') {   // raw monomial through normalize_and_insert, e.g. mc0.d1.d0
                Operator::monomial_t m;
                std::stringstream ms(r); std::string w;
                while (std::getline(ms, w, '.')) if (!w.empty())
                    m.push_back(boost::make_tuple(w[0] == 'd' ? Operator::creation : Operator::annihilation, ParticleIndex(atoi(w.substr(1).c_str()))));
                Operator a;
                Operator::normalize_and_insert(m, MelemType(1), a.monomials);
                st.push_back(a);
            }
            else if (k == 's') { Operator a = st.back(); st.pop_back(); st.push_back(a * MelemType(parse_q(r))); }
            else if (k == 'a') { Operator a = st.back(); st.pop_back(); st.push_back(a + MelemType(parse_q(r))); }
            else if (k == 'b') { Operator a = st.back(); st.pop_back(); st.push_back(a - MelemType(parse_q(r))); }
            else return "TOKEN";
        }
    } catch (Operator::exWrongLabel&) { return "THROWS1"; }
    if (st.size() != 1) return "STACK";
    out = st.back();
    return "";
}

static void print_poly(const char* tag, const Operator& op) {
    printf("%s", tag);
    for (Operator::const_iterator it = op.begin(); it != op.end(); ++it) {
        printf(" ");
        if (it->first.empty()) printf("1");
        for (size_t i = 0; i < it->first.size(); ++i)
            printf("%s%c%u", i ? "." : "", boost::get<0>(it->first[i]) == Operator::creation ? 'd' : 'c', boost::get<1>(it->first[i]));
        printf("=%s", pv::hexd(std::real(ComplexType(it->second))).c_str());
    }
    printf("\n");
}
static void print_mat(const char* tag, const Operator& op, unsigned M) {
    printf("%s", tag);
    for (unsigned long k = 0; k < (1ul << M); ++k) {
        FockState ket(M, k);
        std::map<FockState, MelemType> r = op.actRight(ket);
        if (r.empty()) continue;
        printf(" %lu:", k);
        bool first = true;
        for (std::map<FockState, MelemType>::const_iterator it = r.begin(); it != r.end(); ++it) {
            printf("%s%lu=%s", first ? "" : ",", it->first.to_ulong(), pv::hexd(std::real(ComplexType(it->second))).c_str());
            first = false;
        }
    }
    printf("\n");
}

// every (bra, ket) pair through getMatrixElement(bra, ket); same format as print_mat
static void print_gme_body(const Operator& op, unsigned M) {
    for (unsigned long k = 0; k < (1ul << M); ++k) {
        FockState ket(M, k);
        bool first = true;
        for (unsigned long b = 0; b < (1ul << M); ++b) {
            MelemType v = op.getMatrixElement(FockState(M, b), ket);
            if (v == MelemType(0)) continue;
            if (first) printf(" %lu:", k);
            printf("%s%lu=%s", first ? "" : ",", b, pv::hexd(std::real(ComplexType(v))).c_str());
            first = false;
        }
    }
}
// the vector form getMatrixElement(bra, ket, states) with unit vectors over a list of basis states given in ANY order (ascending,
// descending, scrambled, a scrambled subset): <e_i| op |e_j> must be getMatrixElement(states[i], states[j]).  Prints the number of
// (ordering, i, j) that differ and the first of them.
static void print_gmevec(const char* tag, const Operator& op, unsigned M) {
    unsigned long n = 1ul << M;
    long bad = 0, total = 0; char first[200]; first[0] = 0;
    for (int ordering = 0; ordering < 4; ++ordering) {
        std::vector<FockState> states;
        unsigned long cnt = std::min(n, 16ul);
        for (unsigned long k = 0; k < cnt; ++k) {
            unsigned long v = ordering == 0 ? k : ordering == 1 ? (cnt - 1 - k) : ordering == 2 ? ((k * 5 + 3) % cnt) : ((k * 7 + 1) % n);
            if (ordering == 3 && k >= (cnt + 1) / 2) break;      // a scrambled subset of the space
            states.push_back(FockState(M, v));
        }
        int d = int(states.size());
        for (int i = 0; i < d; ++i) for (int j = 0; j < d; ++j) {
            VectorType bra = VectorType::Zero(d), ket = VectorType::Zero(d);
            bra(i) = 1.0; ket(j) = 1.0;
            MelemType v = op.getMatrixElement(bra, ket, states), w = op.getMatrixElement(states[i], states[j]);
            ++total;
            if (v != w) {
                if (!bad) snprintf(first, sizeof first, "ordering=%s bra=%lu ket=%lu vector-form=%s pair-form=%s",
                                   ordering == 0 ? "ascending" : ordering == 1 ? "descending" : ordering == 2 ? "scrambled" : "scrambled-subset",
                                   states[i].to_ulong(), states[j].to_ulong(), pv::hexd(std::real(ComplexType(v))).c_str(), pv::hexd(std::real(ComplexType(w))).c_str());
                ++bad;
            }
        }
    }
    printf("GMEVEC %s %ld %ld %s\n", tag, total, bad, bad ? first : "-");
}
static void print_gme(const char* tag, const Operator& op, unsigned M) { printf("%s", tag); print_gme_body(op, M); printf("\n"); }
static void print_alias(const char* name, const Operator& op, unsigned M) {
    printf("ALIAS %s", name); print_mat(" MAT", op, M);   // print_mat ends the line
    printf("ALIASGME %s", name); print_gme_body(op, M); printf("\n");
}
static size_t max_len(const Operator& op) { size_t l = 0; for (Operator::const_iterator it = op.begin(); it != op.end(); ++it) l = std::max(l, it->first.size()); return l; }
static size_t n_terms(const Operator& op) { size_t n = 0; for (Operator::const_iterator it = op.begin(); it != op.end(); ++it) ++n; return n; }

// in-place expressions with the object itself on the right-hand side
static void alias_battery(const Operator& A, unsigned M) {
    const size_t BIG = 4000;    // cap on the number of monomial products of the longer chains
    { Operator S = A; S *= S; print_alias("S*=S", S, M); }
    { Operator S = A; S += S; print_alias("S+=S", S, M); }
    { Operator S = A; Operator T = A; S *= T; print_alias("S*=T", S, M); }
    { Operator S = A; S = S * S; print_alias("S=S*S", S, M); }
    { Operator S = A; S = S + S; print_alias("S=S+S", S, M); }
    { Operator S = A; S = S - S; print_alias("S=S-S", S, M); }
    { Operator S = A; Operator& R = S; S = R; print_alias("S=S", S, M); }
    { Operator S = A; S += S; S *= S; print_alias("S+=S;S*=S", S, M); }
    { Operator S = A; S *= S; S += S; print_alias("S*=S;S+=S", S, M); }
    { Operator S = A; Operator T = A; S *= S; S -= T; print_alias("S*=S;S-=T", S, M); }
    { Operator S = A; print_alias("comm(S,S)", S.getCommutator(S), M); print_alias("acomm(S,S)", S.getAntiCommutator(S), M);
      printf("ALIASFLAGS %d %d\n", int(S == S), int(S.commutes(S))); }
    Operator A2 = A * A;
    if (n_terms(A2) * n_terms(A) <= BIG && 3 * max_len(A) <= 18) {
        { Operator S = A; S *= S * S; print_alias("S*=S*S", S, M); }
        { Operator S = A; S += S * S; print_alias("S+=S*S", S, M); }
        { Operator S = A; S -= S * S; print_alias("S-=S*S", S, M); }
    }
    if (n_terms(A2) * n_terms(A2) <= BIG && 4 * max_len(A) <= 16) { Operator S = A; S *= S; S *= S; print_alias("S*=S;S*=S", S, M); }
    if (A.begin() != A.end()) {
        { Operator S = A; S *= S.begin()->second; print_alias("S*=coef", S, M); }
        { Operator S = A; S += S.begin()->second; print_alias("S+=coef", S, M); }
        { Operator S = A; S -= S.begin()->second; print_alias("S-=coef", S, M); }
    }
}

int main(int argc, char* argv[]) {
    boost::mpi::environment env(argc, argv);
    pv::Quiet quiet;
    bool alias_sub = argc > 1 && std::string(argv[1]) == "alias-sub";
    std::string line;
    while (std::getline(std::cin, line)) {
        size_t p1 = line.find(';'), p2 = line.find(';', p1 + 1);
        if (p1 == std::string::npos || p2 == std::string::npos) continue;
        unsigned M = atoi(line.substr(0, p1).c_str());
        Operator A, B;
        std::vector<Special> sp, spB;
        std::string ea = eval_rpn(line.substr(p1 + 1, p2 - p1 - 1), A, sp);
        std::string eb = eval_rpn(line.substr(p2 + 1), B, spB);
        if (!ea.empty() || !eb.empty()) { printf("ERR %s %s\nEND\n", ea.c_str(), eb.c_str()); fflush(stdout); continue; }
        if (alias_sub) {
            printf("BEGIN\n"); fflush(stdout);
            Operator S = A; S -= S;
            print_mat("ALIASSUB MAT", S, M); print_gme("ALIASSUBGME", S, M);
            { Operator T = A; T *= T; T -= T; print_mat("ALIASSUB2 MAT", T, M); }
            printf("END\n"); fflush(stdout);
            continue;
        }
        print_poly("A", A);
        print_poly("B", B);
        Operator AB = A * B;
        print_poly("MUL", AB);
        print_poly("ADD", A + B);
        print_poly("SUB", A - B);
        print_poly("COMM", A.getCommutator(B));
        print_poly("ACOMM", A.getAntiCommutator(B));
        printf("EQ %d\n", int(A == B));
        printf("COMMUTES %d\n", int(A.commutes(B)));
        print_mat("MATA", A, M);
        print_mat("MATB", B, M);
        print_mat("MATMUL", AB, M);
        // specialised N / Sz objects created while evaluating A: shortcut vs generic polynomial on every ket
        for (size_t i = 0; i < sp.size(); ++i) {
            printf("SPECIAL %d", sp[i].kind);
            for (unsigned long k = 0; k < (1ul << M); ++k) {
                FockState ket(M, k);
                MelemType fast, slow;
                if (sp[i].kind == 1) { OperatorPresets::N n(sp[i].M); fast = n.getMatrixElement(ket, ket); slow = Operator(n).getMatrixElement(ket, ket); }
                else if (sp[i].kind == 2) { OperatorPresets::Sz z(sp[i].M, sp[i].ups); fast = z.getMatrixElement(ket, ket); slow = Operator(z).getMatrixElement(ket, ket); }
                else { OperatorPresets::Sz z(sp[i].ups, sp[i].downs); fast = z.getMatrixElement(ket, ket); slow = Operator(z).getMatrixElement(ket, ket); }
                printf(" %lu:%s|%s", k, pv::hexd(std::real(ComplexType(fast))).c_str(), pv::hexd(std::real(ComplexType(slow))).c_str());
            }
            printf("\n");
        }
        // ---- second reading path, remaining matrices, aliased in-place expressions ----
        {
            Operator ADD = A + B, SUB = A - B, COMM = A.getCommutator(B), ACOMM = A.getAntiCommutator(B);
            print_mat("MATADD", ADD, M); print_mat("MATSUB", SUB, M); print_mat("MATCOMM", COMM, M); print_mat("MATACOMM", ACOMM, M);
            print_gme("GMEA", A, M); print_gme("GMEB", B, M); print_gme("GMEMUL", AB, M);
            print_gme("GMEADD", ADD, M); print_gme("GMESUB", SUB, M); print_gme("GMECOMM", COMM, M); print_gme("GMEACOMM", ACOMM, M);
            print_gmevec("A", A, M); print_gmevec("A*B", AB, M);
        }
        for (size_t i = 0; i < sp.size(); ++i) {
            printf("SPECDIAG %d", sp[i].kind);
            OperatorPresets::N n(sp[i].kind == 1 ? sp[i].M : 1);
            std::unique_ptr<OperatorPresets::Sz> zp;
            if (sp[i].kind == 2) zp.reset(new OperatorPresets::Sz(sp[i].M, sp[i].ups));
            if (sp[i].kind == 3) zp.reset(new OperatorPresets::Sz(sp[i].ups, sp[i].downs));
            for (unsigned long k = 0; k < (1ul << M); ++k) {
                FockState ket(M, k);
                MelemType one; std::map<FockState, MelemType> img; unsigned long nz = 0;
                if (sp[i].kind == 1) { one = n.getMatrixElement(ket); img = n.actRight(ket); }
                else { one = zp->getMatrixElement(ket); img = zp->actRight(ket); }
                for (unsigned long b = 0; b < (1ul << M); ++b) if (b != k) {
                    MelemType v = sp[i].kind == 1 ? n.getMatrixElement(FockState(M, b), ket) : zp->getMatrixElement(FockState(M, b), ket);
                    if (v != MelemType(0)) ++nz;
                }
                // the image must be (at most) the ket itself
                MelemType dg = 0; unsigned long other = 0;
                for (std::map<FockState, MelemType>::const_iterator it = img.begin(); it != img.end(); ++it) { if (it->first == ket) dg = it->second; else if (it->second != MelemType(0)) ++other; }
                printf(" %lu:%s|%s|%lu", k, pv::hexd(std::real(ComplexType(one))).c_str(), pv::hexd(std::real(ComplexType(dg))).c_str(), nz + other);
            }
            printf("\n");
        }
        alias_battery(A, M);
        printf("END\n"); fflush(stdout);
    }
    return 0;
}
