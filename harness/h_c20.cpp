// C20 harness: interprets histories of Lattice / LatticePresets / Lattice::Term::Presets calls on the real
// library and prints, for every call, a canonical block:
//
//   == <id>                      start of a history (input line: history <id>)
//   @ <outcome>                  ok | exWrongLabel | exWrongIndices | other:<what> | site <orb> <spins> |
//                                terms <n> <k> | maxorder <n> | copy same|DIFFERENT | dump | origs <k> |
//                                UB-skipped | returned-for-unknown | unknown-command
//    + <term>                    a term appended to the storage by this call (orders ascending, insertion order)
//    ! nonappend                 the storage changed other than by appending (followed by a full dump)
//    s <label> <orb> <spins>     a site-map entry that is new or changed (s <label> removed)
//    m <n>                       MaxTermOrder changed to n
//    S/M/T lines                 full dumps: sites sorted by label, MaxTermOrder, terms by ascending order
//    O <i> unchanged|CHANGED     (origs) lattices that were copied from, compared with their dump at copy time
//
//   <term> = <N> <ops> <labels> <orbitals> <spins> <value as hex float>      ("-" for an empty list)
//
// Commands: the lattice lines of ed_common.h (site, addCoulombS, addCoulombP, addCoulombP3, addLevel,
// addMagnetization, addSzSz, addSS, addHopping8/7/6/4, term) plus
//   tHopping7 l1 l2 v o1 o2 s1 s2 | tHopping5 l1 l2 v o s | tLevel4 l v o s | tNupNdown7 l1 l2 v o1 o2 s1 s2 |
//   tNupNdown6 l v o1 o2 s1 s2 | tNupNdown4 l v o1 o2 | tNupNdown5 l v o s1 s2 | tNupNdown3 l v o |
//   tSpinflip6 l v o1 o2 s1 s2 | tSpinflip4 l v o1 o2 | tPairHopping6 .. | tPairHopping4 .. |
//   tSplusSminus4 l1 l2 v o | tSminusSplus4 l1 l2 v o          -- L.addTerm(Lattice::Term::Presets::F(...))
//   getSite <label> | getTerms <n> | maxOrder | copy | dump | origs
//
// getSite for a label that is NOT in the site map is undefined behaviour in a library whose getSite has the
// inverted condition (it dereferences end()).  The harness finds out which library it is linked against by
// calling getSite for a KNOWN label on a private lattice; if that throws, calls for unknown labels are not
// made and are reported as UB-skipped -- unless --force-ub is given (sanitizer build, thorough tier).
#include "ed_common.h"
#include <map>
#include <cstring>

using namespace Pomerol;
typedef Lattice::Term::Presets TP;

static std::string join_us(const std::vector<unsigned short>& v) {
    if (v.empty()) return "-";
    std::ostringstream s;
    for (size_t i = 0; i < v.size(); ++i) { if (i) s << ","; s << v[i]; }
    return s.str();
}
static std::string ser_term(const Lattice::Term& T) {
    std::ostringstream s;
    s << T.getOrder() << " ";
    if (T.OperatorSequence.empty()) s << "-";
    for (size_t i = 0; i < T.OperatorSequence.size(); ++i) s << (T.OperatorSequence[i] ? "1" : "0");
    s << " ";
    if (T.SiteLabels.empty()) s << "-";
    for (size_t i = 0; i < T.SiteLabels.size(); ++i) { if (i) s << ","; s << T.SiteLabels[i]; }
    s << " " << join_us(T.Orbitals) << " " << join_us(T.Spins) << " ";
#ifdef POMEROL_COMPLEX_MATRIX_ELEMENTS
    s << pv::hexd(T.Value.real()) << "," << pv::hexd(T.Value.imag());
#else
    s << pv::hexd(T.Value);
#endif
    return s.str();
}

struct Snap {
    std::map<std::string, std::pair<int, int> > sites;
    std::map<unsigned int, std::vector<std::string> > terms;
    unsigned int maxorder;
    bool operator==(const Snap& o) const { return sites == o.sites && terms == o.terms && maxorder == o.maxorder; }
};
static Snap snap(const Lattice& L) {
    Snap s;
    for (Lattice::SiteMap::const_iterator it = L.Sites.begin(); it != L.Sites.end(); ++it)
        s.sites[it->first] = std::make_pair((int)it->second->OrbitalSize, (int)it->second->SpinSize);
    const Lattice::TermStorage& ts = L.getTermStorage();
    for (std::map<unsigned int, Lattice::TermList>::const_iterator it = ts.Terms.begin(); it != ts.Terms.end(); ++it) {
        std::vector<std::string>& v = s.terms[it->first];
        for (Lattice::TermList::const_iterator t = it->second.begin(); t != it->second.end(); ++t) v.push_back(ser_term(**t));
    }
    s.maxorder = ts.getMaxTermOrder();
    return s;
}
static void print_dump(const Snap& s) {
    for (std::map<std::string, std::pair<int, int> >::const_iterator it = s.sites.begin(); it != s.sites.end(); ++it)
        printf(" S %s %d %d\n", it->first.c_str(), it->second.first, it->second.second);
    printf(" M %u\n", s.maxorder);
    for (std::map<unsigned int, std::vector<std::string> >::const_iterator it = s.terms.begin(); it != s.terms.end(); ++it)
        for (size_t i = 0; i < it->second.size(); ++i) printf(" T %s\n", it->second[i].c_str());
}
static void print_delta(const Snap& a, const Snap& b) {
    bool nonappend = false;
    for (std::map<unsigned int, std::vector<std::string> >::const_iterator it = a.terms.begin(); it != a.terms.end(); ++it) {
        std::map<unsigned int, std::vector<std::string> >::const_iterator jt = b.terms.find(it->first);
        if (jt == b.terms.end() || jt->second.size() < it->second.size()) { nonappend = true; continue; }
        for (size_t i = 0; i < it->second.size(); ++i) if (it->second[i] != jt->second[i]) nonappend = true;
    }
    if (nonappend) { printf(" ! nonappend\n"); print_dump(b); return; }
    for (std::map<unsigned int, std::vector<std::string> >::const_iterator jt = b.terms.begin(); jt != b.terms.end(); ++jt) {
        std::map<unsigned int, std::vector<std::string> >::const_iterator it = a.terms.find(jt->first);
        size_t from = (it == a.terms.end()) ? 0 : it->second.size();
        for (size_t i = from; i < jt->second.size(); ++i) printf(" + %s\n", jt->second[i].c_str());
    }
    for (std::map<std::string, std::pair<int, int> >::const_iterator it = b.sites.begin(); it != b.sites.end(); ++it) {
        std::map<std::string, std::pair<int, int> >::const_iterator jt = a.sites.find(it->first);
        if (jt == a.sites.end() || jt->second != it->second) printf(" s %s %d %d\n", it->first.c_str(), it->second.first, it->second.second);
    }
    for (std::map<std::string, std::pair<int, int> >::const_iterator it = a.sites.begin(); it != a.sites.end(); ++it)
        if (!b.sites.count(it->first)) printf(" s %s removed\n", it->first.c_str());
    if (a.maxorder != b.maxorder) printf(" m %u\n", b.maxorder);
}

static unsigned short us(const std::string& s) { return (unsigned short)atoi(s.c_str()); }

// L.addTerm(Lattice::Term::Presets::F(...)); returns "" if the command is not a factory command
static std::string apply_factory(Lattice& L, const std::vector<std::string>& t) {
    const std::string& c = t[0];
    try {
        Lattice::Term* T = 0;
        if (c == "tHopping7") T = TP::Hopping(t[1], t[2], pv::parse_melem(t[3]), us(t[4]), us(t[5]), us(t[6]), us(t[7]));
        else if (c == "tHopping5") T = TP::Hopping(t[1], t[2], pv::parse_melem(t[3]), us(t[4]), us(t[5]));
        else if (c == "tLevel4") T = TP::Level(t[1], pv::parse_melem(t[2]), us(t[3]), us(t[4]));
        else if (c == "tNupNdown7") T = TP::NupNdown(t[1], t[2], pv::parse_melem(t[3]), us(t[4]), us(t[5]), us(t[6]), us(t[7]));
        else if (c == "tNupNdown6") T = TP::NupNdown(t[1], pv::parse_melem(t[2]), us(t[3]), us(t[4]), us(t[5]), us(t[6]));
        else if (c == "tNupNdown4") {
            // (Label, Value, orbital1, orbital2): a plain 4-argument call is ambiguous with the defaulted overload
            typedef Lattice::Term* (*F4)(const std::string&, MelemType, unsigned short, unsigned short);
            F4 f = static_cast<F4>(&TP::NupNdown);
            T = f(t[1], pv::parse_melem(t[2]), us(t[3]), us(t[4]));
        }
        else if (c == "tNupNdown5") T = TP::NupNdown(t[1], pv::parse_melem(t[2]), us(t[3]), us(t[4]), us(t[5]));
        else if (c == "tNupNdown3") T = TP::NupNdown(t[1], pv::parse_melem(t[2]), us(t[3]));
        else if (c == "tSpinflip6") T = TP::Spinflip(t[1], pv::parse_melem(t[2]), us(t[3]), us(t[4]), us(t[5]), us(t[6]));
        else if (c == "tSpinflip4") T = TP::Spinflip(t[1], pv::parse_melem(t[2]), us(t[3]), us(t[4]));
        else if (c == "tPairHopping6") T = TP::PairHopping(t[1], pv::parse_melem(t[2]), us(t[3]), us(t[4]), us(t[5]), us(t[6]));
        else if (c == "tPairHopping4") T = TP::PairHopping(t[1], pv::parse_melem(t[2]), us(t[3]), us(t[4]));
        else if (c == "tSplusSminus4") T = TP::SplusSminus(t[1], t[2], pv::parse_melem(t[3]), us(t[4]));
        else if (c == "tSminusSplus4") T = TP::SminusSplus(t[1], t[2], pv::parse_melem(t[3]), us(t[4]));
        else return "";
        L.addTerm(T);
    } catch (Lattice::exWrongLabel&) { return "exWrongLabel";
    } catch (Lattice::Term::Presets::exWrongIndices&) { return "exWrongIndices";
    } catch (std::exception& e) { return std::string("other:") + e.what(); }
    return "ok";
}

int main(int argc, char** argv) {
    bool force_ub = false;
    for (int i = 1; i < argc; ++i) if (!strcmp(argv[i], "--force-ub")) force_ub = true;
    pv::Quiet quiet;
    // which getSite is this?  (known label on a private lattice: defined behaviour in every variant)
    bool known_ok = true;
    {
        Lattice P;
        P.addSite("p", 1, 1);
        try { P.getSite("p"); } catch (...) { known_ok = false; }
    }
    Lattice* L = new Lattice;
    std::vector<Lattice*> origs;
    std::vector<Snap> orig_snaps;
    std::string line;
    while (std::getline(std::cin, line)) {
        std::istringstream ss(line);
        std::vector<std::string> t;
        std::string w;
        while (ss >> w) t.push_back(w);
        if (t.empty() || t[0][0] == '#') continue;
        const std::string& c = t[0];
        if (c == "history") {
            L = new Lattice; origs.clear(); orig_snaps.clear();
            printf("== %s\n", t.size() > 1 ? t[1].c_str() : "");
            continue;
        }
        if (c == "getSite") {
            bool known = L->Sites.count(t[1]) > 0;
            if (!known && !known_ok && !force_ub) { printf("@ UB-skipped\n"); continue; }
            try {
                const Lattice::Site& S = L->getSite(t[1]);
                if (!known) { printf("@ returned-for-unknown\n"); continue; }
                printf("@ site %d %d%s\n", (int)S.OrbitalSize, (int)S.SpinSize, S.Label == t[1] ? "" : " WRONG-LABEL");
            } catch (Lattice::exWrongLabel&) { printf("@ exWrongLabel\n");
            } catch (Lattice::Term::Presets::exWrongIndices&) { printf("@ exWrongIndices\n");
            } catch (std::exception& e) { printf("@ other:%s\n", e.what()); }
            continue;
        }
        if (c == "getTerms") {
            unsigned int n = (unsigned int)atoi(t[1].c_str());
            const Lattice::TermList& tl = L->getTermStorage().getTerms(n);
            printf("@ terms %u %u\n", n, (unsigned)tl.size());
            for (Lattice::TermList::const_iterator it = tl.begin(); it != tl.end(); ++it) printf(" T %s\n", ser_term(**it).c_str());
            continue;
        }
        if (c == "maxOrder") { printf("@ maxorder %u\n", L->getTermStorage().getMaxTermOrder()); continue; }
        if (c == "dump") { printf("@ dump\n"); print_dump(snap(*L)); continue; }
        if (c == "copy") {
            Snap before = snap(*L);
            Lattice* C = new Lattice(*L);
            Snap sc = snap(*C);
            printf("@ copy %s\n", (sc == before) ? "same" : "DIFFERENT");
            print_dump(sc);
            origs.push_back(L); orig_snaps.push_back(before);
            L = C;
            continue;
        }
        if (c == "origs") {
            printf("@ origs %u\n", (unsigned)origs.size());
            for (size_t i = 0; i < origs.size(); ++i)
                printf(" O %u %s\n", (unsigned)i, (snap(*origs[i]) == orig_snaps[i]) ? "unchanged" : "CHANGED");
            continue;
        }
        // calls that may change the lattice
        Snap before = snap(*L);
        std::string r = apply_factory(*L, t);
        if (r.empty()) r = pv::apply_lattice_line(*L, t);
        if (r.compare(0, 10, "exception:") == 0) r = "other:" + r.substr(10);
        printf("@ %s\n", r.c_str());
        if (r != "unknown-command") print_delta(before, snap(*L));
    }
    fflush(stdout);
    return 0;
}
