// C18 harness: IndexClassification on lattice descriptions.  No MPI is needed (nothing here communicates).
//
// One case per input line:
//   case <id> <order_spins 0|1> <nsites> { <label> <orbitals> <spins> }*nsites <nqueries> { <label> <orbital> <spin> }*nqueries
// labels are written as 'x' followed by the bytes in hex ("x" alone = empty label, "x4162" = "Ab"), so that any
// byte string can be a label.  The sites are added with Lattice::addSite in the order given.
//
// Output, one "R" line and one "H" line per case:
//   R <id> sites=<label:orb:spin,...>   the site map in iteration order
//          size=<IndexSize>
//          vec=<entry,...>              IndicesToInfo read directly (harness TUs are compiled with -fno-access-control):
//                                       label:orbital:spin, or NULL for a null pointer (never dereferenced)
//          prepare=<ok|SEGV>            SEGV: prepare() raised SIGSEGV (the null dereference at IndexClassification.cpp:72);
//                                       the signal is caught, the vector is still inspected, the lookups are skipped
//          info=<entry,...>             getInfo(i) for i < IndexSize through the public interface (NULL entries are not asked for)
//          thr=<a><b>                   getInfo(IndexSize), getInfo(IndexSize+1): T = exWrongIndex thrown, N = returned
//          idx=<n,...>                  getIndex for every valid triple: sites in map order, orbitals, spins (spin fastest)
//          q=<n,...>                    getIndex for the query triples of the input line (mostly invalid ones)
//          chk=<bits>                   checkIndex(0..IndexSize+1)
//   H <id> <label>=<hash> ...          boost::hash of every label that occurs (as stored in IndexInfo::SiteLabelHash)
// Re-prepare histories (a repeated prepare() "starts from scratch" since 1fd1f00):
//   hist <id> <modes,modes,...> <nsites> { <label> <orbitals> <spins> }*nsites <nqueries> { <label> <orbital> <spin> }*nqueries
// every <modes> is a string over {0,1}; for each one a fresh IndexClassification is constructed on the lattice and
// prepare(m) is called once per character ON THAT SAME OBJECT; after every call one line
//   S <id>:<modes>:<k> <the fields of an R line>      k = position of the call in the history (0-based)
// describes the object as it is then.  A call that raises SIGSEGV ends its history ("S <id> DIED ..." if the child dies).
// Every case runs in a forked child, so whatever a defective prepare() does to the heap cannot affect later cases;
// a child that dies anyway is reported as "R <id> DIED <status>".
#include <pomerol.h>
#include <csetjmp>
#include <csignal>
#include <cstdio>
#include <cstdlib>
#include <iostream>
#include <sstream>
#include <string>
#include <vector>
#include <set>
#include <sys/wait.h>
#include <unistd.h>
using namespace Pomerol;

static sigjmp_buf jb;
static void on_segv(int) { siglongjmp(jb, 1); }

static std::string enc(const std::string& s) {
    static const char* d = "0123456789abcdef";
    std::string r = "x";
    for (size_t i = 0; i < s.size(); ++i) { unsigned char c = (unsigned char)s[i]; r += d[c >> 4]; r += d[c & 15]; }
    return r;
}
static int hv(char c) { return (c >= '0' && c <= '9') ? c - '0' : (c >= 'a' && c <= 'f') ? c - 'a' + 10 : c - 'A' + 10; }
static std::string dec(const std::string& t) {
    std::string r;
    for (size_t i = 1; i + 1 < t.size(); i += 2) r += (char)(hv(t[i]) * 16 + hv(t[i + 1]));
    return r;
}
static std::string entry(const std::string& l, unsigned o, unsigned s) {
    std::ostringstream os; os << enc(l) << ":" << o << ":" << s; return os.str();
}

struct Input {
    std::string id, modes;
    Lattice L;
    std::set<std::string> all_labels;
    std::vector<std::string> ql; std::vector<int> qo, qs;
};

// reads { <label> <orbitals> <spins> }*nsites <nqueries> { <label> <orbital> <spin> }*nqueries starting at t[p] (t[p] = nsites)
static void read_lattice(const std::vector<std::string>& t, size_t p, Input& in) {
    int ns = atoi(t[p++].c_str());
    for (int k = 0; k < ns; ++k) {
        std::string l = dec(t[p]); int orb = atoi(t[p + 1].c_str()), spin = atoi(t[p + 2].c_str()); p += 3;
        in.L.addSite(new Lattice::Site(l, orb, spin));
        in.all_labels.insert(l);
    }
    int nq = atoi(t[p++].c_str());
    for (int k = 0; k < nq; ++k) {
        in.ql.push_back(dec(t[p])); in.qo.push_back(atoi(t[p + 1].c_str())); in.qs.push_back(atoi(t[p + 2].c_str())); p += 3;
        in.all_labels.insert(in.ql.back());
    }
}

static std::string sites_field(const Lattice::SiteMap& SM) {
    std::ostringstream out;
    out << "sites=";
    for (Lattice::SiteMap::const_iterator it = SM.begin(); it != SM.end(); ++it)
        out << (it == SM.begin() ? "" : ",") << entry(it->first, it->second->OrbitalSize, it->second->SpinSize);
    return out.str();
}

// IC.prepare(order_spins) with SIGSEGV / SIGBUS caught; returns true when the call crashed
static bool guarded_prepare(IndexClassification& IC, bool order_spins) {
    volatile bool crashed = false;
    struct sigaction sa, old_segv, old_bus;
    sa.sa_handler = on_segv; sigemptyset(&sa.sa_mask); sa.sa_flags = 0;
    sigaction(SIGSEGV, &sa, &old_segv); sigaction(SIGBUS, &sa, &old_bus);
    if (sigsetjmp(jb, 1) == 0) IC.prepare(order_spins); else crashed = true;
    sigaction(SIGSEGV, &old_segv, 0); sigaction(SIGBUS, &old_bus, 0);
    return crashed;
}

// the fields size= ... chk= of an R line: the state of IC as it is now (after the last prepare call)
static std::string state_fields(IndexClassification& IC, const Lattice::SiteMap& SM, const Input& in, bool crashed) {
    std::ostringstream out;
    ParticleIndex N = IC.IndexSize;
    out << " size=" << N << " vec=";
    for (size_t i = 0; i < IC.IndicesToInfo.size(); ++i) {
        IndexClassification::IndexInfo* ptr = IC.IndicesToInfo[i];
        out << (i ? "," : "");
        if (!ptr) out << "NULL";
        else out << entry(ptr->SiteLabel, ptr->Orbital, ptr->Spin);
    }
    out << " prepare=" << (crashed ? "SEGV" : "ok");
    if (!crashed) {
        out << " info=";
        for (ParticleIndex i = 0; i < N; ++i) {
            out << (i ? "," : "");
            if (i < IC.IndicesToInfo.size() && IC.IndicesToInfo[i]) {
                IndexClassification::IndexInfo x = IC.getInfo(i);
                out << entry(x.SiteLabel, x.Orbital, x.Spin);
            } else out << "NULL";
        }
        out << " thr=";
        for (ParticleIndex i = N; i < N + 2; ++i) {
            // an entry beyond IndexSize must make getInfo throw before it touches the vector
            try { IC.getInfo(i); out << "N"; } catch (IndexClassification::exWrongIndex&) { out << "T"; }
        }
        out << " idx=";
        bool first = true;
        for (Lattice::SiteMap::const_iterator it = SM.begin(); it != SM.end(); ++it)
            for (unsigned o = 0; o < it->second->OrbitalSize; ++o)
                for (unsigned s = 0; s < it->second->SpinSize; ++s) {
                    out << (first ? "" : ",") << IC.getIndex(it->first, o, s); first = false;
                }
        out << " q=";
        for (size_t k = 0; k < in.ql.size(); ++k) out << (k ? "," : "") << IC.getIndex(in.ql[k], in.qo[k], in.qs[k]);
        out << " chk=";
        for (ParticleIndex i = 0; i < N + 2; ++i) out << (IC.checkIndex(i) ? "1" : "0");
    }
    return out.str();
}

static void run_case(const std::vector<std::string>& t) {
    Input in;
    in.id = t[1];
    bool order_spins = atoi(t[2].c_str()) != 0;
    read_lattice(t, 3, in);
    const Lattice::SiteMap& SM = in.L.getSiteMap();
    std::ostringstream out;
    out << "R " << in.id << " " << sites_field(SM);

    IndexClassification IC(SM);
    bool crashed = guarded_prepare(IC, order_spins);
    std::string original = state_fields(IC, SM, in, crashed);
    out << original;
    // K <id> <same|DIFFERS|skipped>: a copy of the prepared object (pass by value, a member of a user's class) must answer every
    // query as the object it was copied from
    out << "\nK " << in.id << " ";
    if (crashed) out << "skipped";
    else {
        IndexClassification CP(IC);
        out << (state_fields(CP, SM, in, false) == original ? "same" : "DIFFERS");
    }

    out << "\nH " << in.id;
    for (std::set<std::string>::const_iterator it = in.all_labels.begin(); it != in.all_labels.end(); ++it) {
        IndexClassification::IndexInfo x(*it, 0, 0);
        out << " " << enc(*it) << "=" << x.SiteLabelHash;
    }
    out << "\n";
    fputs(out.str().c_str(), stdout);
    fflush(stdout);
}

// hist <id> <modes,modes,...> <nsites> ... : for every mode string (e.g. 011) a fresh IndexClassification on the lattice,
// prepare(m) called once per character on that SAME object, the state dumped after every call.
static void run_hist(const std::vector<std::string>& t) {
    Input in;
    in.id = t[1];
    std::vector<std::string> hs;
    { std::istringstream ss(t[2]); std::string h; while (std::getline(ss, h, ',')) if (!h.empty()) hs.push_back(h); }
    read_lattice(t, 3, in);
    const Lattice::SiteMap& SM = in.L.getSiteMap();
    std::string sf = sites_field(SM);
    for (size_t h = 0; h < hs.size(); ++h) {
        IndexClassification IC(SM);
        for (size_t k = 0; k < hs[h].size(); ++k) {
            bool crashed = guarded_prepare(IC, hs[h][k] != '0');
            std::ostringstream out;
            out << "S " << in.id << ":" << hs[h] << ":" << k << " " << sf << state_fields(IC, SM, in, crashed) << "\n";
            fputs(out.str().c_str(), stdout);
            fflush(stdout);
            if (crashed) break;          // the object is in an unknown state: the rest of this history is not run
        }
    }
}

int main() {
    std::string line;
    while (std::getline(std::cin, line)) {
        std::istringstream ss(line);
        std::vector<std::string> t; std::string w;
        while (ss >> w) t.push_back(w);
        if (t.empty() || (t[0] != "case" && t[0] != "hist")) continue;
        fflush(stdout);
        pid_t pid = fork();
        if (pid == 0) { if (t[0] == "case") run_case(t); else run_hist(t); _exit(0); }
        int status = 0;
        waitpid(pid, &status, 0);
        if (!(WIFEXITED(status) && WEXITSTATUS(status) == 0)) {
            printf("%s %s DIED %d\n", t[0] == "case" ? "R" : "S", t[1].c_str(), WIFSIGNALED(status) ? 1000 + WTERMSIG(status) : WEXITSTATUS(status));
            fflush(stdout);
        }
    }
    return 0;
}
