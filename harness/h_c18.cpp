// C18 harness: IndexClassification on lattice descriptions.  No MPI is needed (nothing here communicates).
//
// One case per input line:
//   case <id> <order_spins 0|1> <nsites> { <label> <orbitals> <spins> }*nsites <nqueries> { <label> <orbital> <spin> }*nqueries
// labels are written as 'x' followed by the bytes in hex ("x" alone = empty label, "x4162" = "Ab"), so that any
// byte string can be a label.  The sites are added with Lattice::addSite in the order given.
//
// Output, one "R" line and one "H" line per case:
//   R <id> sites=<label:orb:spin,...>   the site map in iteration order
//          size=<IndexSize>
//          vec=<entry,...>              IndicesToInfo read directly (harness TUs are compiled with -fno-access-control):
//                                       label:orbital:spin, or NULL for a null pointer (never dereferenced)
//          prepare=<ok|SEGV>            SEGV: prepare() raised SIGSEGV (the null dereference at IndexClassification.cpp:72);
//                                       the signal is caught, the vector is still inspected, the lookups are skipped
//          info=<entry,...>             getInfo(i) for i < IndexSize through the public interface (NULL entries are not asked for)
//          thr=<a><b>                   getInfo(IndexSize), getInfo(IndexSize+1): T = exWrongIndex thrown, N = returned
//          idx=<n,...>                  getIndex for every valid triple: sites in map order, orbitals, spins (spin fastest)
//          q=<n,...>                    getIndex for the query triples of the input line (mostly invalid ones)
//          chk=<bits>                   checkIndex(0..IndexSize+1)
//   H <id> <label>=<hash> ...          boost::hash of every label that occurs (as stored in IndexInfo::SiteLabelHash)
// Every case runs in a forked child, so whatever a defective prepare() does to the heap cannot affect later cases;
// a child that dies anyway is reported as "R <id> DIED <status>".
#include <pomerol.h>
#include <csetjmp>
#include <csignal>
#include <cstdio>
#include <cstdlib>
#include <iostream>
#include <sstream>
#include <string>
#include <vector>
#include <set>
#include <sys/wait.h>
#include <unistd.h>
using namespace Pomerol;

static sigjmp_buf jb;
static void on_segv(int) { siglongjmp(jb, 1); }

static std::string enc(const std::string& s) {
    static const char* d = "0123456789abcdef";
    std::string r = "x";
    for (size_t i = 0; i < s.size(); ++i) { unsigned char c = (unsigned char)s[i]; r += d[c >> 4]; r += d[c & 15]; }
    return r;
}
static int hv(char c) { return (c >= '0' && c <= '9') ? c - '0' : (c >= 'a' && c <= 'f') ? c - 'a' + 10 : c - 'A' + 10; }
static std::string dec(const std::string& t) {
    std::string r;
    for (size_t i = 1; i + 1 < t.size(); i += 2) r += (char)(hv(t[i]) * 16 + hv(t[i + 1]));
    return r;
}
static std::string entry(const std::string& l, unsigned o, unsigned s) {
    std::ostringstream os; os << enc(l) << ":" << o << ":" << s; return os.str();
}

static void run_case(const std::vector<std::string>& t) {
    size_t p = 1;
    std::string id = t[p++];
    bool order_spins = atoi(t[p++].c_str()) != 0;
    int ns = atoi(t[p++].c_str());
    Lattice L;
    std::set<std::string> all_labels;
    for (int k = 0; k < ns; ++k) {
        std::string l = dec(t[p]); int orb = atoi(t[p + 1].c_str()), spin = atoi(t[p + 2].c_str()); p += 3;
        L.addSite(new Lattice::Site(l, orb, spin));
        all_labels.insert(l);
    }
    int nq = atoi(t[p++].c_str());
    std::vector<std::string> ql; std::vector<int> qo, qs;
    for (int k = 0; k < nq; ++k) {
        ql.push_back(dec(t[p])); qo.push_back(atoi(t[p + 1].c_str())); qs.push_back(atoi(t[p + 2].c_str())); p += 3;
        all_labels.insert(ql.back());
    }
    const Lattice::SiteMap& SM = L.getSiteMap();
    std::ostringstream out;
    out << "R " << id << " sites=";
    for (Lattice::SiteMap::const_iterator it = SM.begin(); it != SM.end(); ++it)
        out << (it == SM.begin() ? "" : ",") << entry(it->first, it->second->OrbitalSize, it->second->SpinSize);

    IndexClassification IC(SM);
    volatile bool crashed = false;
    struct sigaction sa, old_segv, old_bus;
    sa.sa_handler = on_segv; sigemptyset(&sa.sa_mask); sa.sa_flags = 0;
    sigaction(SIGSEGV, &sa, &old_segv); sigaction(SIGBUS, &sa, &old_bus);
    if (sigsetjmp(jb, 1) == 0) IC.prepare(order_spins); else crashed = true;
    sigaction(SIGSEGV, &old_segv, 0); sigaction(SIGBUS, &old_bus, 0);

    ParticleIndex N = IC.IndexSize;
    out << " size=" << N << " vec=";
    bool has_null = false;
    for (size_t i = 0; i < IC.IndicesToInfo.size(); ++i) {
        IndexClassification::IndexInfo* ptr = IC.IndicesToInfo[i];
        out << (i ? "," : "");
        if (!ptr) { out << "NULL"; has_null = true; }
        else out << entry(ptr->SiteLabel, ptr->Orbital, ptr->Spin);
    }
    out << " prepare=" << (crashed ? "SEGV" : "ok");
    if (!crashed) {
        out << " info=";
        for (ParticleIndex i = 0; i < N; ++i) {
            out << (i ? "," : "");
            if (i < IC.IndicesToInfo.size() && IC.IndicesToInfo[i]) {
                IndexClassification::IndexInfo x = IC.getInfo(i);
                out << entry(x.SiteLabel, x.Orbital, x.Spin);
            } else out << "NULL";
        }
        out << " thr=";
        for (ParticleIndex i = N; i < N + 2; ++i) {
            // an entry beyond IndexSize must make getInfo throw before it touches the vector
            try { IC.getInfo(i); out << "N"; } catch (IndexClassification::exWrongIndex&) { out << "T"; }
        }
        out << " idx=";
        bool first = true;
        for (Lattice::SiteMap::const_iterator it = SM.begin(); it != SM.end(); ++it)
            for (unsigned o = 0; o < it->second->OrbitalSize; ++o)
                for (unsigned s = 0; s < it->second->SpinSize; ++s) {
                    out << (first ? "" : ",") << IC.getIndex(it->first, o, s); first = false;
                }
        out << " q=";
        for (int k = 0; k < nq; ++k) out << (k ? "," : "") << IC.getIndex(ql[k], qo[k], qs[k]);
        out << " chk=";
        for (ParticleIndex i = 0; i < N + 2; ++i) out << (IC.checkIndex(i) ? "1" : "0");
    }
    out << "\nH " << id;
    for (std::set<std::string>::const_iterator it = all_labels.begin(); it != all_labels.end(); ++it) {
        IndexClassification::IndexInfo x(*it, 0, 0);
        out << " " << enc(*it) << "=" << x.SiteLabelHash;
    }
    out << "\n";
    fputs(out.str().c_str(), stdout);
    fflush(stdout);
}

int main() {
    std::string line;
    while (std::getline(std::cin, line)) {
        std::istringstream ss(line);
        std::vector<std::string> t; std::string w;
        while (ss >> w) t.push_back(w);
        if (t.empty() || t[0] != "case") continue;
        fflush(stdout);
        pid_t pid = fork();
        if (pid == 0) { run_case(t); _exit(0); }
        int status = 0;
        waitpid(pid, &status, 0);
        if (!(WIFEXITED(status) && WEXITSTATUS(status) == 0)) {
            printf("R %s DIED %d\n", t[1].c_str(), WIFSIGNALED(status) ? 1000 + WTERMSIG(status) : WEXITSTATUS(status));
            fflush(stdout);
        }
    }
    return 0;
}
