// C07 harness: the symmetry analysis of pomerol on a scenario (syntax: ed_common.h), everything the C07 model predicts.
//
// Input: any number of cases
//     case <id>
//     <scenario lines>            (site / preset / term / order_spins / symm default|ignore|custom / iom ... lines)
//     end
// Output per case (one record per line, floating-point numbers as hex floats "re im"):
//   CASE <id>
//   ERROR <text>                             lattice / index / IndexHamiltonian stage failed (nothing else follows)
//   N <IndexSize>
//   SPINS <spin label of index 0> ...        IndexInfo.getInfo(i).Spin
//   HPOLY <nterms> { <re> <im> <len> { <dag> <idx> } }            the IndexHamiltonian polynomial, map order
//   CAND <k> <kind> <flag> <nterms> {...}    every candidate that compute() would offer, in order: kind = N | Sz | iom;
//                                            flag = checkSymmetry(candidate) on a FRESH Symmetrizer (IndexSize set by hand);
//                                            then the candidate's polynomial as in HPOLY
//   CANDTHROW <k> Sz <exception>             constructing the default S_z candidate threw
//   SYMM ok <NSymmetries> | SYMM throws <exception>      the real Symmetrizer::compute call of the scenario
//   OPER <k> <nterms> {...}                  Symm.getOperations()[k]
//   NBLOCKS <nb>
//   BLOCK <b> <size> <states...>             StatesContainer[b]
//   QN <b> <hash> { <re> <im> }              BlockToQuantum[b]: NumbersHash and the numbers
//   STATE <s> <block> <inner> { <re> <im> }  (or STATE <s> ERR-<exception>) getBlockNumber(s), getInnerState(s), and the quantum numbers of s recomputed
//                                            through Operator::getMatrixElement(s, s) of the accepted operators
//   HASH ok | HASH collision <s> <b>         hash injectivity on the occurring tuples: every state's tuple equals (==) the tuple
//                                            stored for its block, and tuples of different blocks differ
//   ROUNDTRIP ok | ROUNDTRIP fail <s>        getFockState(getBlockNumber(s), getInnerState(s)) == s for all s, and
//                                            getBlockNumber/getInnerState of getFockState(b, m) == (b, m) for all (b, m)
//   OP <kind> <i> <j> P <n> {L R} FR <n> {k v} FL <n> {k v} BM <n> {L R}
//                                            after prepare(): parts (left, right block of part p), mapPartsFromRight,
//                                            mapPartsFromLeft (map order), LeftRightBlocks (left view order);
//                                            kind = cdag | c (j = -1) | quad (c^+_i c_j)
//   MAPSTO <kind> <i> <j> <R>:<L> ...        FieldOperator::mapsTo(R) for every block R (L = -1: ERROR_BLOCK_NUMBER)
//   THROWS <stage> <exception>               an exception escaped from <stage> (states / ops)
//   ENDCASE <id>
// Every case runs in a forked child; a child that dies is reported as  DIED <id> <wait status>.
// Histories:   seq <sid>  { case <id> ... end }  endseq     -- the cases of the sequence are analysed one after the other in ONE
//              forked child (several Symmetrizer / StatesClassification objects in one process); same records per case;
//              a child that dies is reported as  DIED seq<sid> <wait status>  (the cases not reached have no ENDCASE).
#include "ed_common.h"
#include <sys/wait.h>
#include <unistd.h>
using namespace Pomerol;

static std::string exname(std::exception& e) {
    if (dynamic_cast<Operator::exWrongLabel*>(&e)) return "Operator::exWrongLabel";
    if (dynamic_cast<StatesClassification::exWrongState*>(&e)) return "StatesClassification::exWrongState";
    if (dynamic_cast<Lattice::exWrongLabel*>(&e)) return "Lattice::exWrongLabel";
    std::string w = e.what();
    for (size_t i = 0; i < w.size(); ++i) if (w[i] == ' ' || w[i] == '\n') w[i] = '_';
    return "exception:" + w;
}

static void print_poly(const Operator& op) {
    printf(" %ld", long(std::distance(op.begin(), op.end())));
    for (Operator::const_iterator it = op.begin(); it != op.end(); ++it) {
        printf(" %s %ld", pv::hexm(it->second).c_str(), long(it->first.size()));
        for (size_t k = 0; k < it->first.size(); ++k)
            printf(" %d %u", boost::get<0>(it->first[k]) == Operator::creation ? 1 : 0, boost::get<1>(it->first[k]));
    }
}

static void cand(pv::ED& e, int k, const char* kind, const Operator& op) {
    Symmetrizer fresh(*e.Idx, *e.Hidx);
    fresh.IndexSize = e.Idx->getIndexSize();
    bool ok = fresh.checkSymmetry(op);
    printf("CAND %d %s %d", k, kind, int(ok));
    print_poly(op);
    printf("\n");
}

static void dump_fop(const char* kind, int i, int j, FieldOperator& op, const StatesClassification& S) {
    printf("MAPSTO %s %d %d", kind, i, j);
    for (int R = 0; R < int(S.NumberOfBlocks()); ++R) printf(" %d:%d", R, int(op.mapsTo(BlockNumber(R))));
    printf("\n");
    op.prepare();
    printf("OP %s %d %d P %ld", kind, i, j, long(op.parts.size()));
    for (size_t p = 0; p < op.parts.size(); ++p) printf(" %d %d", int(op.parts[p]->getLeftIndex()), int(op.parts[p]->getRightIndex()));
    printf(" FR %ld", long(op.mapPartsFromRight.size()));
    for (std::map<size_t, BlockNumber>::const_iterator it = op.mapPartsFromRight.begin(); it != op.mapPartsFromRight.end(); ++it) printf(" %ld %d", long(it->first), int(it->second));
    printf(" FL %ld", long(op.mapPartsFromLeft.size()));
    for (std::map<size_t, BlockNumber>::const_iterator it = op.mapPartsFromLeft.begin(); it != op.mapPartsFromLeft.end(); ++it) printf(" %ld %d", long(it->first), int(it->second));
    const FieldOperator::BlocksBimap& bm = op.getBlockMapping();
    printf(" BM %ld", long(bm.size()));
    for (FieldOperator::BlocksBimap::left_const_iterator it = bm.left.begin(); it != bm.left.end(); ++it) printf(" %d %d", int(it->first), int(it->second));
    printf("\n");
}

static void run_case(const std::string& id, const pv::Scenario& sc) {
    printf("CASE %s\n", id.c_str());
    pv::ED e;
    if (!e.build(sc, "ham")) { printf("ERROR %s\n", e.error.c_str()); return; }
    ParticleIndex N = e.Idx->getIndexSize();
    printf("N %u\nSPINS", N);
    for (ParticleIndex i = 0; i < N; ++i) printf(" %u", unsigned(e.Idx->getInfo(i).Spin));
    printf("\nHPOLY");
    print_poly(*e.Hidx);
    printf("\n");
    // --- the candidates compute() would offer, each checked on a fresh Symmetrizer
    if (sc.symm == "default") {
        cand(e, 0, "N", OperatorPresets::N(N));
        bool valid_sz = true;
        std::vector<ParticleIndex> ups;
        for (ParticleIndex i = 0; i < N; ++i) {
            unsigned short sp = e.Idx->getInfo(i).Spin;
            valid_sz = valid_sz && (sp == up || sp == down);
            if (sp == up) ups.push_back(i);
        }
        if (valid_sz) {
            try { OperatorPresets::Sz sz(N, ups); cand(e, 1, "Sz", sz); }
            catch (std::exception& ex) { printf("CANDTHROW 1 Sz %s\n", exname(ex).c_str()); }
        }
    } else if (sc.symm == "custom") {
        for (size_t k = 0; k < sc.ioms.size(); ++k) cand(e, int(k), "iom", sc.ioms[k]);
    }
    // --- the real call
    Symmetrizer Symm(*e.Idx, *e.Hidx);
    try {
        if (sc.symm == "default") Symm.compute(false);
        else if (sc.symm == "ignore") Symm.compute(true);
        else Symm.compute(sc.ioms);
        printf("SYMM ok %d\n", Symm.NSymmetries);
    } catch (std::exception& ex) { printf("SYMM throws %s\n", exname(ex).c_str()); return; }
    const std::vector<boost::shared_ptr<Operator> >& ops = Symm.getOperations();
    for (size_t k = 0; k < ops.size(); ++k) { printf("OPER %ld", long(k)); print_poly(*ops[k]); printf("\n"); }
    // --- classification
    StatesClassification S(*e.Idx, Symm);
    try { S.compute(); } catch (std::exception& ex) { printf("THROWS states %s\n", exname(ex).c_str()); return; }
    int nb = S.NumberOfBlocks();
    printf("NBLOCKS %d\n", nb);
    for (int b = 0; b < nb; ++b) {
        const std::vector<FockState>& st = S.getFockStates(BlockNumber(b));
        printf("BLOCK %d %ld", b, long(st.size()));
        for (size_t k = 0; k < st.size(); ++k) printf(" %lu", st[k].to_ulong());
        printf("\n");
    }
    std::vector<std::vector<MelemType> > bq(nb);
    for (int b = 0; b < nb; ++b) {
        QuantumNumbers q = S.getQuantumNumbers(BlockNumber(b));
        bq[b] = q.numbers;
        printf("QN %d %lu", b, (unsigned long)q.NumbersHash);
        for (size_t k = 0; k < q.numbers.size(); ++k) printf(" %s", pv::hexm(q.numbers[k]).c_str());
        printf("\n");
    }
    unsigned long nst = S.getNumberOfStates();
    long coll_s = -1, coll_b = -1;
    for (unsigned long s = 0; s < nst; ++s) {
        FockState fs(N, s);
        try {
            int b = int(S.getBlockNumber(QuantumState(s)));
            unsigned long inner = (unsigned long)S.getInnerState(QuantumState(s));
            printf("STATE %lu %d %lu", s, b, inner);
            std::vector<MelemType> q;
            for (size_t k = 0; k < ops.size(); ++k) { q.push_back(ops[k]->getMatrixElement(fs, fs)); printf(" %s", pv::hexm(q.back()).c_str()); }
            printf("\n");
            if (b < 0 || b >= nb || !(q == bq[b])) { if (coll_s < 0) { coll_s = long(s); coll_b = b; } }
        } catch (std::exception& ex) { printf("STATE %lu ERR-%s\n", s, exname(ex).c_str()); }
    }
    for (int b = 0; b < nb && coll_s < 0; ++b) for (int c = b + 1; c < nb; ++c) if (bq[b] == bq[c]) { coll_s = -2; coll_b = b; break; }
    if (coll_s == -1) printf("HASH ok\n"); else printf("HASH collision %ld %ld\n", coll_s, coll_b);
    long rt = -1;
    try {
        for (unsigned long s = 0; s < nst && rt < 0; ++s) {
            BlockNumber b = S.getBlockNumber(QuantumState(s));
            InnerQuantumState m = S.getInnerState(QuantumState(s));
            if (S.getFockState(b, m).to_ulong() != s) rt = long(s);
        }
        for (int b = 0; b < nb && rt < 0; ++b)
            for (size_t m = 0; m < S.getBlockSize(BlockNumber(b)) && rt < 0; ++m) {
                FockState fs = S.getFockState(BlockNumber(b), m);
                if (int(S.getBlockNumber(fs)) != b || S.getInnerState(fs) != m) rt = long(fs.to_ulong());
            }
    } catch (std::exception& ex) { rt = 1000000; }
    if (rt < 0) printf("ROUNDTRIP ok\n"); else printf("ROUNDTRIP fail %ld\n", rt);
    // --- field operators: only getPart(b) of the Hamiltonian is used by prepare(); the parts are created here
    //     without filling the matrices (HamiltonianPart::prepare is not part of this property)
    Hamiltonian H(*e.Idx, *e.Hidx, S);
    H.parts.resize(nb);
    for (int b = 0; b < nb; ++b) H.parts[b].reset(new HamiltonianPart(*e.Idx, *e.Hidx, S, BlockNumber(b)));
    H.Status = Hamiltonian::Prepared;
    try {
        for (ParticleIndex i = 0; i < N; ++i) {
            CreationOperator cx(*e.Idx, S, H, i);
            dump_fop("cdag", i, -1, cx, S);
            AnnihilationOperator cc(*e.Idx, S, H, i);
            dump_fop("c", i, -1, cc, S);
        }
        for (ParticleIndex i = 0; i < N; ++i) for (ParticleIndex j = 0; j < N; ++j) {
            QuadraticOperator q(*e.Idx, S, H, i, j);
            dump_fop("quad", i, j, q, S);
        }
    } catch (std::exception& ex) { printf("THROWS ops %s\n", exname(ex).c_str()); }
}

int main(int argc, char* argv[]) {
    boost::mpi::environment env(argc, argv);
    std::string line;
    while (std::getline(std::cin, line)) {
        std::istringstream ss(line);
        std::string w, id;
        ss >> w >> id;
        if (w == "seq") {
            std::vector<std::pair<std::string, pv::Scenario> > items;
            std::string l2;
            while (std::getline(std::cin, l2)) {
                std::istringstream s2(l2);
                std::string w2, id2;
                s2 >> w2 >> id2;
                if (w2 == "endseq") break;
                if (w2 != "case") continue;
                pv::Scenario sc2;
                pv::read_scenario(std::cin, sc2);
                items.push_back(std::make_pair(id2, sc2));
            }
            fflush(stdout);
            pid_t pid = fork();
            if (pid == 0) {
                for (size_t k = 0; k < items.size(); ++k) {
                    {
                        pv::Quiet quiet;
                        run_case(items[k].first, items[k].second);
                    }
                    printf("ENDCASE %s\n", items[k].first.c_str());
                    fflush(stdout);
                }
                _exit(0);
            }
            int status = 0;
            waitpid(pid, &status, 0);
            if (!(WIFEXITED(status) && WEXITSTATUS(status) == 0)) { printf("DIED seq%s %d\n", id.c_str(), status); fflush(stdout); }
            continue;
        }
        if (w != "case") continue;
        pv::Scenario sc;
        pv::read_scenario(std::cin, sc);
        fflush(stdout);
        pid_t pid = fork();
        if (pid == 0) {
            {
                pv::Quiet quiet;
                run_case(id, sc);
            }
            printf("ENDCASE %s\n", id.c_str());
            fflush(stdout);
            _exit(0);
        }
        int status = 0;
        waitpid(pid, &status, 0);
        if (!(WIFEXITED(status) && WEXITSTATUS(status) == 0)) { printf("DIED %s %d\n", id.c_str(), status); fflush(stdout); }
    }
    return 0;
}
