// h_c17: call-sequence variety of the documented workflow, for the sanitizer / Valgrind runs of checks/C17.py.
//
// Input:   model            (then scenario lines of ed_common.h, then `end`)
//          seq <name> [args]        one self-contained history per line; every history builds its own objects
// Output:  M ok <N> | E <error>
//          SEQ <name> <args...> ok <checksum as hex float> [notes]     the history returned normally
//          SEQ <name> <args...> throws <what>                          a C++ exception escaped the history (not a defect by itself)
// The numbers are only a checksum (so that the optimiser cannot drop the evaluations and Valgrind sees the values used);
// what the check looks at is the sanitizer / Valgrind verdict and the exit status.
//
// Histories (all on the model of the scenario):
//   reprepare             the whole chain, then every prepare/compute of the chain a second time, containers filled twice
//   index_twice           IndexClassification::prepare called twice on one object (PENDING probe, see checks/C17.py)
//   hidx_twice            IndexHamiltonian::prepare called twice (the polynomial doubles; no storage involved)
//   early                 getters / compute before prepare/compute where the API reports that by an exception
//   lattice_copy          Lattice copied, the original destroyed, chain built from the copy
//   partial_ops <i>       FieldOperatorContainer::prepareAll({i}); operators of i used
//   partial_ops_other <i> <j>   ... then getCreationOperator(j) for j not prepared (PENDING probe)
//   indexperm             Symmetrizer::IndexPermutation / generateTrivialCombination for 2, N, 3, N+1 indices in one process
//   ops_twice <i>         prepareAll({i}); objects referring to the operators of i constructed; prepareAll() and prepareAll({i}) again; the objects used
//   labels                getBlockNumber / getInnerState / getEigenValue / getWeight at 0, 2^N-1, 2^N, 2^N+1, ULONG_MAX
//   indexinfo             getInfo at every index, at IndexSize (throws), getIndex of unknown modes, checkIndex
//   gfmany <i> <j> <nmax> G_ij at Matsubara numbers -nmax..nmax, at complex z, tau at 0, beta/2, beta (both ends)
//   gfc                   GFContainer prepareAll twice, computeAll twice, every element evaluated
//   susc <a> <b> <c> <d>  Susceptibility prepared/computed twice, all subtraction modes, n = 0, tau at both ends
//   avg <a> <b>           EnsembleAverage prepared twice
//   chi <i> <j> <k> <l> <clear> <nf>   TwoParticleGF: compute before prepare (throws), prepare twice, compute(clear, nf freqs) twice
//   tpgfc <i> <j> <k> <l> <split>      TwoParticleGFContainer: prepareAll twice, computeAll with empty and non-empty lists, evaluation
//   vertex <i> <j> <k> <l> <N1> <N2> [uncomputed]   Vertex4 compute(N1), compute(N2), compute(0): lookups inside and outside the windows
//                         (with `uncomputed`: operator() is called once before the first compute() -- PENDING probe)
#include "ed_common.h"
#include <pomerol/TwoParticleGFContainer.h>
#include <pomerol/GFContainer.h>
#include <climits>
using namespace Pomerol;

static pv::Scenario sc;
static double acc = 0;
static void use(ComplexType z) { acc += z.real() * 0.5 + z.imag() * 0.25; if (acc != acc) acc = 1; }
static void use(double x) { acc += x; if (acc != acc) acc = 1; }

static std::vector<std::string> toks(const std::string& line) {
    std::istringstream ss(line); std::vector<std::string> t; std::string w;
    while (ss >> w) t.push_back(w);
    return t;
}
static long L(const std::string& s) { return atol(s.c_str()); }

template <class F> static std::string expect_throw(F f) {
    try { f(); } catch (std::exception& e) { return "T"; } catch (...) { return "t"; }
    return "-";
}

static void run_seq(const std::vector<std::string>& t) {
    const std::string& c = t[1];
    std::string note;
    if (c == "reprepare") {
        pv::ED e; if (!e.build(sc)) throw std::runtime_error(e.error);
        e.Symm->compute(sc.symm == "ignore");
        e.S->compute();
        e.H->prepare(e.comm); e.H->compute(e.comm); e.H->prepare(e.comm);
        e.rho->prepare(); e.rho->compute(); e.rho->prepare();
        e.Ops->prepareAll(); e.Ops->computeAll(); e.Ops->computeAll();
        ParticleIndex n = e.Idx->getIndexSize();
        for (ParticleIndex i = 0; i < n; ++i) for (ParticleIndex j = 0; j < n; ++j) {
            GreensFunction g(*e.S, *e.H, e.Ops->getAnnihilationOperator(i), e.Ops->getCreationOperator(j), *e.rho);
            g.prepare(); g.prepare(); g.compute(); g.compute();
            use(g(long(0))); use(g.of_tau(0.0)); use(g.of_tau(e.rho->beta));
        }
        use(e.rho->getAverageEnergy()); use(e.H->getGroundEnergy());
    } else if (c == "index_twice") {
        pv::ED e; if (!e.build(sc, "lattice")) throw std::runtime_error(e.error);
        IndexClassification idx(e.L.getSiteMap());
        idx.prepare(sc.order_spins);
        unsigned n1 = idx.getIndexSize();
        idx.prepare(sc.order_spins);
        unsigned n2 = idx.getIndexSize();
        for (ParticleIndex i = 0; i < n2; ++i) use(double(idx.getInfo(i).Orbital));
        note = (n1 == n2) ? " same-size" : " size-changed";
    } else if (c == "hidx_twice") {
        pv::ED e; if (!e.build(sc, "index")) throw std::runtime_error(e.error);
        IndexHamiltonian h(&e.L, *e.Idx);
        h.prepare(); h.prepare();
        use(double(std::distance(h.begin(), h.end())));
    } else if (c == "early") {
        pv::ED e; if (!e.build(sc, "symm")) throw std::runtime_error(e.error);
        StatesClassification S(*e.Idx, *e.Symm);
        note = " ";
        note += expect_throw([&] { use(double(S.getBlockNumber(QuantumState(0)))); });
        note += expect_throw([&] { use(double(S.getInnerState(QuantumState(0)))); });
        note += expect_throw([&] { use(double(S.getFockStates(BlockNumber(0)).size())); });
        note += expect_throw([&] { use(double(S.NumberOfBlocks())); });
        S.compute();
        Hamiltonian H(*e.Idx, *e.Hidx, S);
        H.prepare(e.comm);
        note += expect_throw([&] { use(H.getPart(BlockNumber(0)).getEigenValue(0)); });
        note += expect_throw([&] { use(double(H.getPart(BlockNumber(0)).getEigenValues().size())); });
        H.compute(e.comm);
        DensityMatrix rho(S, H, sc.beta);
        note += expect_throw([&] { use(rho.getAverageEnergy()); });
        rho.prepare();
        note += expect_throw([&] { use(rho.getWeight(QuantumState(0))); });
        note += expect_throw([&] { use(rho.getAverageOccupancy()); });
        rho.compute();
        CreationOperator cx(*e.Idx, S, H, 0);
        AnnihilationOperator cc(*e.Idx, S, H, 0);
        note += expect_throw([&] { use(double(cx.getBlockMapping().size())); });
        note += expect_throw([&] { cx.compute(); });
        note += expect_throw([&] { use(double(cx.getLeftIndex(BlockNumber(0)))); });
        cx.prepare(); cc.prepare(); cx.compute(); cc.compute();
        TwoParticleGF x(S, H, cc, cc, cx, cx, rho);
        std::vector<boost::tuple<ComplexType, ComplexType, ComplexType> > fr;
        note += expect_throw([&] { use(double(x.compute(false, fr, e.comm).size())); });
        GreensFunction g(S, H, cc, cx, rho);
        use(g(long(0)));                 // not prepared: no parts, value 0
        g.compute();                     // compute() prepares on demand
        use(g(long(0)));
        Susceptibility* chi = 0;
        QuadraticOperator A(*e.Idx, S, H, 0, 0);
        note += expect_throw([&] { A.compute(); });
        A.prepare(); A.compute();
        chi = new Susceptibility(S, H, A, A, rho);
        use((*chi)(long(0)));
        chi->compute();
        use((*chi)(long(0)));
        delete chi;
    } else if (c == "lattice_copy") {
        Lattice* L2 = 0;
        {
            pv::ED e; if (!e.build(sc, "lattice")) throw std::runtime_error(e.error);
            L2 = new Lattice(e.L);
        }   // the original is destroyed here
        IndexClassification idx(L2->getSiteMap());
        idx.prepare(sc.order_spins);
        IndexHamiltonian hidx(L2, idx);
        hidx.prepare();
        Symmetrizer symm(idx, hidx);
        symm.compute(sc.symm == "ignore");
        StatesClassification S(idx, symm);
        S.compute();
        boost::mpi::communicator comm;
        Hamiltonian H(idx, hidx, S);
        H.prepare(comm); H.compute(comm);
        DensityMatrix rho(S, H, sc.beta);
        rho.prepare(); rho.compute();
        use(rho.getAverageEnergy());
        use(double(L2->getTermStorage().getMaxTermOrder()));
        Lattice L3(*L2);
        delete L2;
        use(double(L3.getSiteMap().size()));
    } else if (c == "partial_ops" || c == "partial_ops_other") {
        pv::ED e; if (!e.build(sc, "dm")) throw std::runtime_error(e.error);
        ParticleIndex i = L(t[2]);
        FieldOperatorContainer ops(*e.Idx, *e.S, *e.H);
        std::set<ParticleIndex> s; s.insert(i);
        ops.prepareAll(s); ops.computeAll();
        GreensFunction g(*e.S, *e.H, ops.getAnnihilationOperator(i), ops.getCreationOperator(i), *e.rho);
        g.prepare(); g.compute();
        use(g(long(0)));
        if (c == "partial_ops_other") {
            ParticleIndex j = L(t[3]);
            const CreationOperator& cx = ops.getCreationOperator(j);     // documented: "Makes on-demand computation"
            use(double(cx.getIndex()));
        }
    } else if (c == "indexperm") {
        // Symmetrizer::IndexPermutation (index permutations as candidate lattice symmetries) for systems of several sizes in ONE process:
        // cyclic permutations of 2, then N, then 3, then N+1 indices; every object computes its cycle length on construction
        pv::ED e; if (!e.build(sc, "dm")) throw std::runtime_error(e.error);
        unsigned sizes[4] = {2u, unsigned(e.Idx->getIndexSize()), 3u, unsigned(e.Idx->getIndexSize()) + 1u};
        for (int k = 0; k < 4; ++k) {
            unsigned n = sizes[k] < 2 ? 2 : sizes[k];
            std::vector<ParticleIndex> v(n);
            for (unsigned i = 0; i < n; ++i) v[i] = (i + 1) % n;
            DynamicIndexCombination comb(v);
            Symmetrizer::IndexPermutation perm(comb);
            use(double(perm.getCycleLength()));
            use(double(perm.getIndices(0).getIndex(0)));
            const DynamicIndexCombination& triv = Symmetrizer::generateTrivialCombination(n);
            use(double(triv.getIndex(n - 1)));
        }
    } else if (c == "ops_twice") {
        // objects that keep references to the container's operators, then a second prepareAll() that covers the same index again
        pv::ED e; if (!e.build(sc, "dm")) throw std::runtime_error(e.error);
        ParticleIndex i = L(t[2]);
        FieldOperatorContainer ops(*e.Idx, *e.S, *e.H);
        std::set<ParticleIndex> s; s.insert(i);
        ops.prepareAll(s); ops.computeAll();
        GreensFunction g(*e.S, *e.H, ops.getAnnihilationOperator(i), ops.getCreationOperator(i), *e.rho);
        QuadraticOperator nq(*e.Idx, *e.S, *e.H, i, i); nq.prepare(); nq.compute();
        TwoParticleGF chi(*e.S, *e.H, ops.getAnnihilationOperator(i), ops.getAnnihilationOperator(i), ops.getCreationOperator(i), ops.getCreationOperator(i), *e.rho);
        ops.prepareAll(); ops.computeAll();          // every index, i among them
        ops.prepareAll(s); ops.computeAll();         // and i alone once more
        g.prepare(); g.compute();
        use(g(long(0))); use(g.of_tau(0.0));
        chi.prepare(); chi.compute();
        use(chi(0, 0, 0));
        GreensFunction g2(*e.S, *e.H, ops.getAnnihilationOperator(i), ops.getCreationOperator(i), *e.rho);
        g2.prepare(); g2.compute();
        use(g2(long(1)));
    } else if (c == "labels") {
        pv::ED e; if (!e.build(sc, "dm")) throw std::runtime_error(e.error);
        unsigned long ns = e.S->getNumberOfStates();
        unsigned long probes[] = {0, ns - 1, ns, ns + 1, 2 * ns, ULONG_MAX};
        note = " ";
        for (size_t k = 0; k < sizeof probes / sizeof probes[0]; ++k) {
            QuantumState q = probes[k];
            note += expect_throw([&] { use(double(e.S->getBlockNumber(q))); });
            note += expect_throw([&] { use(double(e.S->getInnerState(q))); });
            note += expect_throw([&] { use(e.H->getEigenValue(q)); });
            note += expect_throw([&] { use(e.rho->getWeight(q)); });
            if (probes[k] <= ns) {    // FockState of IndexSize bits cannot hold larger numbers
                FockState f(e.Idx->getIndexSize(), probes[k] < ns ? probes[k] : 0);
                note += expect_throw([&] { use(double(e.S->getBlockNumber(f))); });
                note += expect_throw([&] { use(double(e.S->getInnerState(f))); });
            }
            note += ".";
        }
        for (BlockNumber b = 0; b < e.S->NumberOfBlocks(); b++) {
            use(double(e.S->getBlockSize(b)));
            for (size_t k = 0; k < e.S->getBlockSize(b); ++k) use(double(e.S->getFockState(b, k).to_ulong()));
        }
    } else if (c == "indexinfo") {
        pv::ED e; if (!e.build(sc, "index")) throw std::runtime_error(e.error);
        ParticleIndex n = e.Idx->getIndexSize();
        for (ParticleIndex i = 0; i < n; ++i) {
            IndexClassification::IndexInfo x = e.Idx->getInfo(i);
            use(double(e.Idx->getIndex(x)));
            use(double(e.Idx->getIndex(x.SiteLabel, x.Orbital, x.Spin)));
        }
        note = " ";
        note += expect_throw([&] { use(double(e.Idx->getInfo(n).Orbital)); });
        note += expect_throw([&] { use(double(e.Idx->getInfo(n + 7).Orbital)); });
        use(double(e.Idx->getIndex("no-such-site", 0, 0)));
        use(double(e.Idx->getIndex("A", 99, 0)));
        use(double(e.Idx->checkIndex(n)) + double(e.Idx->checkIndex(0)));
    } else if (c == "gfmany") {
        pv::ED e; if (!e.build(sc)) throw std::runtime_error(e.error);
        int i = L(t[2]), j = L(t[3]); long nmax = L(t[4]);
        GreensFunction g(*e.S, *e.H, e.Ops->getAnnihilationOperator(i), e.Ops->getCreationOperator(j), *e.rho);
        g.prepare(); g.compute();
        for (long n = -nmax; n <= nmax; ++n) use(g(n));
        use(g(ComplexType(0.3, 0.7))); use(g(ComplexType(-2.5, -1e-3)));
        double beta = e.rho->beta;
        use(g.of_tau(0.0)); use(g.of_tau(beta)); use(g.of_tau(beta / 2)); use(g.of_tau(1e-300)); use(g.of_tau(beta * (1 - 1e-16)));
    } else if (c == "gfc") {
        pv::ED e; if (!e.build(sc)) throw std::runtime_error(e.error);
        GFContainer G(*e.Idx, *e.S, *e.H, *e.rho, *e.Ops);
        G.prepareAll(); G.prepareAll(); G.computeAll(); G.computeAll();
        ParticleIndex n = e.Idx->getIndexSize();
        for (ParticleIndex i = 0; i < n; ++i) for (ParticleIndex j = 0; j < n; ++j) use(G(i, j)(long(1)));
        GFContainer G2(*e.Idx, *e.S, *e.H, *e.rho, *e.Ops);
        std::set<IndexCombination2> one; one.insert(IndexCombination2(0, n - 1));
        G2.prepareAll(one); G2.computeAll();
        use(G2(0, n - 1)(long(0)));
        use(G2(n - 1, 0)(long(0)));           // not in the initial set: created on demand
    } else if (c == "susc") {
        pv::ED e; if (!e.build(sc)) throw std::runtime_error(e.error);
        int a = L(t[2]), b = L(t[3]), cc = L(t[4]), d = L(t[5]);
        QuadraticOperator A(*e.Idx, *e.S, *e.H, a, b); A.prepare(); A.prepare(); A.compute(); A.compute();
        QuadraticOperator B(*e.Idx, *e.S, *e.H, cc, d); B.prepare(); B.compute();
        double beta = e.rho->beta;
        for (int mode = 0; mode < 4; ++mode) {
            Susceptibility chi(*e.S, *e.H, A, B, *e.rho);
            chi.prepare(); chi.prepare(); chi.compute(); chi.compute();
            EnsembleAverage EA(*e.S, *e.H, A, *e.rho), EB(*e.S, *e.H, B, *e.rho);
            if (mode == 1) chi.subtractDisconnected();
            else if (mode == 2) chi.subtractDisconnected(EA, EB);
            else if (mode == 3) { EA.prepare(); EB.prepare(); chi.subtractDisconnected(EA.getResult(), EB.getResult()); }
            for (long n = -3; n <= 3; ++n) use(chi(n));
            use(chi.of_tau(0.0)); use(chi.of_tau(beta)); use(chi.of_tau(beta / 3));
        }
    } else if (c == "avg") {
        pv::ED e; if (!e.build(sc)) throw std::runtime_error(e.error);
        int a = L(t[2]), b = L(t[3]);
        QuadraticOperator A(*e.Idx, *e.S, *e.H, a, b); A.prepare(); A.compute();
        EnsembleAverage EA(*e.S, *e.H, A, *e.rho);
        EA.prepare(); EA.prepare();
        use(EA.getResult());
    } else if (c == "chi") {
        pv::ED e; if (!e.build(sc)) throw std::runtime_error(e.error);
        int i = L(t[2]), j = L(t[3]), k = L(t[4]), l = L(t[5]); bool clear = L(t[6]) != 0; int nf = L(t[7]);
        TwoParticleGF y(*e.S, *e.H, e.Ops->getAnnihilationOperator(i), e.Ops->getAnnihilationOperator(j),
                        e.Ops->getCreationOperator(k), e.Ops->getCreationOperator(l), *e.rho);
        std::vector<boost::tuple<ComplexType, ComplexType, ComplexType> > fr;
        ComplexType sp = Pomerol::I * M_PI / e.rho->beta;
        for (int f = 0; f < nf; ++f)
            fr.push_back(boost::make_tuple(sp * RealType(2 * (f - nf / 2) + 1), sp * RealType(2 * (f % 3) + 1), sp * RealType(2 * (f - nf / 2) + 1)));
        note = " ";
        note += expect_throw([&] { use(double(y.compute(clear, fr, e.comm).size())); });
        y.prepare(); y.prepare();
        std::vector<ComplexType> t1 = y.compute(clear, fr, e.comm);
        for (size_t f = 0; f < t1.size(); ++f) use(t1[f]);
        std::vector<ComplexType> t2 = y.compute(clear, fr, e.comm);      // already computed: empty table
        use(double(t1.size() * 10 + t2.size()));
        if (!clear) { use(y(0, 0, 0)); use(y(-1, 2, -1)); use(y(3, -3, 3)); }
    } else if (c == "tpgfc") {
        pv::ED e; if (!e.build(sc)) throw std::runtime_error(e.error);
        int i = L(t[2]), j = L(t[3]), k = L(t[4]), l = L(t[5]); bool split = L(t[6]) != 0;
        std::set<IndexCombination4> s; s.insert(IndexCombination4(i, j, k, l));
        std::vector<boost::tuple<ComplexType, ComplexType, ComplexType> > none, fr;
        ComplexType sp = Pomerol::I * M_PI / e.rho->beta;
        for (int f = -2; f < 2; ++f) fr.push_back(boost::make_tuple(sp * RealType(2 * f + 1), sp * RealType(1), sp * RealType(2 * f + 1)));
        {
            TwoParticleGFContainer C(*e.Idx, *e.S, *e.H, *e.rho, *e.Ops);
            C.prepareAll(s); C.prepareAll(s);
            std::map<IndexCombination4, std::vector<ComplexType> > out = C.computeAll(false, none, e.comm, split);
            use(double(out.size()));
            use(C(i, j, k, l)(0, 0, 0)); use(C(j, i, k, l)(0, 1, 0)); use(C(i, j, l, k)(-1, 0, -1));
            std::map<IndexCombination4, std::vector<ComplexType> > out2 = C.computeAll(false, fr, e.comm, split);   // second bulk call
            use(double(out2.size()));
        }
        {
            TwoParticleGFContainer C(*e.Idx, *e.S, *e.H, *e.rho, *e.Ops);
            C.prepareAll(s);
            std::map<IndexCombination4, std::vector<ComplexType> > out = C.computeAll(true, fr, e.comm, split);
            for (std::map<IndexCombination4, std::vector<ComplexType> >::iterator it = out.begin(); it != out.end(); ++it)
                for (size_t f = 0; f < it->second.size(); ++f) use(it->second[f]);
        }
    } else if (c == "vertex") {
        pv::ED e; if (!e.build(sc)) throw std::runtime_error(e.error);
        int i = L(t[2]), j = L(t[3]), k = L(t[4]), l = L(t[5]); long N1 = L(t[6]), N2 = L(t[7]);
        TwoParticleGF chi(*e.S, *e.H, e.Ops->getAnnihilationOperator(i), e.Ops->getAnnihilationOperator(j),
                          e.Ops->getCreationOperator(k), e.Ops->getCreationOperator(l), *e.rho);
        chi.prepare(); chi.compute();
        GreensFunction g13(*e.S, *e.H, e.Ops->getAnnihilationOperator(i), e.Ops->getCreationOperator(k), *e.rho);
        GreensFunction g24(*e.S, *e.H, e.Ops->getAnnihilationOperator(j), e.Ops->getCreationOperator(l), *e.rho);
        GreensFunction g14(*e.S, *e.H, e.Ops->getAnnihilationOperator(i), e.Ops->getCreationOperator(l), *e.rho);
        GreensFunction g23(*e.S, *e.H, e.Ops->getAnnihilationOperator(j), e.Ops->getCreationOperator(k), *e.rho);
        g13.prepare(); g13.compute(); g24.prepare(); g24.compute(); g14.prepare(); g14.compute(); g23.prepare(); g23.compute();
        Vertex4 gamma(chi, g13, g24, g14, g23);
        long Ns[3] = {N1, N2, 0};
        if (t.size() > 8 && t[8] == "uncomputed") use(gamma(0, 0, 0));      // before any compute() (PENDING probe, see checks/C17.py)
        for (int q = 0; q < 3; ++q) {
            gamma.compute(Ns[q]);
            long hi = 2 * std::max(N1, N2) + 2;
            for (long n1 = -hi; n1 <= hi; ++n1) for (long n2 = -hi; n2 <= hi; n2 += 2) for (long n3 = -hi; n3 <= hi; n3 += 3) use(gamma(n1, n2, n3));
            use(gamma(-Ns[q], Ns[q] - 1, -Ns[q])); use(gamma(Ns[q], -Ns[q], Ns[q])); use(gamma(Ns[q] - 1, Ns[q] - 1, Ns[q] - 1));
        }
    } else {
        printf("SEQ %s unknown\n", c.c_str());
        return;
    }
    printf("SEQ");
    for (size_t k = 1; k < t.size(); ++k) printf(" %s", t[k].c_str());
    printf(" ok %s%s\n", pv::hexd(acc).c_str(), note.c_str());
}

int main(int argc, char* argv[]) {
    boost::mpi::environment env(argc, argv);
    pv::Quiet quiet;
    std::string line;
    while (std::getline(std::cin, line)) {
        std::vector<std::string> t = toks(line);
        if (t.empty()) continue;
        if (t[0] == "model") {
            sc = pv::Scenario();
            pv::read_scenario(std::cin, sc);
            pv::ED e;
            if (!e.build(sc, "index")) printf("E %s\n", e.error.c_str());
            else printf("M ok %u\n", e.Idx->getIndexSize());
        } else if (t[0] == "seq" && t.size() > 1) {
            acc = 0;
            try { run_seq(t); }
            catch (std::exception& ex) {
                printf("SEQ");
                for (size_t k = 1; k < t.size(); ++k) printf(" %s", t[k].c_str());
                printf(" throws %s\n", ex.what());
            }
        }
        fflush(stdout);
    }
    return 0;
}
