// h_c02: probe for property C02 (two-particle Green's function).
// Input:  model [stage] <scenario lines> end   then query lines.
// Dump after "BUILT" (same record formats as h_ed): NBLOCKS, BLOCK b size, EIG, W, RET, BETA, OPMAP, OPMAT.
// Queries:
//   parts <i> <j> <k> <l>
//       PARTS i j k l vanishing nparts
//       PART p L0 L1 L2 L3 perm0 perm1 perm2 sign nNonRes nRes status
//       NR p coeff_re coeff_im P0 P1 P2 isz4 weight            (set iteration order)
//       RT p res_re res_im nonres_re nonres_im P0 P1 P2 isz1z2 weight
//   chi <i> <j> <k> <l> <clear> <nf> {n1 n2 n3}     as h_ed: on-demand values of a non-purged object and the table
//                                                   returned by compute(clear, freqs) of a second object
//       CHI i j k l clear vanishing nparts tablesize {ondemand_re ondemand_im table_re table_im | - -}
//       and, after compute(clear,...), what on-demand evaluation of the SAME object does:  AFTER value|throws
//   chiz <i> <j> <k> <l> <nz> {z1re z1im z2re z2im z3re z3im}
//   partz <i> <j> <k> <l> <z1re z1im z2re z2im z3re z3im>    value of every part at one complex triple
// Harness TUs are compiled with -fno-access-control: TermList::data, TwoParticleGF::parts etc. are readable.
#include "ed_common.h"
using namespace Pomerol;

static pv::ED* ed = 0;
static std::vector<std::string> toks(const std::string& line) {
    std::istringstream ss(line); std::vector<std::string> t; std::string w;
    while (ss >> w) t.push_back(w);
    return t;
}
static long L(const std::string& s) { return atol(s.c_str()); }
static double D(const std::string& s) { return strtod(s.c_str(), 0); }

static void dump_sparse(const char* kind, int idx, const FieldOperatorPart& p) {
    const RowMajorMatrixType& m = p.getRowMajorValue();
    printf("OPMAT %s %d %d %d %ld %ld %ld", kind, idx, int(p.getLeftIndex()), int(p.getRightIndex()), long(m.rows()), long(m.cols()), long(m.nonZeros()));
    for (int r = 0; r < m.outerSize(); ++r)
        for (RowMajorMatrixType::InnerIterator it(m, r); it; ++it)
            printf(" %d %d %s", int(it.row()), int(it.col()), pv::hexm(it.value()).c_str());
    printf("\n");
    // the column-major copy, entry by entry in ITS iteration order (the model derives it from the row-major copy)
    const ColMajorMatrixType& c = p.getColMajorValue();
    printf("OPCOL %s %d %d %ld", kind, idx, int(p.getLeftIndex()), long(c.nonZeros()));
    for (int k = 0; k < c.outerSize(); ++k)
        for (ColMajorMatrixType::InnerIterator it(c, k); it; ++it)
            printf(" %d %d %s", int(it.row()), int(it.col()), pv::hexm(it.value()).c_str());
    printf("\n");
}

static void dump_op(const char* kind, int idx, const FieldOperator& op) {
    const FieldOperator::BlocksBimap& bm = op.getBlockMapping();
    printf("OPMAP %s %d %ld", kind, idx, long(bm.size()));
    for (FieldOperator::BlocksBimap::left_const_iterator it = bm.left.begin(); it != bm.left.end(); ++it)
        printf(" %d %d", int(it->first), int(it->second));
    printf("\n");
    for (FieldOperator::BlocksBimap::left_const_iterator it = bm.left.begin(); it != bm.left.end(); ++it)
        dump_sparse(kind, idx, op.getPartFromLeftIndex(it->first));
}

static void dump_model() {
    pv::ED& e = *ed;
    int nb = e.S->NumberOfBlocks();
    printf("N %u\n", e.Idx->getIndexSize());
    printf("NBLOCKS %d\n", nb);
    for (int b = 0; b < nb; ++b) {
        printf("BLOCK %d %ld\n", b, long(e.S->getBlockSize(BlockNumber(b))));
        const HamiltonianPart& hp = e.H->getPart(BlockNumber(b));
        printf("EIG %d", b);
        for (int k = 0; k < hp.getEigenValues().size(); ++k) printf(" %s", pv::hexd(hp.getEigenValues()[k]).c_str());
        printf("\n");
        printf("W %d", b);
        for (size_t k = 0; k < e.S->getBlockSize(BlockNumber(b)); ++k) printf(" %s", pv::hexd(e.rho->getPart(BlockNumber(b)).getWeight(k)).c_str());
        printf("\nRET %d %d\n", b, int(e.rho->isRetained(BlockNumber(b))));
    }
    printf("BETA %s\n", pv::hexd(e.rho->beta).c_str());
    for (ParticleIndex i = 0; i < e.Idx->getIndexSize(); ++i) {
        dump_op("cdag", i, e.Ops->getCreationOperator(i));
        dump_op("c", i, e.Ops->getAnnihilationOperator(i));
    }
    printf("ENDDUMP\n");
}

static TwoParticleGF* make(int i, int j, int k, int l) {
    return new TwoParticleGF(*ed->S, *ed->H, ed->Ops->getAnnihilationOperator(i), ed->Ops->getAnnihilationOperator(j),
                             ed->Ops->getCreationOperator(k), ed->Ops->getCreationOperator(l), *ed->rho);
}

int main(int argc, char* argv[]) {
    boost::mpi::environment env(argc, argv);
    pv::Quiet quiet;
    std::string line;
    while (std::getline(std::cin, line)) {
        std::vector<std::string> t = toks(line);
        if (t.empty()) continue;
        const std::string& c = t[0];
        try {
        if (c == "model") {
            pv::Scenario sc;
            pv::read_scenario(std::cin, sc);
            ed = new pv::ED();
            bool ok = ed->build(sc, "ops");
            if (!ok) printf("ERROR %s\n", ed->error.c_str());
            else { printf("BUILT ops\n"); dump_model(); }
        } else if (c == "parts") {
            int i = L(t[1]), j = L(t[2]), k = L(t[3]), l = L(t[4]);
            TwoParticleGF* x = make(i, j, k, l);
            x->prepare(); x->compute();
            printf("PARTS %d %d %d %d %d %ld\n", i, j, k, l, int(x->isVanishing()), long(x->parts.size()));
            for (size_t p = 0; p < x->parts.size(); ++p) {
                TwoParticleGFPart& P = *x->parts[p];
                printf("PART %ld %d %d %d %d %ld %ld %ld %d %ld %ld %d\n", long(p),
                       int(P.Hpart1.getBlockNumber()), int(P.Hpart2.getBlockNumber()), int(P.Hpart3.getBlockNumber()), int(P.Hpart4.getBlockNumber()),
                       long(P.Permutation.perm[0]), long(P.Permutation.perm[1]), long(P.Permutation.perm[2]), int(P.Permutation.sign),
                       long(P.NonResonantTerms.data.size()), long(P.ResonantTerms.data.size()), int(P.Status));
                for (std::set<TwoParticleGFPart::NonResonantTerm, TwoParticleGFPart::NonResonantTerm::Compare>::const_iterator it = P.NonResonantTerms.data.begin();
                     it != P.NonResonantTerms.data.end(); ++it)
                    printf("NR %ld %s %s %s %s %d %ld\n", long(p), pv::hexc(it->Coeff).c_str(), pv::hexd(it->Poles[0]).c_str(), pv::hexd(it->Poles[1]).c_str(),
                           pv::hexd(it->Poles[2]).c_str(), int(it->isz4), it->Weight);
                for (std::set<TwoParticleGFPart::ResonantTerm, TwoParticleGFPart::ResonantTerm::Compare>::const_iterator it = P.ResonantTerms.data.begin();
                     it != P.ResonantTerms.data.end(); ++it)
                    printf("RT %ld %s %s %s %s %s %d %ld\n", long(p), pv::hexc(it->ResCoeff).c_str(), pv::hexc(it->NonResCoeff).c_str(), pv::hexd(it->Poles[0]).c_str(),
                           pv::hexd(it->Poles[1]).c_str(), pv::hexd(it->Poles[2]).c_str(), int(it->isz1z2), it->Weight);
            }
            printf("ENDPARTS\n");
            delete x;
        } else if (c == "chi") {
            int i = L(t[1]), j = L(t[2]), k = L(t[3]), l = L(t[4]); bool clear = L(t[5]) != 0; int nf = L(t[6]);
            TwoParticleGF* x = make(i, j, k, l);
            x->prepare(); x->compute();
            TwoParticleGF* y = make(i, j, k, l);
            y->prepare();
            std::vector<boost::tuple<ComplexType, ComplexType, ComplexType> > fr;
            ComplexType sp = I * M_PI / ed->rho->beta;
            for (int f = 0; f < nf; ++f)
                fr.push_back(boost::make_tuple(sp * RealType(2 * L(t[7 + 3 * f]) + 1), sp * RealType(2 * L(t[8 + 3 * f]) + 1), sp * RealType(2 * L(t[9 + 3 * f]) + 1)));
            std::vector<ComplexType> table = y->compute(clear, fr, ed->comm);
            printf("CHI %d %d %d %d %d %d %ld %ld", i, j, k, l, int(clear), int(x->isVanishing()), long(x->parts.size()), long(table.size()));
            for (int f = 0; f < nf; ++f) {
                printf(" %s", pv::hexc((*x)(long(L(t[7 + 3 * f])), long(L(t[8 + 3 * f])), long(L(t[9 + 3 * f])))).c_str());
                if (size_t(f) < table.size()) printf(" %s", pv::hexc(table[f]).c_str()); else printf(" - -");
            }
            printf("\n");
            try {
                ComplexType v = (*y)(long(0), long(0), long(0));
                printf("AFTER value %s\n", pv::hexc(v).c_str());
            } catch (std::exception& ex) { printf("AFTER throws\n"); }
            delete x; delete y;
        } else if (c == "chiz") {
            int i = L(t[1]), j = L(t[2]), k = L(t[3]), l = L(t[4]); int nz = L(t[5]);
            TwoParticleGF* x = make(i, j, k, l);
            x->prepare(); x->compute();
            printf("CHIZ %d %d %d %d", i, j, k, l);
            for (int f = 0; f < nz; ++f)
                printf(" %s", pv::hexc((*x)(ComplexType(D(t[6 + 6 * f]), D(t[7 + 6 * f])), ComplexType(D(t[8 + 6 * f]), D(t[9 + 6 * f])), ComplexType(D(t[10 + 6 * f]), D(t[11 + 6 * f])))).c_str());
            printf("\n");
            delete x;
        } else if (c == "partz") {
            int i = L(t[1]), j = L(t[2]), k = L(t[3]), l = L(t[4]);
            ComplexType z1(D(t[5]), D(t[6])), z2(D(t[7]), D(t[8])), z3(D(t[9]), D(t[10]));
            TwoParticleGF* x = make(i, j, k, l);
            x->prepare(); x->compute();
            printf("PARTZ %d %d %d %d %ld", i, j, k, l, long(x->parts.size()));
            for (size_t p = 0; p < x->parts.size(); ++p) printf(" %s", pv::hexc((*x->parts[p])(z1, z2, z3)).c_str());
            printf("\n");
            delete x;
        } else {
            printf("UNKNOWN %s\n", c.c_str());
        }
        } catch (std::exception& ex) {
            printf("THROWS %s %s\n", c.c_str(), ex.what());
        }
        fflush(stdout);
    }
    return 0;
}
