// h_c01: raw inputs and outputs of GreensFunction / Susceptibility for the C01 / C14 / C17 correspondence.
// Unlike h_ed (sparse blocks as triplets) this dumps the three arrays of every compressed matrix exactly as
// Eigen holds them (outerIndexPtr, innerIndexPtr, valuePtr, allocated size), BEFORE compute() is called and
// flushed, so that the model can replay the merge walk even when compute() dies under the sanitizer.
//
// Input:  model [stage] <scenario lines> end      then queries, one per line:
//   gfraw <i> <j> <nz> {re im} [n <k> {matsubara numbers}]
//   suscraw <a> <b> <c> <d> <nz> {re im} [n <k> {matsubara numbers}]
// Output records (hex floats):
//   NBLOCKS nb / EIG b e... / W b w... / RET b 0|1 / BETA beta
//   MAPL n {left right}         left view of the first operator's block bimap (C_i resp. A)
//   MAPR n {right left}         right view of the second operator's block bimap (CX_j resp. B)
//   CS <A|B> <key> <left> <right> rows cols outer nnz alloc compressed | ptr[outer+1] | idx[nnz] | val[nnz] (re im)
//        A: row-major copy of the part with left index <key>;  B: column-major copy of the part with right index <key>
//   READY                       everything above is flushed before prepare()/compute()
//   PARTS n {outer inner}       blocks of the parts pushed by prepare()
//   TERMS outer inner n {re im pole}     (after compute)        ZERO outer inner re im   (susceptibility)
//   VAL kind nz {re im}          values at the requested z      VALN kind k {n re im}  at Matsubara numbers
#include "ed_common.h"
using namespace Pomerol;

static pv::ED* ed = 0;
static std::vector<std::string> toks(const std::string& line) {
    std::istringstream ss(line); std::vector<std::string> t; std::string w;
    while (ss >> w) t.push_back(w);
    return t;
}
static long L(const std::string& s) { return atol(s.c_str()); }
static double D(const std::string& s) { return strtod(s.c_str(), 0); }

template <class M> static void dump_cs(const char* which, int key, int left, int right, const M& m) {
    printf("CS %s %d %d %d %ld %ld %ld %ld %ld %d |", which, key, left, right, long(m.rows()), long(m.cols()), long(m.outerSize()),
           long(m.nonZeros()), long(m.data().allocatedSize()), int(m.isCompressed()));
    for (long o = 0; o <= m.outerSize(); ++o) printf(" %ld", long(m.outerIndexPtr()[o]));
    printf(" |");
    long nnz = m.isCompressed() ? long(m.outerIndexPtr()[m.outerSize()]) : long(m.data().size());
    for (long k = 0; k < nnz; ++k) printf(" %ld", long(m.innerIndexPtr()[k]));
    printf(" |");
    for (long k = 0; k < nnz; ++k) printf(" %s", pv::hexm(m.valuePtr()[k]).c_str());
    printf("\n");
}

static void dump_maps(const FieldOperator& X, const FieldOperator& Y) {
    const FieldOperator::BlocksBimap& mx = X.getBlockMapping();
    const FieldOperator::BlocksBimap& my = Y.getBlockMapping();
    printf("MAPL %ld", long(mx.size()));
    for (FieldOperator::BlocksBimap::left_const_iterator it = mx.left.begin(); it != mx.left.end(); ++it) printf(" %d %d", int(it->first), int(it->second));
    printf("\nMAPR %ld", long(my.size()));
    for (FieldOperator::BlocksBimap::right_const_iterator it = my.right.begin(); it != my.right.end(); ++it) printf(" %d %d", int(it->first), int(it->second));
    printf("\n");
    for (FieldOperator::BlocksBimap::left_const_iterator it = mx.left.begin(); it != mx.left.end(); ++it) {
        const FieldOperatorPart& p = X.getPartFromLeftIndex(it->first);
        dump_cs("A", int(it->first), int(p.getLeftIndex()), int(p.getRightIndex()), p.getRowMajorValue());
    }
    for (FieldOperator::BlocksBimap::right_const_iterator it = my.right.begin(); it != my.right.end(); ++it) {
        const FieldOperatorPart& p = Y.getPartFromRightIndex(it->first);
        dump_cs("B", int(it->first), int(p.getLeftIndex()), int(p.getRightIndex()), p.getColMajorValue());
    }
    printf("READY\n");
    fflush(stdout);
}

template <class T> static void dump_terms(const T& part) {
    printf("TERMS %d %d %ld", int(part.HpartOuter.getBlockNumber()), int(part.HpartInner.getBlockNumber()), long(part.Terms.data.size()));
    for (typename std::set<typename T::Term, typename T::Term::Compare>::const_iterator it = part.Terms.data.begin(); it != part.Terms.data.end(); ++it)
        printf(" %s %s", pv::hexc(it->Residue).c_str(), pv::hexd(it->Pole).c_str());
    printf("\n");
}

int main(int argc, char* argv[]) {
    boost::mpi::environment env(argc, argv);
    pv::Quiet quiet;
    std::string line;
    while (std::getline(std::cin, line)) {
        std::vector<std::string> t = toks(line);
        if (t.empty()) continue;
        const std::string& c = t[0];
        try {
        if (c == "model") {
            pv::Scenario sc;
            pv::read_scenario(std::cin, sc);
            ed = new pv::ED();
            bool ok = ed->build(sc, "ops");
            if (!ok) { printf("ERROR %s\n", ed->error.c_str()); fflush(stdout); continue; }
            int nb = ed->S->NumberOfBlocks();
            printf("BUILT\nNBLOCKS %d\nBETA %s\n", nb, pv::hexd(ed->rho->beta).c_str());
            for (int b = 0; b < nb; ++b) {
                const HamiltonianPart& hp = ed->H->getPart(BlockNumber(b));
                printf("EIG %d", b);
                for (int k = 0; k < hp.getEigenValues().size(); ++k) printf(" %s", pv::hexd(hp.getEigenValues()[k]).c_str());
                printf("\nW %d", b);
                for (size_t k = 0; k < ed->S->getBlockSize(BlockNumber(b)); ++k) printf(" %s", pv::hexd(ed->rho->getPart(BlockNumber(b)).getWeight(k)).c_str());
                printf("\nRET %d %d\n", b, int(ed->rho->isRetained(BlockNumber(b))));
            }
        } else if (c == "gfraw") {
            int i = L(t[1]), j = L(t[2]); int nz = L(t[3]);
            const AnnihilationOperator& C = ed->Ops->getAnnihilationOperator(i);
            const CreationOperator& CX = ed->Ops->getCreationOperator(j);
            printf("GFRAW %d %d\n", i, j);
            dump_maps(C, CX);
            GreensFunction g(*ed->S, *ed->H, C, CX, *ed->rho);
            g.prepare();
            printf("PARTS %ld", long(g.parts.size()));
            for (std::list<GreensFunctionPart*>::const_iterator it = g.parts.begin(); it != g.parts.end(); ++it)
                printf(" %d %d", int((*it)->HpartOuter.getBlockNumber()), int((*it)->HpartInner.getBlockNumber()));
            printf("\n");
            fflush(stdout);
            g.compute();
            for (std::list<GreensFunctionPart*>::const_iterator it = g.parts.begin(); it != g.parts.end(); ++it) dump_terms(**it);
            printf("VAL G %d", nz);
            for (int k = 0; k < nz; ++k) printf(" %s", pv::hexc(g(ComplexType(D(t[4 + 2 * k]), D(t[5 + 2 * k])))).c_str());
            printf("\n");
            size_t p = 4 + 2 * nz;
            if (p < t.size() && t[p] == "n") {
                int k = L(t[p + 1]);
                printf("VALN G %d", k);
                for (int q = 0; q < k; ++q) printf(" %ld %s", L(t[p + 2 + q]), pv::hexc(g(long(L(t[p + 2 + q])))).c_str());
                printf("\n");
            }
        } else if (c == "suscraw") {
            int a = L(t[1]), b = L(t[2]), cc = L(t[3]), d = L(t[4]); int nz = L(t[5]);
            QuadraticOperator A(*ed->Idx, *ed->S, *ed->H, a, b); A.prepare(); A.compute();
            QuadraticOperator B(*ed->Idx, *ed->S, *ed->H, cc, d); B.prepare(); B.compute();
            printf("SUSCRAW %d %d %d %d\n", a, b, cc, d);
            dump_maps(A, B);
            // the maps and parts that EnsembleAverage(B) walks: left view of B, row-major copies
            {
                const FieldOperator::BlocksBimap& mb = B.getBlockMapping();
                printf("MAPLB %ld", long(mb.size()));
                for (FieldOperator::BlocksBimap::left_const_iterator it = mb.left.begin(); it != mb.left.end(); ++it) printf(" %d %d", int(it->first), int(it->second));
                printf("\n");
                for (FieldOperator::BlocksBimap::left_const_iterator it = mb.left.begin(); it != mb.left.end(); ++it) {
                    const FieldOperatorPart& p = B.getPartFromLeftIndex(it->first);
                    dump_cs("BR", int(it->first), int(p.getLeftIndex()), int(p.getRightIndex()), p.getRowMajorValue());
                }
                fflush(stdout);
            }
            Susceptibility chi(*ed->S, *ed->H, A, B, *ed->rho);
            chi.prepare();
            printf("PARTS %ld", long(chi.parts.size()));
            for (std::list<SusceptibilityPart*>::const_iterator it = chi.parts.begin(); it != chi.parts.end(); ++it)
                printf(" %d %d", int((*it)->HpartOuter.getBlockNumber()), int((*it)->HpartInner.getBlockNumber()));
            printf("\n");
            fflush(stdout);
            chi.compute();
            for (std::list<SusceptibilityPart*>::const_iterator it = chi.parts.begin(); it != chi.parts.end(); ++it) {
                dump_terms(**it);
                printf("ZERO %d %d %s\n", int((*it)->HpartOuter.getBlockNumber()), int((*it)->HpartInner.getBlockNumber()), pv::hexm((*it)->ZeroPoleWeight).c_str());
            }
            EnsembleAverage EA(*ed->S, *ed->H, A, *ed->rho), EB(*ed->S, *ed->H, B, *ed->rho);
            EA.prepare(); EB.prepare();
            printf("AVG %s %s\n", pv::hexc(EA.getResult()).c_str(), pv::hexc(EB.getResult()).c_str());
            // a second prepare() must not accumulate
            EA.prepare();
            printf("AVG2 %s\n", pv::hexc(EA.getResult()).c_str());
            printf("VAL S0 %d", nz);
            for (int k = 0; k < nz; ++k) printf(" %s", pv::hexc(chi(ComplexType(D(t[6 + 2 * k]), D(t[7 + 2 * k])))).c_str());
            printf("\n");
            size_t p = 6 + 2 * nz;
            int kn = 0;
            if (p < t.size() && t[p] == "n") kn = L(t[p + 1]);
            if (kn) {
                printf("VALN S0 %d", kn);
                for (int q = 0; q < kn; ++q) printf(" %ld %s", L(t[p + 2 + q]), pv::hexc(chi(long(L(t[p + 2 + q])))).c_str());
                printf("\n");
            }
            // the three ways of supplying <A>, <B>
            for (int mode = 1; mode <= 3; ++mode) {
                Susceptibility x(*ed->S, *ed->H, A, B, *ed->rho);
                x.prepare(); x.compute();
                EnsembleAverage EA2(*ed->S, *ed->H, A, *ed->rho), EB2(*ed->S, *ed->H, B, *ed->rho);
                if (mode == 1) x.subtractDisconnected();
                else if (mode == 2) { EA2.prepare(); x.subtractDisconnected(EA2, EB2); }   // one object already prepared, one fresh
                else { EA2.prepare(); EB2.prepare(); x.subtractDisconnected(EA2.getResult(), EB2.getResult()); }
                printf("VAL S%d %d", mode, nz);
                for (int k = 0; k < nz; ++k) printf(" %s", pv::hexc(x(ComplexType(D(t[6 + 2 * k]), D(t[7 + 2 * k])))).c_str());
                printf("\n");
                if (kn) {
                    printf("VALN S%d %d", mode, kn);
                    for (int q = 0; q < kn; ++q) printf(" %ld %s", L(t[p + 2 + q]), pv::hexc(x(long(L(t[p + 2 + q])))).c_str());
                    printf("\n");
                }
            }
        } else {
            printf("UNKNOWN %s\n", c.c_str());
        }
        } catch (std::exception& ex) {
            printf("THROWS %s %s\n", c.c_str(), ex.what());
        }
        fflush(stdout);
    }
    return 0;
}
