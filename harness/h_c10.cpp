// h_c10: FieldOperatorContainer driven through multi-step histories (property C10).
// Input:
//   model
//   <scenario lines, see ed_common.h>
//   end
// then one command per line:
//   history <tokens>     tokens: `P <i> <j> ...` = prepareAll({i, j, ...});  `P` alone = prepareAll() (the default argument: all indices);
//                        `C` = computeAll().  A fresh container is constructed for every history line, e.g.
//                            history P 0 1 C P 2 3 C
//                        Output:  HISTORY <k> <tokens>
//                                 OPSTATUS cdag|c <i> <status> <nparts>        for every operator the container holds (status 0 constructed, 1 prepared, 2 computed)
//                                 OPMISSING cdag|c <i>                         requested index that the container does not hold
//                                 OPMAP / OPMAT / COLROWDIFF records in the format of h_ed (kinds cdag, c), taken through
//                                 getCreationOperator / getAnnihilationOperator
//                                 ENDHISTORY <k>
//   single [<i> <j> ...]  operators computed one by one: SINGLE, then OPMAP / OPMAT with kinds cdag1, c1 for every index (or for the listed ones)
//   threads              THREADS <omp_get_max_threads()> : the number of OpenMP threads a parallel region of the library would get
// With the command-line arguments `--out <file>` all records go to <file> instead of stdout (large models: tens of MB).
// The model part answers  BUILT diag  followed by the records N, INFO, HPOLY, NSYM, NBLOCKS, BLOCK, VEC, EIG of h_ed (same formats),
// or  ERROR <text>.  All floating-point output is hex floats; one record per line.
#include "ed_common.h"
#include <omp.h>
using namespace Pomerol;

static std::vector<std::string> toks(const std::string& line) {
    std::istringstream ss(line); std::vector<std::string> t; std::string w;
    while (ss >> w) t.push_back(w);
    return t;
}

static void dump_sparse(const char* tag, const char* kind, int idx, const FieldOperatorPart& p) {
    const RowMajorMatrixType& m = p.getRowMajorValue();
    printf("%s %s %d %d %d %ld %ld %ld", tag, kind, idx, int(p.getLeftIndex()), int(p.getRightIndex()), long(m.rows()), long(m.cols()), long(m.nonZeros()));
    for (int r = 0; r < m.outerSize(); ++r)
        for (RowMajorMatrixType::InnerIterator it(m, r); it; ++it)
            printf(" %d %d %s", int(it.row()), int(it.col()), pv::hexm(it.value()).c_str());
    printf("\n");
    // the column-major copy must hold the same entries (and have the same shape)
    const ColMajorMatrixType& c = p.getColMajorValue();
    double mx = 0;
    if (c.rows() != m.rows() || c.cols() != m.cols()) mx = 1e300;
    else {
        RowMajorMatrixType diff = RowMajorMatrixType(c) - m;
        for (int r = 0; r < diff.outerSize(); ++r) for (RowMajorMatrixType::InnerIterator it(diff, r); it; ++it) mx = std::max(mx, std::abs(it.value()));
    }
    if (mx != 0) printf("COLROWDIFF %s %d %d %s\n", kind, idx, int(p.getLeftIndex()), pv::hexd(mx).c_str());
}

static void dump_op(const char* kind, int idx, const FieldOperator& op) {
    const FieldOperator::BlocksBimap& bm = op.getBlockMapping();
    printf("OPMAP %s %d %ld", kind, idx, long(bm.size()));
    for (FieldOperator::BlocksBimap::left_const_iterator it = bm.left.begin(); it != bm.left.end(); ++it)
        printf(" %d %d", int(it->first), int(it->second));
    printf("\n");
    for (FieldOperator::BlocksBimap::left_const_iterator it = bm.left.begin(); it != bm.left.end(); ++it)
        dump_sparse("OPMAT", kind, idx, op.getPartFromLeftIndex(it->first));
}

static void dump_model(pv::ED& e) {
    printf("N %u\n", e.Idx->getIndexSize());
    for (ParticleIndex i = 0; i < e.Idx->getIndexSize(); ++i) {
        IndexClassification::IndexInfo* p = e.Idx->IndicesToInfo[i];
        if (p) printf("INFO %u %s %u %u\n", i, p->SiteLabel.c_str(), unsigned(p->Orbital), unsigned(p->Spin));
        else printf("INFO %u NULL\n", i);
    }
    printf("HPOLY %ld", long(std::distance(e.Hidx->begin(), e.Hidx->end())));
    for (Operator::const_iterator it = e.Hidx->begin(); it != e.Hidx->end(); ++it) {
        printf(" %s %ld", pv::hexm(it->second).c_str(), long(it->first.size()));
        for (size_t k = 0; k < it->first.size(); ++k)
            printf(" %d %u", boost::get<0>(it->first[k]) == Operator::creation ? 1 : 0, boost::get<1>(it->first[k]));
    }
    printf("\n");
    printf("NSYM %d\n", e.Symm->NSymmetries);
    int nb = e.S->NumberOfBlocks();
    printf("NBLOCKS %d\n", nb);
    for (int b = 0; b < nb; ++b) {
        const std::vector<FockState>& st = e.S->getFockStates(BlockNumber(b));
        printf("BLOCK %d %ld", b, long(st.size()));
        for (size_t k = 0; k < st.size(); ++k) printf(" %lu", st[k].to_ulong());
        printf("\n");
    }
    for (int b = 0; b < nb; ++b) {
        const HamiltonianPart& hp = e.H->getPart(BlockNumber(b));
        const MatrixType& m = hp.getMatrix();
        printf("VEC %d %ld", b, long(m.rows()));
        for (int r = 0; r < m.rows(); ++r) for (int c = 0; c < m.cols(); ++c) printf(" %s", pv::hexm(m(r, c)).c_str());
        printf("\n");
        printf("EIG %d", b);
        for (int k = 0; k < hp.getEigenValues().size(); ++k) printf(" %s", pv::hexd(hp.getEigenValues()[k]).c_str());
        printf("\n");
    }
}

int main(int argc, char* argv[]) {
    boost::mpi::environment env(argc, argv);
    if (argc > 2 && std::string(argv[1]) == "--out" && !freopen(argv[2], "w", stdout)) { perror("freopen"); return 2; }
    pv::Quiet quiet;
    pv::ED* ed = 0;
    std::string line;
    int nhist = 0;
    while (std::getline(std::cin, line)) {
        std::vector<std::string> t = toks(line);
        if (t.empty()) continue;
        const std::string& c = t[0];
        try {
        if (c == "model") {
            pv::Scenario sc;
            pv::read_scenario(std::cin, sc);
            ed = new pv::ED();
            bool ok = ed->build(sc, "diag");
            if (!ok) printf("ERROR %s\n", ed->error.c_str());
            else { printf("BUILT diag\n"); dump_model(*ed); }
        } else if (c == "history") {
            int k = nhist++;
            printf("HISTORY %d", k);
            for (size_t p = 1; p < t.size(); ++p) printf(" %s", t[p].c_str());
            printf("\n");
            FieldOperatorContainer* ops = new FieldOperatorContainer(*ed->Idx, *ed->S, *ed->H);
            std::set<ParticleIndex> requested;
            size_t p = 1;
            while (p < t.size()) {
                if (t[p] == "P") {
                    std::set<ParticleIndex> in;
                    for (++p; p < t.size() && t[p] != "P" && t[p] != "C"; ++p) in.insert(ParticleIndex(atol(t[p].c_str())));
                    if (in.empty()) for (ParticleIndex i = 0; i < ed->Idx->getIndexSize(); ++i) requested.insert(i);
                    else requested.insert(in.begin(), in.end());
                    ops->prepareAll(in);
                } else if (t[p] == "C") {
                    ops->computeAll();
                    ++p;
                } else { printf("UNKNOWN-TOKEN %s\n", t[p].c_str()); ++p; }
            }
            for (std::set<ParticleIndex>::const_iterator it = requested.begin(); it != requested.end(); ++it) {
                ParticleIndex i = *it;
                bool hx = ops->mapCreationOperators.count(i) && ops->mapCreationOperators[i];
                bool hc = ops->mapAnnihilationOperators.count(i) && ops->mapAnnihilationOperators[i];
                if (!hx) printf("OPMISSING cdag %u\n", i);
                if (!hc) printf("OPMISSING c %u\n", i);
                if (hx) {
                    const CreationOperator& X = ops->getCreationOperator(i);
                    printf("OPSTATUS cdag %u %u %ld\n", i, X.Status, long(X.parts.size()));
                    dump_op("cdag", i, X);
                }
                if (hc) {
                    const AnnihilationOperator& A = ops->getAnnihilationOperator(i);
                    printf("OPSTATUS c %u %u %ld\n", i, A.Status, long(A.parts.size()));
                    dump_op("c", i, A);
                }
            }
            for (std::map<ParticleIndex, CreationOperator*>::const_iterator it = ops->mapCreationOperators.begin(); it != ops->mapCreationOperators.end(); ++it)
                if (!requested.count(it->first)) printf("OPEXTRA cdag %u\n", it->first);
            printf("ENDHISTORY %d\n", k);
        } else if (c == "single") {
            printf("SINGLE\n");
            std::set<ParticleIndex> only;
            for (size_t p = 1; p < t.size(); ++p) only.insert(ParticleIndex(atol(t[p].c_str())));
            for (ParticleIndex i = 0; i < ed->Idx->getIndexSize(); ++i) {
                if (!only.empty() && !only.count(i)) continue;
                CreationOperator cx(*ed->Idx, *ed->S, *ed->H, i); cx.prepare(); cx.compute();
                AnnihilationOperator cc(*ed->Idx, *ed->S, *ed->H, i); cc.prepare(); cc.compute();
                dump_op("cdag1", i, cx);
                dump_op("c1", i, cc);
            }
        } else if (c == "threads") {
            printf("THREADS %d\n", omp_get_max_threads());
        } else {
            printf("UNKNOWN %s\n", c.c_str());
        }
        } catch (std::exception& ex) {
            printf("THROWS %s %s\n", c.c_str(), ex.what());
        }
        fflush(stdout);
    }
    return 0;
}
