// h_c16 -- MPI probe for the job dispatcher (C16; the split-communicator option is for C06).
//
//   mpiexec -np P h_c16 --script FILE --out DIR [--trace DIR] [--watchdog SEC]
//
// Every rank reads the same script; one scenario per line:
//   S <id> <mode> <J> <G> <r0[,r1,...]> <seed> <maxus> C <c0> ... <c{J-1}>
//     mode   skel   : pMPI::mpi_skel<ComputeWrap<Job>>::run(comm, false)            (include_boss = true)
//            nobossL: as noboss, with the LAST rank of comm as the master-only rank
//            noboss : the loop of test/mpi_dispatcher_test_nomaster.cpp with MPIMaster(comm, order, false):
//                     rank 0 of comm runs only the master, all others only a worker (include_boss = false);
//                     job order and the final map broadcast as in mpi_skel::run
//     J      number of jobs, c_i their complexities
//     G      0: comm = world; G >= 1: comm = world.split(world_rank % G), colour k runs r_k consecutive rounds
//     r      rounds (per colour when G >= 1; a single number applies to every colour)
//     seed, maxus   each job sleeps a pseudo-random time in [0, maxus] microseconds derived from (seed, round, job);
//                   also exported as POMEROL_VERIF_DELAY_SEED / POMEROL_VERIF_DELAY_MAX_US for the library hook
// Output, one file per world rank DIR/rank<k>.out, flushed line by line:
//   SCEN <id> begin <local rank> <comm size> <colour>
//   RUN <id> <round> <job> <local rank>            a job was executed here
//   MAP <id> <round> j:w,j:w,...                   the map returned on this rank
//   THROW <id> <round> <what>                      an exception left the dispatcher
//   SCEN <id> end
//   WATCHDOG <id> round=<k> phase=<before|inside|after>   the scenario did not finish within --watchdog seconds
// With --trace DIR and a library carrying the C16 hook, POMEROL_VERIF_TRACE_DIR is set to DIR/<id> for each scenario.
#include <mpi_dispatcher/mpi_skel.hpp>
#include <algorithm>
#include <csignal>
#include <cstdio>
#include <cstdlib>
#include <cstring>
#include <fstream>
#include <sstream>
#include <string>
#include <vector>
#include <sys/stat.h>
#include <unistd.h>

#ifdef POMEROL_VERIF_DISPATCH_HOOK
namespace pMPI {
void verif_trace(const char* fmt, ...);
void verif_round_begin(const boost::mpi::communicator& comm, int njobs, int include_boss);
void verif_delay();
}
#define HOOK(x) x
#else
#define HOOK(x)
#endif

static FILE* g_out = NULL;
static char g_scen[64] = "-";
static volatile int g_round = -1, g_phase = 0;
static int g_local_rank = 0;

static void on_alarm(int)
{
    char buf[200];
    const char* ph = g_phase == 0 ? "before" : (g_phase == 1 ? "inside" : "after");
    int n = std::snprintf(buf, sizeof(buf), "WATCHDOG %s round=%d phase=%s\n", g_scen, (int)g_round, ph);
    if (g_out != NULL && n > 0) { ssize_t k = ::write(fileno(g_out), buf, (size_t)n); (void)k; }
    ::sleep(1);            // let the other ranks' watchdogs write their line before mpiexec tears the job down
    ::_exit(86);
}

struct Job {
    int id;
    int us;
    void compute()
    {
        if (us > 0) ::usleep((useconds_t)us);
        std::fprintf(g_out, "RUN %s %d %d %d\n", g_scen, (int)g_round, id, g_local_rank);
        std::fflush(g_out);
    }
};
typedef pMPI::ComputeWrap<Job> Wrap;

static unsigned long long mix(unsigned long long x)
{
    x += 0x9E3779B97F4A7C15ULL; x = (x ^ (x >> 30)) * 0xBF58476D1CE4E5B9ULL;
    x = (x ^ (x >> 27)) * 0x94D049BB133111EBULL; return x ^ (x >> 31);
}

// include_boss = false: documented usage (test/mpi_dispatcher_test_nomaster.cpp) + job order / map broadcast of mpi_skel::run
// root_last: the master-only rank is the LAST rank of the communicator instead of rank 0 (the interface takes any rank as the boss)
static std::map<pMPI::JobId, pMPI::WorkerId> run_noboss(const boost::mpi::communicator& comm, std::vector<Wrap>& parts, bool root_last)
{
    const int ROOT = root_last ? comm.size() - 1 : 0;
    int rank = comm.rank();
    comm.barrier();
    boost::scoped_ptr<pMPI::MPIMaster> master;
    if (rank == ROOT) {
        std::vector<pMPI::JobId> job_order(parts.size());
        for (size_t i = 0; i < job_order.size(); i++) job_order[i] = i;
        std::sort(job_order.begin(), job_order.end(),
                  [&parts](std::size_t l, std::size_t r) { return parts[l].complexity > parts[r].complexity; });
        master.reset(new pMPI::MPIMaster(comm, job_order, false));      // throws std::logic_error without workers
    }
    HOOK(pMPI::verif_round_begin(comm, int(parts.size()), 0);)
    comm.barrier();
    if (rank == ROOT) {
        for (; !master->is_finished();) { master->order(); master->check_workers(); }
    } else {
        pMPI::MPIWorker worker(comm, ROOT);
        for (; !worker.is_finished();) {
            worker.receive_order();
            if (worker.is_working()) {
                pMPI::JobId p = worker.current_job();
                HOOK(pMPI::verif_delay();)
                parts[p].run();
                HOOK(pMPI::verif_trace("R %d", int(p));)
                worker.report_job_done();
            }
        }
    }
    HOOK(pMPI::verif_trace("E");)
    comm.barrier();
    std::map<pMPI::JobId, pMPI::WorkerId> job_map;
    std::vector<pMPI::JobId> jobs;
    std::vector<pMPI::WorkerId> workers;
    if (rank == ROOT) {
        job_map = master->DispatchMap;
        for (std::map<pMPI::JobId, pMPI::WorkerId>::const_iterator it = job_map.begin(); it != job_map.end(); ++it) {
            jobs.push_back(it->first); workers.push_back(it->second);
        }
    }
    boost::mpi::broadcast(comm, jobs, ROOT);
    boost::mpi::broadcast(comm, workers, ROOT);
    if (rank != ROOT) for (size_t i = 0; i < jobs.size(); i++) job_map[jobs[i]] = workers[i];
    return job_map;
}

int main(int argc, char* argv[])
{
    MPI_Init(&argc, &argv);
    int rc = 0;
    {
        boost::mpi::communicator world;
        std::string script, outdir = ".", tracedir;
        int watchdog = 0;
        for (int i = 1; i < argc; i++) {
            std::string a = argv[i];
            if (a == "--script" && i + 1 < argc) script = argv[++i];
            else if (a == "--out" && i + 1 < argc) outdir = argv[++i];
            else if (a == "--trace" && i + 1 < argc) tracedir = argv[++i];
            else if (a == "--watchdog" && i + 1 < argc) watchdog = std::atoi(argv[++i]);
        }
        {
            char name[64];
            std::snprintf(name, sizeof(name), "/rank%d.out", world.rank());
            g_out = std::fopen((outdir + name).c_str(), "w");
            if (g_out == NULL) { std::fprintf(stderr, "h_c16: cannot write to %s\n", outdir.c_str()); MPI_Abort(MPI_COMM_WORLD, 2); }
        }
        std::signal(SIGALRM, on_alarm);
        std::ifstream in(script.c_str());
        std::string line;
        while (std::getline(in, line)) {
            std::istringstream ss(line);
            std::string tag, id, mode, rspec, ctag;
            int J = 0, G = 0;
            unsigned long long seed = 0, maxus = 0;
            if (!(ss >> tag >> id >> mode >> J >> G >> rspec >> seed >> maxus >> ctag) || tag != "S" || ctag != "C") continue;
            std::vector<int> cx(J, 1);
            for (int j = 0; j < J; j++) ss >> cx[j];
            std::vector<int> rounds;
            { std::istringstream rs(rspec); std::string t; while (std::getline(rs, t, ',')) rounds.push_back(std::atoi(t.c_str())); }
            if (rounds.empty()) rounds.push_back(1);

            std::snprintf(g_scen, sizeof(g_scen), "%s", id.c_str());
            g_round = -1; g_phase = 0;
            if (!tracedir.empty()) {
                std::string d = tracedir + "/" + id;
                ::mkdir(d.c_str(), 0777);
                ::setenv("POMEROL_VERIF_TRACE_DIR", d.c_str(), 1);
            }
            ::setenv("POMEROL_VERIF_DELAY_SEED", std::to_string(seed).c_str(), 1);
            ::setenv("POMEROL_VERIF_DELAY_MAX_US", std::to_string(maxus / 2).c_str(), 1);
            world.barrier();
            if (watchdog > 0) ::alarm((unsigned)watchdog);

            int colour = G >= 1 ? world.rank() % G : 0;
            boost::mpi::communicator comm = G >= 1 ? world.split(colour, world.rank()) : world;
            g_local_rank = comm.rank();
            int R = rounds[std::min<size_t>((size_t)colour, rounds.size() - 1)];
            std::fprintf(g_out, "SCEN %s begin %d %d %d\n", g_scen, comm.rank(), comm.size(), colour);
            std::fflush(g_out);
            for (int r = 0; r < R; r++) {
                g_round = r;
                std::vector<Job> jobs(J);
                std::vector<Wrap> parts;
                for (int j = 0; j < J; j++) {
                    jobs[j].id = j;
                    jobs[j].us = maxus ? int(mix(seed * 1000003ULL + (unsigned long long)r * 1009ULL + (unsigned long long)j) % (maxus + 1)) : 0;
                }
                for (int j = 0; j < J; j++) parts.push_back(Wrap(jobs[j], cx[j]));
                std::map<pMPI::JobId, pMPI::WorkerId> m;
                g_phase = 1;
                try {
                    if (mode == "skel") {
                        pMPI::mpi_skel<Wrap> skel;
                        skel.parts = parts;
                        m = skel.run(comm, false);
                    } else {
                        m = run_noboss(comm, parts, mode == "nobossL");
                    }
                    g_phase = 2;
                    std::string s;
                    for (std::map<pMPI::JobId, pMPI::WorkerId>::const_iterator it = m.begin(); it != m.end(); ++it) {
                        if (!s.empty()) s += ",";
                        s += std::to_string(it->first) + ":" + std::to_string(it->second);
                    }
                    std::fprintf(g_out, "MAP %s %d %s\n", g_scen, r, s.c_str());
                } catch (std::exception& e) {
                    g_phase = 2;
                    std::fprintf(g_out, "THROW %s %d %s\n", g_scen, r, e.what());
                }
                std::fflush(g_out);
            }
            g_phase = 2;
            world.barrier();
            if (watchdog > 0) ::alarm(0);
            std::fprintf(g_out, "SCEN %s end\n", g_scen);
            std::fflush(g_out);
        }
        std::fclose(g_out);
    }
    MPI_Finalize();
    return rc;
}
