// C18 harness, physics part: runs the documented ED chain on scenarios (see ed_common.h) and prints, per scenario,
// everything checks/C18.py needs to compare two copies of one model that differ by site labels, by the order of the
// addSite calls or by the index-ordering mode:
//   scenario <id>
//   <scenario lines of ed_common.h> ...
//   end
// ->
//   M <id> ok <IndexSize>                      | M <id> error <message>
//   B <id> <beta>
//   I <id> <i> <label> <orbital> <spin>          getInfo(i) for every index (labels are plain tokens here)
//   E <id> <ground energy> <n> <eigenvalues, sorted ascending>           (hex floats)
//   O <id> <i> <occupancy n_i>                   DensityMatrix::getAverageOccupancy(i)
//   D <id> <i> <j> <n_i n_j>                     DensityMatrix::getAverageDoubleOccupancy(i,j), i < j
//   A <id> <i> <j> <re> <im>                     EnsembleAverage of QuadraticOperator(i,j) = <c^+_i c_j>
//   G <id> <i> <j> <n> <re> <im>                 GreensFunction(c_i, c^+_j)(n) for the Matsubara numbers listed below, as the
//                                                library computes it (Lehmann terms with |residue| <= 1e-8 are dropped: documented)
//   g <id> <i> <j> <n> <re> <im>                 the same with the two drop thresholds of every GreensFunctionPart set to 0 before
//                                                compute() (MatrixElementTolerance, Terms.is_negligible.Tolerance; private members,
//                                                reachable because harness TUs are compiled with -fno-access-control): no term is
//                                                dropped, so two copies of a model must agree to rounding
//   K <id> <i> <j> <count>                       number of non-zero matrix elements of c_i in the parts of G_ij: an upper bound for the
//                                                number of Lehmann terms, hence 2*count*1e-8/|w_n| bounds what "G" may have dropped
//   Z <id>                                       end of the scenario's output
// The caller must not send a scenario whose index classification is known to be unsafe (null entries): prepare()
// would dereference a null pointer inside this process.  checks/C18.py asks h_c18 (which survives that) first.
#include "ed_common.h"
#include <algorithm>
using namespace Pomerol;

static const long MATS[] = {0, 1, -1, 2, 7, -12};

int main(int argc, char* argv[]) {
    boost::mpi::environment env(argc, argv);
    pv::Quiet quiet;
    std::string line;
    while (std::getline(std::cin, line)) {
        std::istringstream ss(line);
        std::string cmd, id;
        if (!(ss >> cmd)) continue;
        if (cmd != "scenario") continue;
        ss >> id;
        pv::Scenario sc;
        pv::read_scenario(std::cin, sc);
        pv::ED* ed = new pv::ED();
        if (!ed->build(sc)) {
            printf("M %s error %s\nZ %s\n", id.c_str(), ed->error.c_str(), id.c_str());
            fflush(stdout);
            continue;
        }
        try {
            ParticleIndex N = ed->Idx->getIndexSize();
            printf("M %s ok %u\n", id.c_str(), (unsigned)N);
            printf("B %s %s\n", id.c_str(), pv::hexd(ed->rho->beta).c_str());
            for (ParticleIndex i = 0; i < N; ++i) {
                IndexClassification::IndexInfo x = ed->Idx->getInfo(i);
                printf("I %s %u %s %u %u\n", id.c_str(), (unsigned)i, x.SiteLabel.c_str(), (unsigned)x.Orbital, (unsigned)x.Spin);
            }
            RealVectorType ev = ed->H->getEigenValues();
            std::vector<double> e(ev.data(), ev.data() + ev.size());
            std::sort(e.begin(), e.end());
            printf("E %s %s %u", id.c_str(), pv::hexd(ed->H->getGroundEnergy()).c_str(), (unsigned)e.size());
            for (size_t k = 0; k < e.size(); ++k) printf(" %s", pv::hexd(e[k]).c_str());
            printf("\n");
            for (ParticleIndex i = 0; i < N; ++i)
                printf("O %s %u %s\n", id.c_str(), (unsigned)i, pv::hexd(ed->rho->getAverageOccupancy(i)).c_str());
            for (ParticleIndex i = 0; i < N; ++i) for (ParticleIndex j = i + 1; j < N; ++j)
                printf("D %s %u %u %s\n", id.c_str(), (unsigned)i, (unsigned)j,
                       pv::hexd(ed->rho->getAverageDoubleOccupancy(i, j)).c_str());
            for (ParticleIndex i = 0; i < N; ++i) for (ParticleIndex j = 0; j < N; ++j) {
                QuadraticOperator Q(*ed->Idx, *ed->S, *ed->H, i, j);
                Q.prepare(); Q.compute();
                EnsembleAverage EA(*ed->S, *ed->H, Q, *ed->rho);
                EA.prepare();
                printf("A %s %u %u %s\n", id.c_str(), (unsigned)i, (unsigned)j, pv::hexc(EA.getResult()).c_str());
            }
            for (ParticleIndex i = 0; i < N; ++i) for (ParticleIndex j = 0; j < N; ++j) {
                GreensFunction G(*ed->S, *ed->H, ed->Ops->getAnnihilationOperator(i), ed->Ops->getCreationOperator(j), *ed->rho);
                G.prepare(); G.compute();
                for (size_t k = 0; k < sizeof(MATS) / sizeof(MATS[0]); ++k)
                    printf("G %s %u %u %ld %s\n", id.c_str(), (unsigned)i, (unsigned)j, MATS[k], pv::hexc(G(MATS[k])).c_str());
                GreensFunction G0(*ed->S, *ed->H, ed->Ops->getAnnihilationOperator(i), ed->Ops->getCreationOperator(j), *ed->rho);
                G0.prepare();
                unsigned long K = 0;
                for (std::list<GreensFunctionPart*>::iterator p = G0.parts.begin(); p != G0.parts.end(); ++p) {
                    const_cast<RealType&>((*p)->MatrixElementTolerance) = 0.0;
                    (*p)->Terms.is_negligible.Tolerance = 0.0;
                    K += (unsigned long)(*p)->C.getRowMajorValue().nonZeros();
                }
                G0.compute();
                for (size_t k = 0; k < sizeof(MATS) / sizeof(MATS[0]); ++k)
                    printf("g %s %u %u %ld %s\n", id.c_str(), (unsigned)i, (unsigned)j, MATS[k], pv::hexc(G0(MATS[k])).c_str());
                printf("K %s %u %u %lu\n", id.c_str(), (unsigned)i, (unsigned)j, K);
            }
        } catch (std::exception& ex) {
            printf("M %s error exception-after-build: %s\n", id.c_str(), ex.what());
        }
        printf("Z %s\n", id.c_str());
        fflush(stdout);
    }
    return 0;
}
