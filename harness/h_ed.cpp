// h_ed: runs the documented pomerol workflow on a scenario and dumps everything the oracles need.
// Input:  model <scenario lines> end   then query commands (one per line), see below.
// All floating-point output is hex floats; one record per line.
#include "ed_common.h"
#include <typeinfo>
#include <pomerol/TwoParticleGFContainer.h>
using namespace Pomerol;

static pv::ED* ed = 0;
static std::vector<std::string> toks(const std::string& line) {
    std::istringstream ss(line); std::vector<std::string> t; std::string w;
    while (ss >> w) t.push_back(w);
    return t;
}
static long L(const std::string& s) { return atol(s.c_str()); }
static double D(const std::string& s) { return strtod(s.c_str(), 0); }   // accepts hex floats

static void dump_sparse(const char* tag, const char* kind, int idx, const FieldOperatorPart& p) {
    const RowMajorMatrixType& m = p.getRowMajorValue();
    printf("%s %s %d %d %d %ld %ld %ld", tag, kind, idx, int(p.getLeftIndex()), int(p.getRightIndex()), long(m.rows()), long(m.cols()), long(m.nonZeros()));
    for (int r = 0; r < m.outerSize(); ++r)
        for (RowMajorMatrixType::InnerIterator it(m, r); it; ++it)
            printf(" %d %d %s", int(it.row()), int(it.col()), pv::hexm(it.value()).c_str());
    printf("\n");
    // the column-major copy must hold the same entries
    const ColMajorMatrixType& c = p.getColMajorValue();
    RowMajorMatrixType diff = RowMajorMatrixType(c) - m;
    double mx = 0;
    for (int r = 0; r < diff.outerSize(); ++r) for (RowMajorMatrixType::InnerIterator it(diff, r); it; ++it) mx = std::max(mx, std::abs(it.value()));
    if (mx != 0) printf("COLROWDIFF %s %d %d %s\n", kind, idx, int(p.getLeftIndex()), pv::hexd(mx).c_str());
}

static void dump_op(const char* kind, int idx, const FieldOperator& op) {
    const FieldOperator::BlocksBimap& bm = op.getBlockMapping();
    printf("OPMAP %s %d %ld", kind, idx, long(bm.size()));
    for (FieldOperator::BlocksBimap::left_const_iterator it = bm.left.begin(); it != bm.left.end(); ++it)
        printf(" %d %d", int(it->first), int(it->second));
    printf("\n");
    for (FieldOperator::BlocksBimap::left_const_iterator it = bm.left.begin(); it != bm.left.end(); ++it)
        dump_sparse("OPMAT", kind, idx, op.getPartFromLeftIndex(it->first));
}

// OPCOPY <kind> <idx> OK | DIFF <what>: a copy of a computed field operator against the object it was copied from
static void copy_cmp(const char* kind, int idx, const FieldOperator& a, const FieldOperator& b) {
    try {
        if (b.Status != a.Status) { printf("OPCOPY %s %d DIFF status-%d-vs-%d\n", kind, idx, int(b.Status), int(a.Status)); return; }
        const FieldOperator::BlocksBimap& ma = a.getBlockMapping();
        const FieldOperator::BlocksBimap& mb = b.getBlockMapping();
        if (ma.size() != mb.size()) { printf("OPCOPY %s %d DIFF blockmap-size-%ld-vs-%ld\n", kind, idx, long(mb.size()), long(ma.size())); return; }
        FieldOperator::BlocksBimap::left_const_iterator ia = ma.left.begin(), ib = mb.left.begin();
        for (; ia != ma.left.end(); ++ia, ++ib) {
            if (ia->first != ib->first || ia->second != ib->second) { printf("OPCOPY %s %d DIFF blockmap-entry\n", kind, idx); return; }
            RowMajorMatrixType d = b.getPartFromLeftIndex(ia->first).getRowMajorValue() - a.getPartFromLeftIndex(ia->first).getRowMajorValue();
            double mx = 0;
            for (int r = 0; r < d.outerSize(); ++r) for (RowMajorMatrixType::InnerIterator it(d, r); it; ++it) mx = std::max(mx, std::abs(it.value()));
            if (mx != 0) { printf("OPCOPY %s %d DIFF part-left-%d-maxdiff-%s\n", kind, idx, int(ia->first), pv::hexd(mx).c_str()); return; }
        }
        printf("OPCOPY %s %d OK\n", kind, idx);
    } catch (std::exception& ex) {
        printf("OPCOPY %s %d DIFF exception-%s\n", kind, idx, typeid(ex).name());
    }
}

static void dump_model(const std::string& upto) {
    pv::ED& e = *ed;
    if (e.Idx) {
        printf("N %u\n", e.Idx->getIndexSize());
        for (ParticleIndex i = 0; i < e.Idx->getIndexSize(); ++i) {
            IndexClassification::IndexInfo* p = e.Idx->IndicesToInfo[i];
            if (p) printf("INFO %u %s %u %u\n", i, p->SiteLabel.c_str(), unsigned(p->Orbital), unsigned(p->Spin));
            else printf("INFO %u NULL\n", i);
        }
    }
    if (e.Hidx) {
        printf("HPOLY %ld", long(std::distance(e.Hidx->begin(), e.Hidx->end())));
        for (Operator::const_iterator it = e.Hidx->begin(); it != e.Hidx->end(); ++it) {
            printf(" %s %ld", pv::hexm(it->second).c_str(), long(it->first.size()));
            for (size_t k = 0; k < it->first.size(); ++k)
                printf(" %d %u", boost::get<0>(it->first[k]) == Operator::creation ? 1 : 0, boost::get<1>(it->first[k]));
        }
        printf("\n");
    }
    if (e.Symm) printf("NSYM %d\n", e.Symm->NSymmetries);
    if (e.S) {
        int nb = e.S->NumberOfBlocks();
        printf("NBLOCKS %d\n", nb);
        for (int b = 0; b < nb; ++b) {
            const std::vector<FockState>& st = e.S->getFockStates(BlockNumber(b));
            printf("BLOCK %d %ld", b, long(st.size()));
            for (size_t k = 0; k < st.size(); ++k) printf(" %lu", st[k].to_ulong());
            printf("\n");
        }
    }
    if (e.H && upto != "states") {
        int nb = e.S->NumberOfBlocks();
        for (int b = 0; b < nb; ++b) {
            const HamiltonianPart& hp = e.H->getPart(BlockNumber(b));
            const MatrixType& m = hp.getMatrix();
            printf("%s %d %ld", hp.Status >= HamiltonianPart::Computed ? "VEC" : "HBLK", b, long(m.rows()));
            for (int r = 0; r < m.rows(); ++r) for (int c = 0; c < m.cols(); ++c) printf(" %s", pv::hexm(m(r, c)).c_str());
            printf("\n");
            if (hp.Status >= HamiltonianPart::Computed) {
                printf("EIG %d", b);
                for (int k = 0; k < hp.getEigenValues().size(); ++k) printf(" %s", pv::hexd(hp.getEigenValues()[k]).c_str());
                printf("\n");
            }
        }
        if (e.H->Status >= Hamiltonian::Computed) printf("GROUND %s\n", pv::hexd(e.H->getGroundEnergy()).c_str());
    }
    if (e.rho) {
        printf("BETA %s\n", pv::hexd(e.rho->beta).c_str());
        int nb = e.S->NumberOfBlocks();
        for (int b = 0; b < nb; ++b) {
            printf("W %d", b);
            for (size_t k = 0; k < e.S->getBlockSize(BlockNumber(b)); ++k) printf(" %s", pv::hexd(e.rho->getPart(BlockNumber(b)).getWeight(k)).c_str());
            printf("\nRET %d %d\n", b, int(e.rho->isRetained(BlockNumber(b))));
        }
    }
    if (e.Ops) {
        for (ParticleIndex i = 0; i < e.Idx->getIndexSize(); ++i) {
            dump_op("cdag", i, e.Ops->getCreationOperator(i));
            dump_op("c", i, e.Ops->getAnnihilationOperator(i));
        }
    }
}

template <class T> static void dump_terms(const char* tag, int b1, int b2, const T& part) {
    printf("%s %d %d %ld", tag, b1, b2, long(part.Terms.data.size()));
    for (typename std::set<typename T::Term, typename T::Term::Compare>::const_iterator it = part.Terms.data.begin(); it != part.Terms.data.end(); ++it)
        printf(" %s %s", pv::hexc(it->Residue).c_str(), pv::hexd(it->Pole).c_str());
    printf("\n");
}

int main(int argc, char* argv[]) {
    boost::mpi::environment env(argc, argv);
    pv::Quiet quiet;
    std::string line;
    GFContainer* gfc = 0;
    while (std::getline(std::cin, line)) {
        std::vector<std::string> t = toks(line);
        if (t.empty()) continue;
        const std::string& c = t[0];
        try {
        if (c == "model") {
            // model [upto-stage] [hprep]   : "hprep" additionally dumps the blocks before diagonalisation
            pv::Scenario sc;
            pv::read_scenario(std::cin, sc);
            std::string upto = t.size() > 1 ? t[1] : "ops";
            ed = new pv::ED();
            gfc = 0;
            if (t.size() > 2 && t[2] == "hprep") {
                pv::ED pre;
                if (pre.build(sc, "hprep")) { pv::ED* keep = ed; ed = &pre; dump_model("hprep"); ed = keep; }
            }
            bool ok = ed->build(sc, upto);
            if (!ok) printf("ERROR %s\n", ed->error.c_str());
            else { printf("BUILT %s\n", upto.c_str()); dump_model(upto); }
        } else if (c == "gf" || c == "gfc") {
            // gf <i> <j> <nz> {re im}      standalone object / via GFContainer
            int i = L(t[1]), j = L(t[2]); int nz = L(t[3]);
            GreensFunction* g;
            GreensFunction* own = 0;
            if (c == "gf") {
                own = new GreensFunction(*ed->S, *ed->H, ed->Ops->getAnnihilationOperator(i), ed->Ops->getCreationOperator(j), *ed->rho);
                own->prepare(); own->compute(); g = own;
            } else {
                if (!gfc) { gfc = new GFContainer(*ed->Idx, *ed->S, *ed->H, *ed->rho, *ed->Ops); gfc->prepareAll(); gfc->computeAll(); }
                g = &(*gfc)(i, j);
            }
            printf("%s %d %d %d", c == "gf" ? "G" : "GC", i, j, int(g->isVanishing()));
            for (int k = 0; k < nz; ++k) printf(" %s", pv::hexc((*g)(ComplexType(D(t[4 + 2 * k]), D(t[5 + 2 * k])))).c_str());
            printf("\n");
            {
                GreensFunction gcopy(*g);      // a copy of the evaluated object (user-written copy constructor): same layout as G / GC
                printf("%s %d %d %d", c == "gf" ? "GCOPY" : "GCCOPY", i, j, int(gcopy.isVanishing()));
                for (int k = 0; k < nz; ++k) printf(" %s", pv::hexc(gcopy(ComplexType(D(t[4 + 2 * k]), D(t[5 + 2 * k])))).c_str());
                printf("\n");
                // the same copy after prepare(); compute() on it (a copy of a computed object is a computed object: both calls
                // must leave it alone -- a copy that lost its status would build its parts a second time)
                gcopy.prepare(); gcopy.compute();
                printf("%s %d %d %d", c == "gf" ? "GCOPYRUN" : "GCCOPYRUN", i, j, int(gcopy.isVanishing()));
                for (int k = 0; k < nz; ++k) printf(" %s", pv::hexc(gcopy(ComplexType(D(t[4 + 2 * k]), D(t[5 + 2 * k])))).c_str());
                printf("\n");
                if (c == "gf") {
                    // a copy taken BEFORE prepare() and run afterwards (a vector of objects filled first, evaluated later)
                    GreensFunction g0(*ed->S, *ed->H, ed->Ops->getAnnihilationOperator(i), ed->Ops->getCreationOperator(j), *ed->rho);
                    GreensFunction g1(g0);
                    g1.prepare(); g1.compute();
                    printf("GCOPY0 %d %d %d", i, j, int(g1.isVanishing()));
                    for (int k = 0; k < nz; ++k) printf(" %s", pv::hexc(g1(ComplexType(D(t[4 + 2 * k]), D(t[5 + 2 * k])))).c_str());
                    printf("\n");
                }
            }
            delete own;
        } else if (c == "gfn") {
            // gfn <i> <j> <n...>   Matsubara numbers; also prints the frequency the library used
            int i = L(t[1]), j = L(t[2]);
            GreensFunction g(*ed->S, *ed->H, ed->Ops->getAnnihilationOperator(i), ed->Ops->getCreationOperator(j), *ed->rho);
            g.prepare(); g.compute();
            printf("GN %d %d", i, j);
            for (size_t k = 3; k < t.size(); ++k) printf(" %ld %s", L(t[k]), pv::hexc(g(long(L(t[k])))).c_str());
            printf("\n");
        } else if (c == "gftau") {
            int i = L(t[1]), j = L(t[2]);
            GreensFunction g(*ed->S, *ed->H, ed->Ops->getAnnihilationOperator(i), ed->Ops->getCreationOperator(j), *ed->rho);
            g.prepare(); g.compute();
            printf("GTAU %d %d", i, j);
            for (size_t k = 3; k < t.size(); ++k) printf(" %s", pv::hexc(g.of_tau(D(t[k]))).c_str());
            printf("\n");
        } else if (c == "gfterms") {
            int i = L(t[1]), j = L(t[2]);
            GreensFunction g(*ed->S, *ed->H, ed->Ops->getAnnihilationOperator(i), ed->Ops->getCreationOperator(j), *ed->rho);
            g.prepare(); g.compute();
            printf("GFPARTS %d %d %ld\n", i, j, long(g.parts.size()));
            for (std::list<GreensFunctionPart*>::const_iterator it = g.parts.begin(); it != g.parts.end(); ++it)
                dump_terms("GFTERMS", int((*it)->HpartOuter.getBlockNumber()), int((*it)->HpartInner.getBlockNumber()), **it);
        } else if (c == "dm") {
            printf("DM %s %s", pv::hexd(ed->rho->getAverageEnergy()).c_str(), pv::hexd(ed->rho->getAverageOccupancy()).c_str());
            for (ParticleIndex i = 0; i < ed->Idx->getIndexSize(); ++i) printf(" %s", pv::hexd(ed->rho->getAverageOccupancy(i)).c_str());
            printf("\n");
            printf("DOCC");
            for (ParticleIndex i = 0; i < ed->Idx->getIndexSize(); ++i) for (ParticleIndex j = 0; j < ed->Idx->getIndexSize(); ++j)
                printf(" %s", pv::hexd(ed->rho->getAverageDoubleOccupancy(i, j)).c_str());
            printf("\n");
            printf("WSTATE");
            for (unsigned long s = 0; s < ed->S->getNumberOfStates(); ++s) printf(" %s", pv::hexd(ed->rho->getWeight(s)).c_str());
            printf("\n");
            printf("ESTATE");
            for (unsigned long s = 0; s < ed->S->getNumberOfStates(); ++s) printf(" %s", pv::hexd(ed->H->getEigenValue(s)).c_str());
            printf("\n");
            RealVectorType ev = ed->H->getEigenValues();
            printf("EALL");
            for (int k = 0; k < ev.size(); ++k) printf(" %s", pv::hexd(ev[k]).c_str());
            printf("\n");
        } else if (c == "avg") {
            int i = L(t[1]), j = L(t[2]);
            QuadraticOperator A(*ed->Idx, *ed->S, *ed->H, i, j);
            A.prepare(); A.compute();
            EnsembleAverage EA(*ed->S, *ed->H, A, *ed->rho);
            EA.prepare();
            printf("AVG %d %d %s\n", i, j, pv::hexc(EA.getResult()).c_str());
            // the same object prepared again (Susceptibility::subtractDisconnected(EnsembleAverage&, EnsembleAverage&) does that
            // to objects the user may already have evaluated): the result must still be the trace
            EA.prepare();
            printf("AVGAGAIN %d %d %s\n", i, j, pv::hexc(EA.getResult()).c_str());
            // copies of the prepared object (std::vector<EnsembleAverage>::push_back, pass by value): a copy is an EnsembleAverage
            // of the same operator in the same state, so its result must be the trace as well -- read directly, and after a
            // prepare() on a copy of the copy (a no-op on a Prepared object, a full evaluation on one that lost its status)
            {
                EnsembleAverage EC(EA);
                ComplexType direct = EC.getResult();
                EnsembleAverage EC2(EC);
                EC2.prepare();
                printf("AVGCOPY %d %d %s\n", i, j, pv::hexc(direct).c_str());
                printf("AVGCOPY2 %d %d %s\n", i, j, pv::hexc(EC2.getResult()).c_str());
                // a copy taken BEFORE prepare() and prepared afterwards (a vector filled first, evaluated later)
                EnsembleAverage E0(*ed->S, *ed->H, A, *ed->rho);
                EnsembleAverage E1(E0);
                E1.prepare();
                printf("AVGCOPY0 %d %d %s\n", i, j, pv::hexc(E1.getResult()).c_str());
            }
        } else if (c == "quad") {
            int i = L(t[1]), j = L(t[2]);
            QuadraticOperator A(*ed->Idx, *ed->S, *ed->H, i, j);
            A.prepare(); A.compute();
            dump_op("quad", i * 100 + j, A);
            { QuadraticOperator A2(A); copy_cmp("quad", i * 100 + j, A, A2); }
        } else if (c == "opsingle") {
            // operators computed one by one (not through the container)
            int i = L(t[1]);
            CreationOperator cx(*ed->Idx, *ed->S, *ed->H, i); cx.prepare(); cx.compute();
            AnnihilationOperator cc(*ed->Idx, *ed->S, *ed->H, i); cc.prepare(); cc.compute();
            dump_op("cdag1", i, cx);
            dump_op("c1", i, cc);
            // copies of the computed operators (pass by value, std::vector<CreationOperator>): a copy must be the same operator in
            // the same state -- same block map, same stored parts
            { CreationOperator cx2(cx); copy_cmp("cdag1", i, cx, cx2); }
            { AnnihilationOperator cc2(cc); copy_cmp("c1", i, cc, cc2); }
        } else if (c == "susc") {
            // susc <a> <b> <c> <d> <mode> <n...>  A = c^+_a c_b, B = c^+_c c_d;
            // mode 0: no subtraction, 1: subtractDisconnected(), 2: (aveA, aveB) from EnsembleAverage objects, 3: explicit numbers computed from EnsembleAverage
            int a = L(t[1]), b = L(t[2]), cc = L(t[3]), d = L(t[4]), mode = L(t[5]);
            QuadraticOperator A(*ed->Idx, *ed->S, *ed->H, a, b); A.prepare(); A.compute();
            QuadraticOperator B(*ed->Idx, *ed->S, *ed->H, cc, d); B.prepare(); B.compute();
            Susceptibility chi(*ed->S, *ed->H, A, B, *ed->rho);
            chi.prepare(); chi.compute();
            EnsembleAverage EA(*ed->S, *ed->H, A, *ed->rho), EB(*ed->S, *ed->H, B, *ed->rho);
            if (mode == 1) chi.subtractDisconnected();
            else if (mode == 2) chi.subtractDisconnected(EA, EB);
            else if (mode == 3) { EA.prepare(); EB.prepare(); chi.subtractDisconnected(EA.getResult(), EB.getResult()); }
            printf("SUSC %d %d %d %d %d %d", a, b, cc, d, mode, int(chi.isVanishing()));
            for (size_t k = 6; k < t.size(); ++k) printf(" %ld %s", L(t[k]), pv::hexc(chi(long(L(t[k])))).c_str());
            printf("\n");
            {
                // a copy of the evaluated object (user-written copy constructor; std::vector<Susceptibility>, pass by value): the copy is
                // the same susceptibility with the same subtraction, so its values must be the original's -- same layout as SUSC
                Susceptibility chic(chi);
                printf("SUSCCOPY %d %d %d %d %d %d", a, b, cc, d, mode, int(chic.isVanishing()));
                for (size_t k = 6; k < t.size(); ++k) printf(" %ld %s", L(t[k]), pv::hexc(chic(long(L(t[k])))).c_str());
                printf("\n");
            }
            EnsembleAverage EA2(*ed->S, *ed->H, A, *ed->rho), EB2(*ed->S, *ed->H, B, *ed->rho);
            EA2.prepare(); EB2.prepare();
            printf("SUSCAVG %s %s\n", pv::hexc(EA2.getResult()).c_str(), pv::hexc(EB2.getResult()).c_str());
        } else if (c == "susctau") {
            int a = L(t[1]), b = L(t[2]), cc = L(t[3]), d = L(t[4]), mode = L(t[5]);
            QuadraticOperator A(*ed->Idx, *ed->S, *ed->H, a, b); A.prepare(); A.compute();
            QuadraticOperator B(*ed->Idx, *ed->S, *ed->H, cc, d); B.prepare(); B.compute();
            Susceptibility chi(*ed->S, *ed->H, A, B, *ed->rho);
            chi.prepare(); chi.compute();
            if (mode == 1) chi.subtractDisconnected();
            printf("SUSCTAU %d %d %d %d %d", a, b, cc, d, mode);
            for (size_t k = 6; k < t.size(); ++k) printf(" %s", pv::hexc(chi.of_tau(D(t[k]))).c_str());
            printf("\n");
            {
                Susceptibility chic(chi);      // a copy of the evaluated object: same layout as SUSCTAU
                printf("SUSCTAUCOPY %d %d %d %d %d", a, b, cc, d, mode);
                for (size_t k = 6; k < t.size(); ++k) printf(" %s", pv::hexc(chic.of_tau(D(t[k]))).c_str());
                printf("\n");
            }
        } else if (c == "suscterms") {
            int a = L(t[1]), b = L(t[2]), cc = L(t[3]), d = L(t[4]);
            QuadraticOperator A(*ed->Idx, *ed->S, *ed->H, a, b); A.prepare(); A.compute();
            QuadraticOperator B(*ed->Idx, *ed->S, *ed->H, cc, d); B.prepare(); B.compute();
            Susceptibility chi(*ed->S, *ed->H, A, B, *ed->rho);
            chi.prepare(); chi.compute();
            printf("SUSCPARTS %d %d %d %d %ld\n", a, b, cc, d, long(chi.parts.size()));
            for (std::list<SusceptibilityPart*>::const_iterator it = chi.parts.begin(); it != chi.parts.end(); ++it) {
                dump_terms("SUSCTERMS", int((*it)->HpartOuter.getBlockNumber()), int((*it)->HpartInner.getBlockNumber()), **it);
                printf("SUSCZERO %s\n", pv::hexm((*it)->ZeroPoleWeight).c_str());
            }
        } else if (c == "chi") {
            // chi <i> <j> <k> <l> <clear> <nf> {n1 n2 n3}: on-demand values from a non-purged object AND the table
            // returned by compute(clear, freqs) of a second object
            int i = L(t[1]), j = L(t[2]), k = L(t[3]), l = L(t[4]); bool clear = L(t[5]) != 0; int nf = L(t[6]);
            TwoParticleGF x(*ed->S, *ed->H, ed->Ops->getAnnihilationOperator(i), ed->Ops->getAnnihilationOperator(j),
                            ed->Ops->getCreationOperator(k), ed->Ops->getCreationOperator(l), *ed->rho);
            x.prepare(); x.compute();
            TwoParticleGF y(*ed->S, *ed->H, ed->Ops->getAnnihilationOperator(i), ed->Ops->getAnnihilationOperator(j),
                            ed->Ops->getCreationOperator(k), ed->Ops->getCreationOperator(l), *ed->rho);
            y.prepare();
            std::vector<boost::tuple<ComplexType, ComplexType, ComplexType> > fr;
            ComplexType sp = I * M_PI / ed->rho->beta;
            for (int f = 0; f < nf; ++f)
                fr.push_back(boost::make_tuple(sp * RealType(2 * L(t[7 + 3 * f]) + 1), sp * RealType(2 * L(t[8 + 3 * f]) + 1), sp * RealType(2 * L(t[9 + 3 * f]) + 1)));
            std::vector<ComplexType> table = y.compute(clear, fr, ed->comm);
            printf("CHI %d %d %d %d %d %d %ld %ld", i, j, k, l, int(clear), int(x.isVanishing()), long(x.parts.size()), long(table.size()));
            for (int f = 0; f < nf; ++f) {
                printf(" %s", pv::hexc(x(long(L(t[7 + 3 * f])), long(L(t[8 + 3 * f])), long(L(t[9 + 3 * f])))).c_str());
                if (size_t(f) < table.size()) printf(" %s", pv::hexc(table[f]).c_str()); else printf(" - -");
            }
            printf("\n");
        } else if (c == "chiz") {
            // chiz <i> <j> <k> <l> <nz> {z1re z1im z2re z2im z3re z3im}
            int i = L(t[1]), j = L(t[2]), k = L(t[3]), l = L(t[4]); int nz = L(t[5]);
            TwoParticleGF x(*ed->S, *ed->H, ed->Ops->getAnnihilationOperator(i), ed->Ops->getAnnihilationOperator(j),
                            ed->Ops->getCreationOperator(k), ed->Ops->getCreationOperator(l), *ed->rho);
            x.prepare(); x.compute();
            printf("CHIZ %d %d %d %d", i, j, k, l);
            for (int f = 0; f < nz; ++f)
                printf(" %s", pv::hexc(x(ComplexType(D(t[6 + 6 * f]), D(t[7 + 6 * f])), ComplexType(D(t[8 + 6 * f]), D(t[9 + 6 * f])), ComplexType(D(t[10 + 6 * f]), D(t[11 + 6 * f])))).c_str());
            printf("\n");
        } else {
            printf("UNKNOWN %s\n", c.c_str());
        }
        } catch (std::exception& ex) {
            printf("THROWS %s %s\n", c.c_str(), ex.what());
        }
        fflush(stdout);
    }
    return 0;
}
