"""C19 -- Block truncation removes only contributions below the requested tolerance.

Proof: props/Properties_C19.v about PV.Thermal at R: truncate_flag (discarded <-> no weight above eps), the retained
tests of GreensFunction / Susceptibility / TwoParticleGF / EnsembleAverage::prepare (a part is skipped only if ALL its
blocks are discarded), eps = 0 is the identity, |G_trunc - G| <= 2 eps dim/|Im z|, |<A>_trunc - <A>| <= eps dim max|A_nn|.
Tie: correspondence.  Every scenario is run twice through the real library (harness h_ed): untruncated and with
`trunc eps`, eps in {0, 1e-12, 1e-8, 1e-4, 1e-2}, beta in {1, 10, 100}.  The retained flags and the lists of parts created
by the four prepare functions are compared with the extracted model (driver_c09 with TRUNC eps on the dumped weights and
bimaps); the differences of G (Matsubara points and complex off-axis points), <c^+_i c_j>, susceptibility and the
two-particle Green's function between the two runs are compared with the bounds; eps = 0 must reproduce every record
bit for bit.  The norm hypotheses of gf_truncation_bound (row / column sums of |c|^2 <= 1) are checked on the dumped
operator matrices.
Bounds: all machine-checked (Properties_C19.v): susceptibility beta eps F (susc_spec_truncation_bound*), two-particle
Green's function 6 F^2 beta^3 (4/pi^3 + 2/pi^2) eps on fermionic Matsubara frequencies (tpgf_truncation_bound; F = measured
Frobenius norm^2 of the operator matrices, >= dim/2).  Histories of several truncateBlocks calls on one DensityMatrix are
judged like a single call with the last tolerance.
Non-contiguous retained stripes (both tiers, independent of the seed): blocks are numbered by (N, Sz), not by energy, so
the stripes of an operator that touch a retained block need not be neighbours in the order in which the prepare() walks
meet them.  Fixed models (Hubbard dimer at and away from half filling, dimer in a field, asymmetric Anderson dimer, two 3-site chains;
NONCONTIG_MODELS)
at beta in {4, 10, 30} are run untruncated once; eps is then placed between the k-th and (k+1)-th largest block maxima
of the dumped weights (capped at 1e-2) for those k where some Green's function or susceptibility has, in walk order,
the stripe pattern retained .. discarded .. retained (predicted from the untruncated part lists), plus k = 1.  For
these runs ALL G_ij, all <c^+_i c_j>, density / spin-flip susceptibilities and two-particle functions are compared
with the same model and the same bounds; the pattern reached goes into the signature of the case.
"""
import math
import random
import concurrent.futures as cf
import pv
import edlib
import scen
import C09

EPSS = [0.0, 1e-12, 1e-8, 1e-4, 1e-2]
BETAS = [1.0, 10.0, 100.0]
STATS = {"flag_comparisons": 0, "gf_part_lists": 0, "susc_part_lists": 0, "chi_part_counts": 0, "gf_values": 0, "avg_values": 0,
         "susc_values": 0, "chi_values": 0, "bitwise_runs": 0, "norm_rows_checked": 0, "max_gf_ratio_to_bound": 0.0,
         "max_avg_ratio_to_bound": 0.0, "max_susc_ratio_to_bound": 0.0, "max_chi_ratio_to_bound": 0.0, "gf_parts_dropped": 0}


def hexf(x):
    return float(x).hex()


def queries_for(rng, n, beta, quick, allpairs_always=False, ntriples=None, more_susc=False):
    allpairs = [(i, j) for i in range(n) for j in range(n)]
    if quick and n > 2 and not allpairs_always:
        pairs = [(0, 0), (0, 1), (0, 2), (1, 3), (n - 1, n - 1)]
        pairs = [p for p in pairs if p[0] < n and p[1] < n]
        pairs += [allpairs[rng.randrange(len(allpairs))] for _ in range(2)]
        pairs = sorted(set(pairs))
    else:
        pairs = allpairs
    zs = [(0.0, math.pi * (2 * k + 1) / beta) for k in (0, 1, 7, -1)] + [(0.3, 0.2), (-1.1, -0.05), (2.0, 0.01)]
    q = []
    for i, j in pairs:
        q.append("gfterms %d %d" % (i, j))
        q.append("gf %d %d %d %s" % (i, j, len(zs), " ".join("%s %s" % (hexf(a), hexf(b)) for a, b in zs)))
        q.append("quad %d %d" % (i, j))
        q.append("avg %d %d" % (i, j))
    suscs = [(0, 0, 0, 0)]
    chis = [(0, 0, 0, 0)]
    if n >= 2:
        suscs += [(0, 0, 1, 1), (0, 1, 1, 0)]
        chis += [(0, 1, 1, 0)]
    if n >= 4:
        suscs += [(0, 2, 2, 0), (1, 3, 0, 2)]
        chis += [(0, 2, 2, 0), (0, 1, 3, 2)]
    if more_susc:
        # density-density, exchange-like and spin-flip-like pairs of quadratic operators for every mode
        suscs += [(i, i, j, j) for i in range(n) for j in range(i, n)] + [(i, j, j, i) for i in range(n) for j in range(n) if i != j]
        suscs = sorted(set(suscs))
    for a, b, c, d in suscs:
        q.append("quad %d %d" % (a, b))
        q.append("quad %d %d" % (c, d))
        q.append("susc %d %d %d %d 0 0 1 2 -3" % (a, b, c, d))
        q.append("suscterms %d %d %d %d" % (a, b, c, d))
    tr = scen.matsubara_triples(rng, ntriples if ntriples is not None else (3 if quick else 8), span=2)
    for i, j, k, l in chis:
        q.append("chi %d %d %d %d 0 %d %s" % (i, j, k, l, len(tr), " ".join("%d %d %d" % t for t in tr)))
    return q, pairs, zs, suscs, chis, tr


def run_pair(job, rb=None):
    """rb: the untruncated run of the same (text, beta, queries) when the caller already has it"""
    fam, text, n, beta, eps, q = job
    base = text + "beta %s\n" % repr(beta)
    plain = "".join(l + "\n" for l in base.split("\n") if l and not l.startswith("trunc"))   # reference run: truncateBlocks never called
    if rb is None:
        rb = edlib.run(plain, q, oracle=False, timeout=900)
    rt = edlib.run(base + "trunc %s\n" % repr(eps), q, oracle=False, timeout=900)
    rb.scenario, rt.scenario = plain, base + "trunc %s\n" % repr(eps)
    model = (1, [], "")
    if not (rt.error or rt.crash) and rt.dumprec("VEC"):
        mq = []
        for t in q:
            w = t.split()
            if w[0] == "gfterms":
                mq.append("gfparts %s %s" % (w[1], w[2]))
            elif w[0] == "avg":
                mq.append(t)
            elif w[0] == "suscterms":
                mq.append("suscparts %s" % " ".join(w[1:5]))
            elif w[0] == "chi":
                mq.append("chiparts %s" % " ".join(w[1:5]))
        model = C09.run_model(rt, mq, trunc=eps)
    return job, rb, rt, model


# ---- scenarios aimed at retained stripes that are not neighbours in walk order ---------------------------------------
# (name, scenario text, modes).  Dyadic amplitudes.  Block numbers follow the (N, Sz) classification, so at low temperature
# the heavy blocks (ground-state sector and its low-lying neighbours) sit in the middle of the numbering and the walk of
# c_i / c^+_i c_j meets them with discarded stripes in between.
NONCONTIG_MODELS = [
    ("dimer-half-filled", "site A 1 2\nsite B 1 2\naddCoulombS A 1 -0.5\naddCoulombS B 1 -0.5\naddHopping4 A B -1\nsymm default\n", 4),
    ("dimer-doped", "site A 1 2\nsite B 1 2\naddCoulombS A 3 -0.375\naddCoulombS B 3 -0.375\naddHopping4 A B -0.5\nsymm default\n", 4),
    ("dimer-in-field", "site A 1 2\nsite B 1 2\naddCoulombS A 2 -1\naddCoulombS B 2 -1\naddHopping4 A B 0.5\naddMagnetization A 0.25\naddMagnetization B 0.25\nsymm default\n", 4),
    ("anderson-asymmetric", "site A 1 2\nsite B 1 2\naddCoulombS A 2 -1\naddLevel B 0.5\naddHopping4 A B 0.5\nsymm default\n", 4),
    ("chain3-half-filled", "site A 1 2\nsite B 1 2\nsite C 1 2\naddCoulombS A 2 -1\naddCoulombS B 2 -1\naddCoulombS C 2 -1\naddHopping4 A B -1\naddHopping4 B C -1\nsymm default\n", 6),
    ("chain3-doped-in-field", "site A 1 2\nsite B 1 2\nsite C 1 2\naddCoulombS A 2 -0.5\naddCoulombS B 2 -0.5\naddCoulombS C 2 -0.5\naddHopping4 A B 0.5\naddHopping4 B C 0.5\naddMagnetization B 0.25\nsymm default\n", 6),
]
NONCONTIG_BETAS = [4.0, 10.0, 30.0]
HOT_MODELS = [("hot-dimer-U20", "site A 1 2\nsite B 1 2\naddCoulombS A 20 -10\naddCoulombS B 20 -10\naddHopping4 A B 1\n", 4),
              ("hot-atom-U16", "site A 1 2\naddCoulombS A 16 -3\n", 2)]
HOT_BETAS = [0.125, 0.5]
EPS_MAX = 1e-2           # the property quantifies over eps in [0, 1e-2]


def stripe_pattern(stripes, keep):
    """stripes: [(left block, right block)] in walk order; keep: set of retained blocks.
    -> 'R'/'D' string and whether a discarded stripe lies between two retained ones"""
    pat = "".join("R" if (a in keep or b in keep) else "D" for a, b in stripes)
    core = pat.strip("D")
    return pat, "D" in core


def eps_candidates(W):
    """W: {block: [weights]} -> [(k, eps, retained set)]: eps between the k-th and the (k+1)-th largest DISTINCT block
    maximum (geometric mean, capped at EPS_MAX, kept away from both by a factor 1 +- 1e-6), largest first"""
    mx = sorted(((max(w), b) for b, w in W.items()), reverse=True)
    levels = []
    for m, b in mx:
        if levels and m >= levels[-1][0] * (1 - 1e-9):
            levels[-1][1].add(b)
        else:
            levels.append((m, set([b])))
    out, keep = [], set()
    for k in range(len(levels) - 1):
        keep = keep | levels[k][1]
        hi, lo = levels[k][0], levels[k + 1][0]
        eps = min(math.sqrt(hi * lo), EPS_MAX)
        if lo <= 0.0 or not (lo * (1 + 1e-6) < eps < hi * (1 - 1e-6)):
            continue
        out.append((k + 1, eps, set(keep)))
    return out


def run_noncontig_group(group):
    """one model at one temperature: untruncated run, choice of the tolerances from its weights, truncated runs.
    -> [(job, rb, rt, model, info)]"""
    name, text, n, beta, q, maxeps = group
    plain = text + "beta %s\n" % repr(beta)
    rb = edlib.run(plain, q, oracle=False, timeout=900)
    rb.scenario = plain
    if rb.error or rb.crash or not rb.dumprec("W"):
        job = (name, text, n, beta, 0.0, q)
        return [(job, rb, rb, (1, [], ""), {"k": 0, "noncontig": [], "patterns": {}})]
    W = rb.weights()
    gfs = parts_of(rb.impl, "GFPARTS", "GFTERMS", 2)
    sus = parts_of(rb.impl, "SUSCPARTS", "SUSCTERMS", 4)
    chosen = []
    for k, eps, keep in eps_candidates(W):
        hits, pats = [], {}
        for key, stripes in list(gfs.items()) + list(sus.items()):
            pat, nc = stripe_pattern(stripes, keep)
            if nc:
                hits.append(("G" if len(key) == 2 else "susc") + "_" + "".join(key))
                pats[hits[-1]] = pat
        if hits or k == 1:
            chosen.append((k, eps, hits, pats))
    # at most maxeps tolerances: k = 1 and the ones with most operators showing the pattern
    first = [c for c in chosen if c[0] == 1]
    rest = sorted([c for c in chosen if c[0] != 1], key=lambda c: (-len(c[2]), c[0]))
    chosen = sorted((first + rest)[:maxeps])
    out = []
    for k, eps, hits, pats in chosen:
        job = (name, text, n, beta, eps, q)
        _, _, rt, model = run_pair(job, rb)
        out.append((job, rb, rt, model, {"k": k, "noncontig": hits, "patterns": pats}))
    return out


def noncontig_groups(quick):
    rng = random.Random(19)            # fixed: these scenarios do not depend on the seed of the run
    groups = []
    for name, text, n in NONCONTIG_MODELS:
        for beta in NONCONTIG_BETAS:
            q = queries_for(rng, n, beta, True, allpairs_always=True, ntriples=2 if n > 4 else 3, more_susc=(n <= 4))[0]
            if n > 4:
                q = [t for t in q if not t.startswith("chi ") or t.startswith("chi 0 0 0 0") or t.startswith("chi 0 1 1 0")]
            groups.append((name, text, n, beta, q, (3 if n <= 4 else 2) if quick else 5))
    return groups


def parts_of(recs, head, tag, nkey):
    """records 'HEAD k1..kn count' followed by 'TAG outer inner ...' lines -> {key: [(outer, inner)...]}"""
    out, cur = {}, None
    for t in recs:
        if t[0] == head:
            cur = tuple(t[1:1 + nkey])
            out[cur] = []
        elif t[0] == tag and cur is not None:
            out[cur].append((int(t[1]), int(t[2])))
    return out


def check_norms(r):
    """row and column sums of |c|^2 of every dumped block of c / c^+ are <= 1 (hypotheses row_norm_c, row_norm_cx)"""
    worst = 0.0
    for t in r.dump:
        if t[0] == "OPMAT" and t[1] in ("c", "cdag"):
            rows, cols, nnz = int(t[5]), int(t[6]), int(t[7])
            rs, cs = [0.0] * rows, [0.0] * cols
            for k in range(nnz):
                i, j = int(t[8 + 4 * k]), int(t[9 + 4 * k])
                v = float.fromhex(t[10 + 4 * k]) ** 2 + float.fromhex(t[11 + 4 * k]) ** 2
                rs[i] += v
                cs[j] += v
            STATS["norm_rows_checked"] += rows + cols
            worst = max([worst] + rs + cs)
    return worst


def analyse(chk, job, rb, rt, model):
    fam, text, n, beta, eps, q = job
    tag = "family=%s beta=%g eps=%g" % (fam, beta, eps)
    problems, tie = [], []
    for r, nm in ((rb, "untruncated"), (rt, "truncated")):
        if r.crash:
            return [("crash", "%s run crashed (rc %s): %s" % (nm, r.crash[0], r.crash[1][-200:]))], 0
        if r.error:
            return [("error", "%s run threw: %s" % (nm, r.error))], 0
    W, Wb, RET = rt.weights(), rb.weights(), rt.retained()
    nb = len(W)
    dim = sum(len(w) for w in W.values())
    ndisc = sum(1 for b in range(nb) if not RET[b])
    # ---- flags: the property on the implementation's own output, and the model ----
    if W != Wb:
        problems.append(("weights", "truncateBlocks changed the weights"))
    for b in range(nb):
        expect = any(w > eps for w in W[b])
        if bool(RET[b]) != expect:
            if not RET[b]:
                problems.append(("flag", "block %d discarded although it has a state with weight %r > eps = %g" % (b, max(W[b]), eps)))
            else:
                problems.append(("flag-keep", "block %d retained although all its weights are <= eps = %g (max %r)" % (b, eps, max(W[b]))))
            break
    if any(not x for x in rb.retained().values()):
        problems.append(("flag", "a block is flagged discarded although truncateBlocks was never called"))
    rc, mrec, merr = model
    if rc != 0 or not mrec or any(t[0] == "MODEL-ERROR" for t in mrec):
        chk.tie_broken("driver_c09", "%s: rc=%s %s %s" % (tag, rc, [t for t in mrec if t[0] == "MODEL-ERROR"][:2], merr[-200:]))
        mrec = []
    else:
        STATS["flag_comparisons"] += 1
        mret = {int(t[1]): int(t[2]) for t in mrec if t[0] == "MRET"}
        if mret != {b: int(RET[b]) for b in range(nb)}:
            tie.append("retained flags: model %s impl %s" % (mret, RET))
        # parts created by the prepare functions
        gfp = parts_of(rt.impl, "GFPARTS", "GFTERMS", 2)
        for t in mrec:
            if t[0] == "MGFPARTS":
                STATS["gf_part_lists"] += 1
                k = (t[1], t[2])
                ml = [(int(t[4 + 2 * i]), int(t[5 + 2 * i])) for i in range(int(t[3]))] if t[3].lstrip("-").isdigit() else t[3]
                if gfp.get(k) != ml:
                    tie.append("GreensFunction(%s,%s)::prepare created parts %s, model %s" % (k[0], k[1], gfp.get(k), ml))
        sp = parts_of(rt.impl, "SUSCPARTS", "SUSCTERMS", 4)
        for t in mrec:
            if t[0] == "MSUSCPARTS":
                STATS["susc_part_lists"] += 1
                k = tuple(t[1:5])
                ml = [(int(t[6 + 2 * i]), int(t[7 + 2 * i])) for i in range(int(t[5]))] if t[5].lstrip("-").isdigit() else t[5]
                if sp.get(k) != ml:
                    tie.append("Susceptibility%s::prepare created parts %s, model %s" % (k, sp.get(k), ml))
        chin = {tuple(t[1:5]): int(t[7]) for t in rt.impl if t[0] == "CHI"}
        for t in mrec:
            if t[0] == "MCHIPARTS":
                STATS["chi_part_counts"] += 1
                k = tuple(t[1:5])
                if chin.get(k) != int(t[5]):
                    tie.append("TwoParticleGF%s::prepare created %s parts, model %s" % (k, chin.get(k), t[5]))
        mavg = {(t[1], t[2]): t for t in mrec if t[0] == "AVG"}
        for t in rt.get("impl", "AVG"):
            m = mavg.get((t[1], t[2]))
            if m is None or len(m) < 5:
                tie.append("AVG %s %s: model %s" % (t[1], t[2], m))
            else:
                zi, zm = edlib.cx(t, 3), edlib.cx(m, 3)
                if abs(zi - zm) > 1e-12 * max(1.0, abs(zi)):
                    tie.append("EnsembleAverage(%s,%s) under truncation: impl %r model %r" % (t[1], t[2], zi, zm))
    # ---- hypotheses of the G bound ----
    worst = check_norms(rt)
    if worst > 1 + 1e-10:
        chk.tie_broken("row_norm hypothesis", "%s: a row/column of an operator block has sum |c|^2 = %r > 1" % (tag, worst))
    # ---- observable differences against the bounds ----
    fq = [t.split() for t in q]
    zs_by = {(w[1], w[2]): [(float.fromhex(w[4 + 2 * k]), float.fromhex(w[5 + 2 * k])) for k in range(int(w[3]))] for w in fq if w[0] == "gf"}
    gb = {(t[1], t[2]): t for t in rb.get("impl", "G")}
    gfpb = parts_of(rb.impl, "GFPARTS", "GFTERMS", 2)
    gfpt = parts_of(rt.impl, "GFPARTS", "GFTERMS", 2)
    for k in gfpb:
        STATS["gf_parts_dropped"] += len(gfpb[k]) - len(gfpt.get(k, []))
    for t in rt.get("impl", "G"):
        k = (t[1], t[2])
        if k not in gb:
            continue
        vt, vb = edlib.values(t, 4), edlib.values(gb[k], 4)
        for (zr, zi), a, b in zip(zs_by[k], vt, vb):
            STATS["gf_values"] += 1
            bound = 2 * eps * dim / abs(zi)
            d = abs(a - b)
            if bound > 0:
                STATS["max_gf_ratio_to_bound"] = max(STATS["max_gf_ratio_to_bound"], d / bound)
            if C09.isbad(a.real) or C09.isbad(a.imag) or d > bound + 1e-12 * (1 + abs(b)):
                problems.append(("gf-bound", "|G_%s%s,trunc(z) - G(z)| = %.3e at z = %r+%ri exceeds 2 eps dim/|Im z| = %.3e (eps = %g)" % (k[0], k[1], d, zr, zi, bound, eps)))
                break
    ab = {(t[1], t[2]): edlib.cx(t, 3) for t in rb.get("impl", "AVG")}
    maxA = 1.0
    for t in rt.get("impl", "AVG"):
        k = (t[1], t[2])
        if k in ab:
            STATS["avg_values"] += 1
            d = abs(edlib.cx(t, 3) - ab[k])
            bound = eps * dim * maxA
            if bound > 0:
                STATS["max_avg_ratio_to_bound"] = max(STATS["max_avg_ratio_to_bound"], d / bound)
            if d > bound + 1e-13:
                problems.append(("avg-bound", "|<c^+_%s c_%s>_trunc - <c^+ c>| = %.3e exceeds eps dim = %.3e" % (k[0], k[1], d, bound)))
                break
    sb = {tuple(t[1:5]): t for t in rb.get("impl", "SUSC")}
    for t in rt.get("impl", "SUSC"):
        k = tuple(t[1:5])
        if k in sb:
            vt = [edlib.cx(t, 8 + 3 * i) for i in range((len(t) - 7) // 3)]
            vb = [edlib.cx(sb[k], 8 + 3 * i) for i in range((len(sb[k]) - 7) // 3)]
            for a, b in zip(vt, vb):
                STATS["susc_values"] += 1
                d, bound = abs(a - b), beta * eps * dim
                if bound > 0:
                    STATS["max_susc_ratio_to_bound"] = max(STATS["max_susc_ratio_to_bound"], d / bound)
                if C09.isbad(a.real) or d > bound + 1e-12 * (1 + abs(b)):
                    problems.append(("susc-bound", "|chi_%s,trunc - chi| = %.3e exceeds beta eps dim = %.3e" % ("".join(k), d, bound)))
                    break
    cb = {tuple(t[1:5]): t for t in rb.get("impl", "CHI")}
    # theorem tpgf_truncation_bound: 6 F^2 beta^3 (4/pi^3 + 2/pi^2) eps, F >= squared Frobenius norm of each of the four operators
    # (hypothesis `frobenius`).  F is measured on the dumped blocks of every c_i, c^+_i and never taken below dim/2 (its exact
    # value, Tr c^+ c); with F = dim/2 the bound is 0.4975 dim^2 beta^3 eps (tpgf_truncation_bound_half_dim: <= dim^2 beta^3 eps/2)
    f2 = {}
    for t in rt.dump:
        if t[0] == "OPMAT" and t[1] in ("c", "cdag"):
            f2[(t[1], t[2])] = f2.get((t[1], t[2]), 0.0) + sum(float.fromhex(t[10 + 4 * i]) ** 2 + float.fromhex(t[11 + 4 * i]) ** 2 for i in range(int(t[7])))
    frob = max([dim / 2.0] + list(f2.values()))
    STATS["max_frob2_over_half_dim"] = max(STATS.get("max_frob2_over_half_dim", 0.0), max(list(f2.values()) or [0.0]) / (dim / 2.0))
    chi_bound = 6 * frob * frob * (4 / math.pi ** 3 + 2 / math.pi ** 2) * beta ** 3 * eps
    for t in rt.get("impl", "CHI"):
        k = tuple(t[1:5])
        if k in cb:
            vt = [edlib.cx(t, 9 + 4 * i) for i in range((len(t) - 9) // 4)]       # on-demand values (every other pair is the table)
            vb = [edlib.cx(cb[k], 9 + 4 * i) for i in range((len(cb[k]) - 9) // 4)]
            for a, b in zip(vt, vb):
                STATS["chi_values"] += 1
                d, bound = abs(a - b), chi_bound
                if bound > 0:
                    STATS["max_chi_ratio_to_bound"] = max(STATS["max_chi_ratio_to_bound"], d / bound)
                if C09.isbad(a.real) or d > bound + 1e-11 * (1 + abs(b)):
                    problems.append(("chi-bound", "|chi4_%s,trunc - chi4| = %.3e exceeds 6 F^2 (4/pi^3 + 2/pi^2) beta^3 eps = %.3e (F = %.6g, dim = %d; theorem tpgf_truncation_bound)" % ("".join(k), d, bound, frob, dim)))
                    break
    # ---- eps = 0: nothing changes, bit for bit ----
    # Observable records must be identical.  Internal bookkeeping (number of parts, the isVanishing flag) may differ in one
    # situation only: a block whose weights all underflowed to exactly 0.0 is discarded at eps = 0 (0 > 0 is false); it
    # contributes exactly 0 (theorem discarded_at_zero_contributes_nothing), which the value comparison below confirms.
    if eps == 0.0:
        STATS["bitwise_runs"] += 1
        skip = {"G": (3,), "GC": (3,), "SUSC": (6,), "CHI": (6, 7), "GFPARTS": (3,), "SUSCPARTS": (5,)}

        def observable(recs):
            out = []
            for t in recs:
                if t[0] in ("GFTERMS", "SUSCTERMS") and t[3] == "0":
                    continue                      # a part without terms
                if t[0] == "SUSCZERO":
                    continue                      # follows each part; zero for a part without weight (checked through SUSC values)
                out.append([x for i, x in enumerate(t) if i not in skip.get(t[0], ())])
            return out
        ot, ob = observable(rt.impl), observable(rb.impl)
        if ot != ob:
            for x, y in zip(ot, ob):
                if x != y:
                    problems.append(("eps0", "with eps = 0 the record %s differs from the untruncated run: %s vs %s" % (x[0], x[:8], y[:8])))
                    break
            else:
                problems.append(("eps0", "with eps = 0 the run has %d observable records, the untruncated run %d" % (len(ot), len(ob))))
        if ndisc:
            STATS["eps0_blocks_with_all_weights_underflowed"] = STATS.get("eps0_blocks_with_all_weights_underflowed", 0) + ndisc
    if tie and not problems:
        chk.tie_broken("Thermal model vs truncation code", "%s: %s" % (tag, "; ".join(tie[:3])))
    elif tie:
        problems.append(("model", "differs from the proved model: " + "; ".join(tie[:2])))
    return problems, ndisc


def shrink(chk, job, kinds):
    fam, text, n, beta, eps, q = job
    lines = text.strip().split("\n")
    changed = True
    while changed:
        changed = False
        for k in range(len(lines)):
            if lines[k].startswith("site") or lines[k].startswith("symm"):
                continue
            cand = lines[:k] + lines[k + 1:]
            j2 = (fam, "\n".join(cand) + "\n", n, beta, eps, q)
            try:
                _, rb, rt, m = run_pair(j2)
                saved = list(chk.broken)
                pr, _ = analyse(chk, j2, rb, rt, m)
                chk.broken[:] = saved
            except Exception:
                continue
            if any(p[0] in kinds for p in pr):
                lines, changed = cand, True
                break
    # fewer queries: the first query of a kind that shows the problem, with the dumps the model needs for it
    text2 = "\n".join(lines) + "\n"
    want = {"gf-bound": "gf", "avg-bound": "avg", "susc-bound": "susc", "chi-bound": "chi"}
    types = [want[k] for k in PRIORITY if k in kinds and k in want] or ["gf", "avg", "susc", "chi"]
    for ty in types:
        for qq in q:
            w = qq.split()
            if w[0] != ty:
                continue
            if ty == "gf":
                sub = ["gfterms %s %s" % (w[1], w[2]), qq]
            elif ty == "avg":
                sub = ["quad %s %s" % (w[1], w[2]), qq]
            elif ty == "susc":
                sub = ["quad %s %s" % (w[1], w[2]), "quad %s %s" % (w[3], w[4]), qq, "suscterms %s" % " ".join(w[1:5])]
            else:
                sub = [qq]
            try:
                _, rb, rt, m = run_pair((fam, text2, n, beta, eps, sub))
                saved = list(chk.broken)
                pr, _ = analyse(chk, (fam, text2, n, beta, eps, sub), rb, rt, m)
                chk.broken[:] = saved
            except Exception:
                continue
            if any(p[0] in kinds for p in pr):
                return text2, sub
    return text2, q


# (earlier tolerances, final tolerance)
SEQS = [[((1e-2,), 0.0), ((1e-2, 1e-4), 1e-12), ((0.0,), 1e-2)],
        [((1e-2,), 1e-8), ((1e-4,), 0.0), ((1e-12, 1e-2), 1e-4)],
        [((1e-2, 0.0), 1e-4), ((1e-2,), 1e-4), ((1e-4, 1e-2, 1e-4), 1e-8)]]

PRIORITY = ["crash", "error", "weights", "flag", "flag-keep", "eps0", "gf-bound", "avg-bound", "susc-bound", "chi-bound", "model"]


def distributed_slice(chk, quick):
    """Truncation under MPI (harness h_c06 under mpiexec): truncateBlocks is called on every rank -- with its default
    arguments (`truncv`: verbose report) and with verbose = false (`trunc`) --, then G, a directly computed two-particle Green's
    function and a container computation are distributed over P ranks.  Every rank must end with the values of the
    single-rank run of the SAME truncated model (which the main part compares with the untruncated one and the bounds):
    a rank that truncates differently builds other part lists and the distributed job indices no longer mean the same parts."""
    import C06
    h = pv.build_harness("h_c06")
    base = "site A 1 2\nsite B 1 2\naddCoulombS A 2 -1\naddCoulombS B 2 -0.75\naddHopping4 A B 0.5\n"
    fr = "0 0 0 1 -2 1 0 -1 0"
    cmds = "ham\ngf 0 0 0 1 -1\ngf 0 2 0 1\nchi 0 1 0 1 0 3 %s\nchi 0 2 0 2 0 3 %s\nc2 1 0 2 0 1 0 1 0 3 0 3 3 %s\n" % (fr, fr, fr)
    for beta, kw, eps in ([(100, "truncv", "1e-20"), (30, "trunc", "1e-6")] if quick else
                          [(100, "truncv", "1e-20"), (30, "trunc", "1e-6"), (30, "truncv", "1e-6"), (10, "truncv", "1e-4"), (100, "trunc", "1e-12")]):
        model = base + "beta %s\n%s %s\n" % (beta, kw, eps)
        rc, ranks, err = C06.launch(h, 1, cmds, threads=1, timeout=180, model=model)
        ref = C06.parse(ranks[0])
        if rc != 0 or not ref["done"]:
            chk.tie_broken("h_c06 single-rank reference (C19 distributed slice)", "rc=%s %s" % (rc, err))
            continue
        for P in ((2, 3) if quick else (2, 3, 4)):
            rc, ranks, err = C06.launch(h, P, cmds, threads=1, timeout=90, model=model)
            chk.case("mpi trunc %s %s %s %d" % (beta, kw, eps, P), "distributed truncated run P=%d %s beta=%s" % (P, kw, beta), True, None)
            if rc != 0:
                # the single-rank run of this truncated model finished: try once more with a long timeout before concluding
                rc, ranks, err = C06.launch(h, P, cmds, threads=1, timeout=300, model=model)
            if rc != 0:
                chk.violation("distributed-truncation %s P=%d does not finish" % (kw, P),
                              "after truncateBlocks(%s%s) at beta = %s the distributed computation on %d ranks %s (twice; the single-rank run of the same "
                              "truncated model finishes): ranks that truncate differently build different part lists and their collective calls no longer match"
                              % (eps, "" if kw == "truncv" else ", false", beta, P, "does not terminate within 300 s" if rc == 124 else "fails with exit code %s: %s" % (rc, err[-200:])),
                              {"harness": "h_c06", "P": P, "model": model, "commands": cmds, "threads": 1, "rc": rc})
                continue
            for r in sorted(ranks):
                o = C06.parse(ranks[r])
                bad = None
                for k in ref["g"]:
                    if not C06.close(o["g"].get(k, []), ref["g"][k]):
                        bad = "G_%s%s" % k
                for k in ref["chieval"]:
                    if not C06.close(o["chieval"].get(k, []), ref["chieval"][k]):
                        bad = "chi_%s evaluated from its terms" % "".join(k)
                for k in ref["eval"]:
                    if not C06.close(o["eval"].get(k, []), ref["eval"][k]):
                        bad = "container element %s" % "".join(k)
                if r == 0:
                    for k in ref["chitable"]:
                        if not C06.close(o["chitable"].get(k, []), ref["chitable"][k]):
                            bad = "returned table of chi_%s" % "".join(k)
                if bad:
                    chk.violation("distributed-truncation %s P=%d" % (kw, P),
                                  "after truncateBlocks(%s%s) at beta = %s, on %d ranks rank %d obtains a %s that differs from the single-rank run of the same truncated model"
                                  % (eps, "" if kw == "truncv" else ", false", beta, P, r, bad),
                                  {"harness": "h_c06", "P": P, "model": model, "commands": cmds, "threads": 1})
                    break


def run(chk):
    quick = chk.tier == "quick"
    ok, log = chk.prove(["extract/Extract_C09.vo", "extract/Extract_ED.vo", "theories/ThermalExamples.vo"],
                        extra_props=["Properties_C19_source.v"])
    chk.trusted += ["hand-written model coq/theories/Thermal.v: tied by correspondence, and for DensityMatrixPart::truncate (test and flag) and the retention / stripe "
                    "tests of the four prepare() functions by translator/gen_thermal.py (+ translator/cexpr.py): the stripe loops of GreensFunction / Susceptibility / "
                    "EnsembleAverage::prepare are matched statement by statement and their body is executed symbolically (if / else, part creation with its constructor "
                    "arguments, ++iterator, break / continue / return, bool locals) into one walk_step per function (gen_*_step), TwoParticleGF::prepare is matched "
                    "statement by statement against the model's shape; the theorems of Properties_C19_source.v are stated about that output; the rest of the model "
                    "(bimap lookups, getLeftIndex / getRightIndex, what the part constructors do with their arguments) by correspondence only",
                    "extraction: ExtrOcamlBasic, ExtrOcamlNatInt, ExtrOCamlFloats; ocaml/driver_c09.ml; harness/h_ed.cpp + ed_common.h; tools/edlib.py, tools/scen.py"]
    chk.assume += ["floating-point rounding is outside the theorems; slack 1e-12 (1+|value|) on top of each bound",
                   "hypotheses row_norm_c / row_norm_cx of gf_truncation_bound are checked numerically on the dumped operator blocks of every run (they are consequences of C10: the blocks are sub-matrices of c, c^+ in an orthonormal basis)",
                   "bounds for the susceptibility (beta eps dim: theorems susc_truncation_bound, susc_spec_truncation_bound_matsubara) and the two-particle Green's function (6 F^2 (4/pi^3 + 2/pi^2) beta^3 eps at fermionic Matsubara triples, F = dim/2: theorem tpgf_truncation_bound) are machine-checked about the full-space specification EDSpec.chi / EDSpec.susc with the chains of discarded blocks masked out (PV.TruncBounds); that the library's values ARE that specification is C02 / C12, not re-established here; the hypothesis `frobenius` (sum of |entry|^2 of each c_i, c^+_i <= dim/2) is measured on the dumped operator blocks of every run and the measured value used in the bound",
                   "the terms dropped inside a part by the library's own 1e-8 residue threshold are the same in both runs (weights are not changed by truncation: checked)"]
    edlib.binaries("real")
    pv.build_driver("driver_c09", ["C09_model"], floats=True)
    jobs = []
    reps = 1 if quick else 3
    for gen, symm in C09.families():
        for _ in range(reps):
            fam, text, n, info = gen(chk.rng, symm)
            text = C09.strip_beta(text)
            for beta in BETAS:
                q = queries_for(chk.rng, n, beta, quick)[0]
                for eps in EPSS:
                    jobs.append((fam, text, n, beta, eps, q))
                # histories: truncateBlocks called several times on one DensityMatrix (coarse tolerances first, then a finer
                # one, or the other way round).  `trunc` lines inside the scenario text are executed in order before the
                # final `trunc eps`; what must hold afterwards is exactly what holds after a single truncateBlocks(eps)
                # (the run is compared with the untruncated one and with the model of a single call)
                for pre, eps in SEQS[(len(jobs) // len(EPSS)) % len(SEQS)] if not quick else SEQS[(len(jobs) // len(EPSS)) % len(SEQS)][:2]:
                    jobs.append((fam + "+history", text + "".join("trunc %s\n" % repr(e) for e in pre), n, beta, eps, q))
    # high temperature, wide gaps (beta < 1, excitation energies above -log(eps)): the weights of the excited blocks,
    # exp(-beta (E - E_0)) / Z, stay far above eps although E - E_0 itself is large -- a cut that looks at energies without
    # the factor beta discards blocks that must be retained
    for name, text, n in HOT_MODELS:
        for beta in HOT_BETAS:
            q = queries_for(chk.rng, n, beta, quick)[0]
            for eps in ((1e-2, 1e-4) if quick else (1e-2, 1e-3, 1e-4, 1e-8)):
                jobs.append((name, text, n, beta, eps, q))
    groups = noncontig_groups(quick)
    with cf.ThreadPoolExecutor(max_workers=min(8, pv.NPROC)) as ex:
        fut = [ex.submit(run_noncontig_group, g) for g in groups]      # the longest jobs (6 modes, all pairs) first
        results = list(ex.map(run_pair, jobs))
        nc_results = [x for f in fut for x in f.result()]
    state = {"nviol": 0}

    def judge(job, rb, rt, model, info=None):
        fam, text, n, beta, eps, q = job
        problems, ndisc = analyse(chk, job, rb, rt, model)
        nb = len(rt.weights()) if not (rt.error or rt.crash) else 0
        disc = "0" if ndisc == 0 else ("all-but-1" if ndisc == nb - 1 else ("most" if 2 * ndisc > nb else "some"))
        if info is None:
            sig = "%s beta=1e%+d eps=%g discarded=%s" % (fam, round(math.log10(beta)), eps, disc)
            sample = {"family": fam, "beta": beta, "eps": eps, "blocks": nb, "discarded": ndisc}
        else:
            kinds_nc = sorted(set(h.split("_")[0] for h in info["noncontig"]))
            sig = "noncontig %s beta=%g k=%d discarded=%s pattern=%s" % (fam, beta, info["k"], disc, "+".join(kinds_nc) if kinds_nc else "contiguous")
            sample = {"family": fam, "beta": beta, "eps": eps, "blocks": nb, "discarded": ndisc, "retained_levels_k": info["k"],
                      "operators_with_R..D..R_stripes": info["noncontig"][:12], "patterns": dict(list(info["patterns"].items())[:4])}
            STATS["noncontig_runs"] = STATS.get("noncontig_runs", 0) + 1
            if info["noncontig"]:
                STATS["noncontig_runs_with_pattern"] = STATS.get("noncontig_runs_with_pattern", 0) + 1
                STATS["noncontig_operator_instances"] = STATS.get("noncontig_operator_instances", 0) + len(info["noncontig"])
        keep_sample = ndisc > 0 and (len(chk.samples) < 6 if info is None else (bool(info["noncontig"]) and state.get("ncs", 0) < 3))
        if keep_sample and info is not None:
            state["ncs"] = state.get("ncs", 0) + 1
        chk.case(rt.scenario + "|" + ";".join(q), sig, nontrivial=ndisc > 0 or eps == 0.0, sample=sample if keep_sample else None)
        if problems and state["nviol"] < 3:
            state["nviol"] += 1
            kinds = set(p[0] for p in problems)
            small, subq = shrink(chk, job, kinds)
            kind0 = [k for k in PRIORITY if k in kinds][0]
            key = "%s beta=%g eps=%g %s | %s" % (kind0, beta, eps, fam, small.replace("\n", ";"))
            chk.violation(key, "block truncation (%s, beta=%g, eps=%r; scenario: %s): %s" % (fam, beta, eps, small.strip().replace("\n", "; "), "; ".join(p[1] for p in problems[:2])),
                          {"scenario": small + "beta %s\n" % repr(beta), "eps": eps, "queries": subq, "family": fam, "beta": beta,
                           "problems": problems, "harness": "h_ed (run with and without the line `trunc eps`)"})

    # the fixed scenarios first: their violations name a small hand-picked model
    for job, rb, rt, model, info in nc_results:
        judge(job, rb, rt, model, info)
    for job, rb, rt, model in results:
        judge(job, rb, rt, model)
    distributed_slice(chk, quick)
    chk.rule = ("one random instance per family of tools/scen.py (9 families; 3 in the thorough tier) at beta in {1, 10, 100}, each run untruncated and with "
                "trunc eps for eps in {0, 1e-12, 1e-8, 1e-4, 1e-2}; per run G at 4 Matsubara and 3 complex off-axis points and <c^+_i c_j> for a sample of "
                "index pairs (all pairs for 2 modes and in the thorough tier), 1-5 susceptibilities at 4 bosonic frequencies, 1-4 two-particle Green's "
                "functions at resonance-aimed frequency triples; distinct = distinct (scenario, queries); non-trivial = at least one block discarded, or eps = 0.  "
                "In addition, independent of the seed: %d fixed models (%s) at beta in {4, 10, 30}, eps placed between consecutive distinct block maxima of the "
                "dumped weights (<= 1e-2; k = 1 and the k for which some G_ij / susceptibility has the stripe pattern retained..discarded..retained in walk "
                "order; at most %s per model and temperature), ALL G_ij and <c^+_i c_j>, density and exchange susceptibilities, 2-4 two-particle functions"
                % (len(NONCONTIG_MODELS), ", ".join(m[0] for m in NONCONTIG_MODELS), "3 (2 for six modes)" if quick else "5"))
    chk.extra["runs"] = len(jobs) + len(nc_results)
    chk.extra["comparisons"] = dict(STATS)


def replay(chk, path):
    import json
    rp = json.load(open(path))
    rep = rp.get("replay")
    if not isinstance(rep, dict) or "scenario" not in rep:
        run(chk)
        return chk.finish()
    chk.prove(["extract/Extract_C09.vo", "extract/Extract_ED.vo"], extra_props=["Properties_C19_source.v"])
    edlib.binaries("real")
    text = "\n".join(l for l in rep["scenario"].strip().split("\n") if not l.startswith("beta")) + "\n"   # keeps the `trunc` history lines
    r0 = edlib.run(rep["scenario"], [], oracle=False)
    job = (rep["family"], text, r0.n(), rep["beta"], rep["eps"], rep["queries"])
    _, rb, rt, m = run_pair(job)
    problems, nd = analyse(chk, job, rb, rt, m)
    chk.case(rep["scenario"], "replay", True, sample={"problems": problems})
    if problems:
        chk.violation(rp["key"], rp["what"], rep)
    return chk.finish()


def setup():
    edlib.binaries("real")
    pv.build_driver("driver_c09", ["C09_model"], floats=True)
