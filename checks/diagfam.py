"""Non-linear diagonal candidate integrals of motion for C07 / C08, and models in which they commute with H.

A diagonal operator is a polynomial in the occupation numbers n_i; with n_i^2 = n_i it has a unique multilinear form
{frozenset of indices: coefficient}.  Under c^+_i such an operator changes by d_i f = (sum of the monomials containing i, with n_i
removed): a state-independent amount for every i  <=>  no monomial of degree >= 2 survives the reduction  (`uniform`).  The family
below is aimed at the boundaries of acceptance tests: operators whose increments are state-dependent only in the middle of the Fock
space (equal at the vacuum and at the filled state, or on all states with <= 1 / <= 2 particles, or with <= 1 / <= 2 holes),
products of two and three linear forms with coefficients of both signs, squares, projectors, and products that are linear in
disguise (those must be ACCEPTED).  All coefficients are small dyadic rationals.
"""
import itertools
from fractions import Fraction

F = Fraction


# ---------------------------------------------------------------------------------------------------------
# multilinear polynomials in the n_i

def lin(coefs, c0=0):
    """c0 + sum_i coefs[i] n_i   (coefs: dict or list of (index, coefficient))"""
    d = {}
    if c0:
        d[frozenset()] = F(c0)
    for i, c in (coefs.items() if isinstance(coefs, dict) else coefs):
        if c:
            d[frozenset([i])] = d.get(frozenset([i]), 0) + F(c)
    return {k: v for k, v in d.items() if v != 0}


def add(a, b, cb=1):
    r = dict(a)
    for k, v in b.items():
        r[k] = r.get(k, 0) + cb * v
    return {k: v for k, v in r.items() if v != 0}


def scale(a, c):
    return {k: v * F(c) for k, v in a.items() if v * c != 0}


def mul(*fs):
    r = {frozenset(): F(1)}
    for f in fs:
        t = {}
        for k1, v1 in r.items():
            for k2, v2 in f.items():
                k = k1 | k2
                t[k] = t.get(k, 0) + v1 * v2
        r = {k: v for k, v in t.items() if v != 0}
    return r


def value(f, s):
    """value on the Fock state with bit pattern s"""
    return sum(v for k, v in f.items() if all((s >> i) & 1 for i in k))


def degree(f):
    return max([len(k) for k in f] or [0])


def uniform(f):
    """every c^+_i changes f by a state-independent amount"""
    return degree(f) <= 1


def ends_agree(f, n):
    """the increment under c^+_i at the vacuum equals the increment at the filled state, for every i (necessary, not sufficient)"""
    full = (1 << n) - 1
    return all(value(f, 1 << i) - value(f, 0) == value(f, full) - value(f, full ^ (1 << i)) for i in range(n))


def to_poly(f):
    """[(coef, [(dag, idx), ...])] in the scenario language: monomial n_a n_b ... written c^+_a c_a c^+_b c_b ..., indices ascending"""
    out = []
    for k in sorted(f, key=lambda k: (len(k), sorted(k))):
        m = []
        for i in sorted(k):
            m += [(1, i), (0, i)]
        out.append((F(f[k]), m))
    return out


def from_poly(poly):
    """multilinear form of a polynomial whose monomials are products of n_i = c^+_i c_i (None when it is not of that shape)"""
    f = {}
    for (c, m) in poly:
        m = list(m)
        if len(m) % 2:
            return None
        k = set()
        for p in range(0, len(m), 2):
            if not (m[p][0] == 1 and m[p + 1][0] == 0 and m[p][1] == m[p + 1][1]):
                return None
            k.add(m[p][1])
        k = frozenset(k)
        f[k] = f.get(k, 0) + F(c)
    return {k: v for k, v in f.items() if v != 0}


# ---------------------------------------------------------------------------------------------------------
# the family

def forms(info):
    """named linear forms of a lattice; info[i] = (label, orbital, spin) of global index i"""
    n = len(info)
    labels = sorted(set(l for (l, _, _) in info))
    two = all(sp in (0, 1) for (_, _, sp) in info)
    fm = {"N": lin([(i, 1) for i in range(n)])}
    for l in labels:
        fm["N_" + l] = lin([(i, 1) for i in range(n) if info[i][0] == l])
    for sp in sorted(set(sp for (_, _, sp) in info)):
        fm["Nspin%d" % sp] = lin([(i, 1) for i in range(n) if info[i][2] == sp])
    if two:
        fm["2Sz"] = lin([(i, 1 if info[i][2] == 1 else -1) for i in range(n)])
    for l in labels:
        sps = set(info[i][2] for i in range(n) if info[i][0] == l)
        if sps == {0, 1}:
            fm["2Sz_" + l] = lin([(i, 1 if info[i][2] == 1 else -1) for i in range(n) if info[i][0] == l])
    return fm


def family(rng, info, count=None):
    """list of (name, multilinear form) of candidates for the lattice `info`; deterministic members first, then random products.
    With count: a random selection of that many (all kinds equally likely, so the rare shapes are reached)."""
    n = len(info)
    fm = forms(info)
    labels = sorted(set(l for (l, _, _) in info))
    N = fm["N"]
    out = []
    szl = [l for l in labels if "2Sz_" + l in fm]
    # --- products of two linear forms with both signs
    for a, b in itertools.combinations(szl, 2):
        out.append(("4Sz_%s*Sz_%s" % (a, b), mul(fm["2Sz_" + a], fm["2Sz_" + b])))
        out.append(("N+4Sz_%s*Sz_%s" % (a, b), add(N, mul(fm["2Sz_" + a], fm["2Sz_" + b]))))
    for a, b in itertools.combinations(labels, 2):
        d = add(fm["N_" + a], fm["N_" + b], -1)
        if "2Sz" in fm:
            out.append(("(N_%s-N_%s)*2Sz" % (a, b), mul(d, fm["2Sz"])))
        for l in szl:
            if l not in (a, b) or len(labels) == 2:
                out.append(("(N_%s-N_%s)*2Sz_%s" % (a, b, l), mul(d, fm["2Sz_" + l])))
        out.append(("(N_%s-N_%s)^2" % (a, b), mul(d, d)))
        out.append(("N_%s*N_%s" % (a, b), mul(fm["N_" + a], fm["N_" + b])))
    if "2Sz" in fm:
        out.append(("N*2Sz", mul(N, fm["2Sz"])))
        out.append(("(N-%d)*2Sz" % (n // 2), mul(add(N, lin([], n // 2), -1), fm["2Sz"])))
        out.append(("(2Sz)^2", mul(fm["2Sz"], fm["2Sz"])))
        if "Nspin0" in fm and "Nspin1" in fm:
            out.append(("Nup*Ndn", mul(fm["Nspin0"], fm["Nspin1"])))
    for l in szl:
        out.append(("(2Sz_%s)^2" % l, mul(fm["2Sz_" + l], fm["2Sz_" + l])))         # = N_l - 2 d_l on a one-orbital site
    if n >= 4:
        idx = list(range(n))
        rng.shuffle(idx)
        a, b, c, d = idx[:4]
        out.append(("(n-n)*(n-n)", mul(lin([(a, 1), (b, -1)]), lin([(c, 1), (d, -1)]))))
        out.append(("(n-n)*(n-n)+linear", add(mul(lin([(a, 1), (b, -1)]), lin([(c, 1), (d, -1)])), lin([(i, rng.choice([-1, F(1, 2), 1, 2])) for i in range(n)]))))
        out.append(("(n+n)*(n-n)", mul(lin([(a, 1), (b, 1)]), lin([(c, 1), (d, -1)]))))
    if n >= 3:
        a, b, c = rng.sample(range(n), 3)
        out.append(("n*(n-n)", mul(lin([(a, 1)]), lin([(b, 1), (c, -1)]))))
    if n >= 2:
        a, b = rng.sample(range(n), 2)
        out.append(("(n-n)^2", mul(lin([(a, 1), (b, -1)]), lin([(a, 1), (b, -1)]))))      # = n_a + n_b - 2 n_a n_b
        out.append(("(1-n)*(1-n)", mul(lin([(a, -1)], 1), lin([(b, -1)], 1))))
        out.append(("n*(1-n')", mul(lin([(a, 1)]), lin([(b, -1)], 1))))
    # --- squares and polynomials of N
    out.append(("(N-1)^2", mul(add(N, lin([], 1), -1), add(N, lin([], 1), -1))))
    out.append(("(N-n/2)^2", mul(add(N, lin([], F(n, 2)), -1), add(N, lin([], F(n, 2)), -1))))
    out.append(("N(N-1)/2", scale(mul(N, add(N, lin([], 1), -1)), F(1, 2))))
    if n >= 3:
        out.append(("N(N-1)(N-2)", mul(N, add(N, lin([], 1), -1), add(N, lin([], 2), -1))))     # vanishes on <= 2 particles
        out.append(("holes(h-1)(h-2)", mul(*[add(lin([], n - k), N, -1) for k in range(3)])))  # vanishes on <= 2 holes
    # --- products of three
    if n >= 3:
        a, b, c = sorted(rng.sample(range(n), 3))
        out.append(("n*n*n", mul(lin([(a, 1)]), lin([(b, 1)]), lin([(c, 1)]))))
        out.append(("n*n*(1-n)", mul(lin([(a, 1)]), lin([(b, 1)]), lin([(c, -1)], 1))))
    if n >= 6:
        idx = list(range(n))
        rng.shuffle(idx)
        out.append(("(n-n)*(n-n)*(n-n)", mul(*[lin([(idx[2 * k], 1), (idx[2 * k + 1], -1)]) for k in range(3)])))
    if n >= 5:
        idx = list(range(n))
        rng.shuffle(idx)
        out.append(("(n-n)*(n-n)*n", mul(lin([(idx[0], 1), (idx[1], -1)]), lin([(idx[2], 1), (idx[3], -1)]), lin([(idx[4], 1)]))))
    if len(szl) >= 3:
        out.append(("8Sz*Sz*Sz", mul(*[fm["2Sz_" + l] for l in szl[:3]])))
    if len(szl) >= 2 and len(labels) >= 2:
        out.append(("4Sz*Sz*(N-%d)" % (n // 2), mul(fm["2Sz_" + szl[0]], fm["2Sz_" + szl[1]], add(N, lin([], n // 2), -1))))
    # --- projectors
    if n >= 2:
        out.append(("filled-projector", mul(*[lin([(i, 1)]) for i in range(n)])))
        out.append(("vacuum-projector", mul(*[lin([(i, -1)], 1) for i in range(n)])))
        out.append(("parity", mul(*[lin([(i, -2)], 1) for i in range(n)])))
        out.append(("filled+vacuum", add(mul(*[lin([(i, 1)]) for i in range(n)]), mul(*[lin([(i, -1)], 1) for i in range(n)]))))
    # --- random products of two / three linear forms, both signs; `balanced`: disjoint supports with vanishing coefficient sums (the
    #     non-linear part then vanishes at the vacuum and at the filled state)
    cs = [-2, -1, -1, F(-1, 2), F(1, 2), 1, 1, 2]
    for k in (2, 2, 3):
        ls = [lin([(i, rng.choice(cs)) for i in range(n) if rng.random() < 0.6], rng.choice([0, 0, 0, 1, -1, F(1, 2)])) for _ in range(k)]
        if all(ls):
            out.append(("lin*lin" if k == 2 else "lin*lin*lin", mul(*ls)))
    if n >= 4:
        idx = list(range(n))
        rng.shuffle(idx)
        cut = rng.randint(2, n - 2)
        parts = [idx[:cut], idx[cut:]]
        ls = []
        for p in parts:
            p = p[:rng.choice([2, len(p)])]
            c = [rng.choice([1, 1, 2, F(1, 2)]) for _ in p[:-1]]
            ls.append(lin(list(zip(p, c + [-sum(c)]))))
        out.append(("balanced lin*lin", mul(*ls)))
        out.append(("balanced lin*lin+N", add(mul(*ls), N)))
    # --- linear in disguise: must be accepted wherever they commute with H
    if n >= 2:
        a, b = rng.sample(range(n), 2)
        out.append(("disguised n*(n+1)", mul(lin([(a, 1)]), lin([(a, 1)], 1))))                 # = 2 n_a
        out.append(("disguised nn-(nn-N)", add(add(mul(lin([(a, 1)]), lin([(b, 1)])), mul(lin([(b, 1)]), lin([(a, 1)])), -1), N)))
    out = [(nm, f) for (nm, f) in out if f]
    if count is None:
        return out
    return [rng.choice(out) for _ in range(count)]


# ---------------------------------------------------------------------------------------------------------
# models in which (some of) these commute with H.  Lines of the scenario language for given sites [(label, orbitals, spins)].

DY = [F(k, 4) for k in (-8, -6, -4, -3, -2, -1, 1, 2, 3, 4, 6, 8)]


def fs(x):
    x = F(x)
    return str(x.numerator) if x.denominator == 1 else repr(float(x))


def commuting_model(rng, kind=None, max_modes=6):
    """(kind, sites, lines): a Hamiltonian that leaves many non-linear diagonal operators conserved
       diagonal   : levels, on-site U (one orbital), magnetization, S^z S^z, density-density -- every diagonal operator commutes
       exchange   : one-orbital 2-spin sites coupled by Heisenberg exchange (addSS) on some bonds, no hopping
       decoupled  : a hopping cluster plus a decoupled site
       hopping    : spin-conserving hopping between all sites (functions of N_up, N_down commute)"""
    kind = kind or rng.choice(["diagonal", "diagonal", "exchange", "exchange", "exchange", "decoupled", "hopping"])
    labels = ["A", "B", "C"]
    lines = []
    if kind == "diagonal":
        while True:
            ns = rng.choice([1, 2, 2, 3])
            sites = [(labels[k], rng.choice([1, 1, 2]), rng.choice([1, 2, 2])) for k in range(ns)]
            if 2 <= sum(o * s for (_, o, s) in sites) <= max_modes:
                break
    elif kind == "hopping":
        sites = [(labels[k], 1, 2) for k in range(2 if max_modes < 6 else rng.choice([2, 2, 3]))]
    else:
        sites = [(labels[k], 1, 2) for k in range(2 if max_modes < 6 else rng.choice([2, 2, 3]))]
        if kind == "decoupled" and len(sites) == 2 and rng.random() < 0.5 and max_modes >= 5:
            sites.append(("C", 1, 1))
    for (l, o, s) in sites:
        r = rng.random()
        if s == 2 and o == 1 and r < 0.6:
            lines.append("addCoulombS %s %s %s" % (l, fs(rng.choice([1, 2, 4])), fs(rng.choice(DY))))
        elif r < 0.85:
            lines.append("addLevel %s %s" % (l, fs(rng.choice(DY))))
        if s == 2 and rng.random() < 0.3:
            lines.append("addMagnetization %s %s" % (l, fs(rng.choice([F(1, 4), F(-1, 2), F(1, 2)]))))
    two = [x for x in sites if x[2] == 2 and x[1] == 1]
    bonds = list(itertools.combinations([x[0] for x in two], 2))
    if kind == "diagonal":
        for (a, b) in bonds:
            if rng.random() < 0.5:
                lines.append("addSzSz %s %s %s" % (a, b, fs(rng.choice([F(1, 2), 1, -1]))))
        modes = [(l, orb, sp) for (l, o, s) in sites for orb in range(o) for sp in range(s)]
        for _ in range(rng.randint(0, 2)):
            a, b = rng.sample(modes, 2)
            lines.append("term 4 %s 1 %s %d %d 1 %s %d %d 0 %s %d %d 0 %s %d %d" % ((fs(rng.choice(DY)),) + a + b + b + a))
    elif kind == "exchange":
        rng.shuffle(bonds)
        for (a, b) in bonds[:rng.choice([1, 1, 2, 3])]:
            lines.append("addSS %s %s %s" % (a, b, fs(rng.choice([F(1, 2), 1, -1, F(-1, 2)]))))
            if rng.random() < 0.3:
                lines.append("addSzSz %s %s %s" % (a, b, fs(rng.choice([F(1, 2), -1]))))
    elif kind == "decoupled":
        if len(two) >= 3 or (len(two) == 2 and len(sites) == 3):
            lines.append("addHopping4 %s %s %s" % (two[0][0], two[1][0], fs(rng.choice([F(1, 2), 1, F(-1, 4)]))))
        if len(two) >= 3 and rng.random() < 0.5:
            lines.append("addSzSz %s %s %s" % (two[0][0], two[2][0], fs(rng.choice([F(1, 2), -1]))))
    elif kind == "hopping":
        for (a, b) in bonds:
            if rng.random() < 0.8 or not any(x.startswith("addHopping4") for x in lines):
                lines.append("addHopping4 %s %s %s" % (a, b, fs(rng.choice([F(1, 2), 1, F(-1, 4)]))))
        if rng.random() < 0.3:
            lines.append("addSS %s %s %s" % (bonds[0] + (fs(rng.choice([F(1, 2), -1])),)))
    return kind, sites, lines


def index_info(sites):
    """global index -> (label, orbital, spin) for order_spins = 0"""
    return [(l, orb, sp) for (l, o, s) in sorted(sites) for orb in range(o) for sp in range(s)]
