"""C20 -- Lattice input is validated and looked up faithfully.

Proof: props/Properties_C20.v (28 statements about the state-machine model PV.Lattice, whose term factories are
regenerated from src/pomerol/LatticePresets.cpp by translator/gen_c20.py on every run).

Tie and decision, on every run:
  (a) translator (factory arrays, guards, default arguments, enum spin);
  (b) correspondence: histories of addSite / addTerm / factory-term / preset / getSite / getTerms / maxOrder / copy
      calls (a fixed corpus of directed histories, a mostly-valid random stream, a malformed random stream) are run
      through harness/h_c20.cpp (real library) and through the extracted model in all four variants
      (fix_getsite x fix_shapecheck); outputs are canonicalised and compared exactly.  This decides WHICH variant
      the library is -- it is never assumed;
  (c) judgement: every observed call of the implementation is judged against the property, clause by clause, by
      the extracted specification PV.Lattice.judge (clauses 1-9; judge_sound: the repaired model passes all of
      them at every call of every history) and, for the look-up calls, by comparison with the history itself
      (getSite = last addSite under that label / exception; getTerms n = the terms observed to be accepted with
      order n, in that order; copy = same dump, originals untouched).
A VIOLATION is raised only by a failed clause of (c) -- never by a mere difference between model and code.  Failures
that the model reproduces with exactly one repair flag off are reported once per flag, keyed by the first failing
corpus witness (these are the witnesses of the ..._refuted theorems); anything else is shrunk (drop calls, then
simplify arguments, while the same clause keeps failing) and keyed by the minimal history.
If the code differs from every model variant but passes every clause, the run ends without alarm, the evidence
says that the proof no longer applies to the code (level "testing").
"""
import json
import re
from fractions import Fraction

import pv

CLAUSE = {
    "1": "exception-but-lattice-changed", "2": "invalid-term-stored", "3": "invalid-term-not-rejected",
    "4": "valid-term-rejected", "5": "accepted-term-not-stored-exactly", "6": "zero-amplitude-term-stored",
    "7": "undefined-factory-arguments-accepted", "8": "undefined-preset-combination-accepted",
    "9": "defined-preset-combination-rejected",
    "G1": "getSite-known-label-fails", "G2": "getSite-unknown-label-no-exception",
    "T1": "getTerms-differs-from-accepted-terms", "T2": "maxOrder-wrong", "K1": "copy-differs",
    "K2": "original-changed-through-copy", "S1": "addSite-wrong-effect", "S2": "site-map-changed-by-term-call",
    "N1": "storage-changed-other-than-by-append", "D1": "dump-inconsistent-with-history", "X": "harness-crash",
    "U": "unknown-command-or-garbled-output",
}
ORDER = ["1", "2", "3", "4", "5", "6", "7", "8", "9", "G1", "G2", "T1", "T2", "K1", "K2", "S1", "S2", "N1", "D1", "U", "X"]

THEOREM = {"getsite": "getSite_after_addSite_refuted / getSite_unknown_fails_refuted / getSite_inverted",
           "shapecheck": "stored_terms_valid_refuted / presets_reject_undefined_refuted / exception_leaves_lattice_unchanged_refuted"}
WHERE = {"getsite": "Lattice::getSite (src/pomerol/Lattice.cpp): condition inverted, throws for every known label and "
                    "dereferences end() for unknown ones",
         "shapecheck": "LatticePresets::addSzSz/addSS/addHopping(6 and 4 arguments) (src/pomerol/LatticePresets.cpp): the shape "
                       "check compares site 1's spin size with itself instead of site 2's"}

# directed histories: (name, repair flag whose absence they expose or None, lines)
CORPUS = [
    ("g-known", "getsite", ["site A 1 2", "getSite A"]),
    ("g-unknown-empty", "getsite", ["getSite A"]),
    ("g-unknown", "getsite", ["site A 1 2", "getSite B"]),
    ("s-szsz-fewer-spins", "shapecheck", ["site A 1 2", "site B 1 1", "addSzSz A B 1"]),
    ("s-ss-fewer-spins", "shapecheck", ["site A 1 2", "site B 1 1", "addSS A B 1"]),
    ("s-szsz-more-spins", "shapecheck", ["site A 1 2", "site B 1 3", "addSzSz A B 1"]),
    ("s-ss-more-spins", "shapecheck", ["site A 1 2", "site B 1 3", "addSS A B 1"]),
    ("s-hop4-fewer-spins", "shapecheck", ["site A 1 2", "site B 1 1", "addHopping4 A B 1"]),
    ("s-hop6-fewer-spins", "shapecheck", ["site A 1 2", "site B 1 1", "addHopping6 A B 1 0 0"]),
    ("s-hop4-more-spins", "shapecheck", ["site A 1 1", "site B 1 2", "addHopping4 A B 1"]),
    ("s-hop6-more-spins", "shapecheck", ["site A 1 1", "site B 1 2", "addHopping6 A B 1 0 0"]),
    # behaviour every variant shares
    ("terms", None, ["site A 2 2", "site B 1 1", "term 2 0.5 1 A 1 1 0 B 0 0", "term 2 0.5 1 A 2 1 0 B 0 0",
                     "term 2 0.5 1 A 1 2 0 B 0 0", "term 2 0.5 1 A 1 1 0 C 0 0", "term 2 0 1 A 1 1 0 B 0 0",
                     "term 2 0 1 A 1 1 0 B 0 1", "term 4 -1 1 A 0 0 1 A 1 1 0 B 0 0 0 A 0 1", "term 0 0.25", "term 0 0",
                     "term 6 2 1 A 0 0 1 A 0 1 1 A 1 0 0 A 1 1 0 B 0 0 0 A 0 0", "getTerms 2", "getTerms 4", "getTerms 0",
                     "getTerms 6", "getTerms 3", "maxOrder", "dump"]),
    ("factories", None, ["site A 2 2", "site B 2 2", "tHopping7 A B 0.5 0 1 1 0", "tHopping5 A B 0.5 1 1", "tLevel4 A -1 1 0",
                         "tNupNdown7 A B 1 0 1 0 1", "tNupNdown7 A A 1 1 1 0 0", "tNupNdown6 A 1 0 1 0 1", "tNupNdown6 A 1 1 1 1 1",
                         "tNupNdown4 A 2 0 1", "tNupNdown5 A 2 1 0 1", "tNupNdown3 A 2 1", "tSpinflip6 A 1 0 1 1 0",
                         "tSpinflip4 A 1 1 0", "tSpinflip6 A 1 0 0 1 0", "tSpinflip6 A 1 0 1 1 1", "tPairHopping6 A 1 0 1 0 1",
                         "tPairHopping4 A 1 0 1", "tPairHopping6 A 1 1 1 0 1", "tPairHopping4 A 1 0 0", "tSplusSminus4 A B 0.5 1",
                         "tSminusSplus4 A B 0.5 0", "tSplusSminus4 A B 0.5 2", "tLevel4 C 1 0 0", "tLevel4 A 0 0 0",
                         "tHopping7 A B 1 2 0 0 0", "tHopping7 A B 1 0 0 0 2", "getTerms 2", "getTerms 4", "maxOrder"]),
    ("presets", None, ["site A 2 2", "site B 2 2", "site C 1 2", "site D 2 3", "site E 3 2", "addCoulombS A 1 -0.5", "addCoulombS D 1 0",
                       "addCoulombS A 0 0", "addCoulombS Z 1 1", "addCoulombP A 2 1 0.5 -1", "addCoulombP C 2 1 0.5 -1",
                       "addCoulombP A 0 0 0 0", "addCoulombP3 B 2 0.5 0", "addCoulombP E 1 0.5 0.25 0", "addCoulombP Z 1 1 1 1",
                       "addLevel A 0.25", "addLevel A 0", "addLevel Z 1", "addMagnetization A 0.5", "addMagnetization A 0",
                       "addMagnetization D 0.5", "addMagnetization Z 1", "addSzSz A B 1", "addSzSz A A 1", "addSzSz A C 1",
                       "addSzSz A Z 1", "addSzSz Z A 1", "addSzSz A B 0", "addSS A B 0.5", "addSS A A 2", "addSS A C 1", "addSS D D 1",
                       "addSS Z A 1", "addHopping8 A B 0.5 0 1 1 0", "addHopping8 A B 0.5 2 0 0 0", "addHopping8 A B 0.5 0 0 0 2",
                       "addHopping8 A Z 1 0 0 0 0", "addHopping8 A B 0 0 0 0 0", "addHopping7 A C 1 1 0 1", "addHopping7 A C 1 1 1 1",
                       "addHopping6 A B -1 1 0", "addHopping6 A C -1 1 1", "addHopping4 A B 0.25", "addHopping4 A C 1",
                       "addHopping4 A A 1", "addHopping4 Z A 1", "getTerms 2", "getTerms 4", "maxOrder", "dump"]),
    ("sites-and-copy", None, ["site A 1 1", "site A 2 2", "getTerms 2", "addLevel A 1", "site A 1 1", "term 2 1 1 A 1 1 0 A 0 0",
                              "copy", "site B 1 2", "addLevel B 0.5", "site A 3 2", "origs", "dump", "copy", "addCoulombS A 1 1",
                              "origs", "maxOrder", "getTerms 2"]),
]

AMPS = ["1", "-1", "0.5", "-0.5", "0.25", "2", "-0.75", "1.5"]


# ----------------------------------------------------------------------------------------------------------------
# random histories

class Gen:
    def __init__(self, rng, p_valid):
        self.r, self.p = rng, p_valid
        self.sites = {}
        self.lines = []
        self.tags = []       # per line: what kind of call / which kind of invalid argument was generated
        self.copies = 0

    def amp(self, allow_zero=True):
        if allow_zero and self.r.random() < (0.04 if self.p > 0.5 else 0.2):
            return "0"
        return self.r.choice(AMPS)

    def emit(self, line, tag):
        self.lines.append(line)
        self.tags.append(tag)
        t = line.split()
        if t[0] == "site":
            self.sites[t[1]] = (int(t[2]), int(t[3]))

    def site_label(self, pred=lambda s: True):
        c = [l for l, s in sorted(self.sites.items()) if pred(s)]
        return self.r.choice(c) if c else None

    def unknown(self):
        c = [l for l in "ABCDZ" if l not in self.sites]
        return self.r.choice(c) if c else "Z"

    def add_site(self, valid):
        r = self.r
        shape = lambda: (r.choice([1, 1, 2, 2, 3]), r.choice([1, 2, 2, 2, 3]))
        if valid:
            new = [l for l in "ABCD" if l not in self.sites]
            if new and (r.random() < 0.8 or not self.sites):
                a, b = shape()
                self.emit("site %s %d %d" % (r.choice(new), a, b), "site:new")
            else:
                l = self.site_label()
                a, b = self.sites[l]
                self.emit("site %s %d %d" % (l, a + r.choice([0, 0, 1]), b + r.choice([0, 0, 1])), "site:re-add-same-or-larger")
        else:
            l = self.site_label()
            if l is None:
                return self.add_site(True)
            a, b = shape()
            self.emit("site %s %d %d" % (l, a, b), "site:re-add-other-shape")

    def pos(self, l=None):
        """valid (label, orbital, spin)"""
        l = l or self.site_label()
        a, b = self.sites[l]
        return l, self.r.randrange(a), self.r.randrange(b)

    def raw_term(self, valid):
        r = self.r
        n = r.choice([2, 2, 2, 4, 4, 6, 0]) if valid else r.choice([2, 2, 4])
        items = [(r.randrange(2),) + self.pos() for _ in range(n)]
        tag = "term:valid"
        val = self.amp()
        if not valid:
            k = r.randrange(n)
            o, l, a, b = items[k]
            how = r.choice(["unknown-label", "orbital=size", "spin=size", "orbital>size", "zero-amplitude", "zero-and-invalid"])
            if how == "unknown-label":
                l = self.unknown()
            elif how == "orbital=size":
                a = self.sites[l][0]
            elif how == "orbital>size":
                a = self.sites[l][0] + r.randrange(1, 3)
            elif how == "spin=size":
                b = self.sites[l][1]
            elif how == "zero-amplitude":
                val = "0"
            else:
                val, b = "0", self.sites[l][1]
            items[k] = (o, l, a, b)
            tag = "term:" + how
        elif val == "0":
            tag = "term:zero-amplitude"
        self.emit(("term %d %s %s" % (n, val, " ".join("%d %s %d %d" % it for it in items))).strip(), tag)

    def factory_term(self, valid):
        r = self.r
        f = r.choice(["tHopping7", "tHopping5", "tLevel4", "tNupNdown7", "tNupNdown6", "tNupNdown4", "tNupNdown5", "tNupNdown3",
                      "tSpinflip6", "tSpinflip4", "tPairHopping6", "tPairHopping4", "tSplusSminus4", "tSminusSplus4"])
        v = self.amp()
        two = f in ("tHopping7", "tHopping5", "tNupNdown7", "tSplusSminus4", "tSminusSplus4")
        need = (lambda s: s[0] >= 2 and s[1] >= 2) if f in ("tSpinflip6", "tSpinflip4", "tPairHopping6", "tPairHopping4") else \
               (lambda s: s[1] >= 2) if f in ("tNupNdown4", "tNupNdown3", "tSplusSminus4", "tSminusSplus4") else (lambda s: True)
        l1 = self.site_label(need)
        l2 = self.site_label(need) if two else l1
        if l1 is None or l2 is None:
            return self.raw_term(valid)
        s1, s2 = self.sites[l1], self.sites[l2]
        o1, o2 = r.randrange(s1[0]), r.randrange(s2[0])
        z1, z2 = r.randrange(s1[1]), r.randrange(s2[1])
        common_o = r.randrange(min(s1[0], s2[0]))
        common_z = r.randrange(min(s1[1], s2[1]))
        tag = f + ":valid"
        if f in ("tSpinflip6", "tSpinflip4", "tPairHopping6", "tPairHopping4"):
            o1, o2 = r.sample(range(s1[0]), 2)
            z1, z2 = r.sample(range(s1[1]), 2)
        if not valid:
            how = r.choice(["unknown-label", "orbital=size", "spin=size", "equal-orbitals", "equal-spins"])
            if how in ("equal-orbitals", "equal-spins") and f not in ("tSpinflip6", "tSpinflip4", "tPairHopping6", "tPairHopping4",
                                                                      "tNupNdown7", "tNupNdown6", "tNupNdown5"):
                how = "orbital=size"
            if how == "spin=size" and f in ("tNupNdown4", "tNupNdown3", "tSpinflip4", "tPairHopping4", "tSplusSminus4", "tSminusSplus4"):
                how = "orbital=size"
            if how == "unknown-label":
                l1 = self.unknown()
                if not two:
                    l2 = l1
            elif how == "orbital=size":
                o1 = common_o = s1[0] if not two else max(s1[0], s2[0])
                o2 = o1 if f in ("tSpinflip4", "tPairHopping4", "tSpinflip6", "tPairHopping6") and r.random() < 0.3 else o2
            elif how == "spin=size":
                z1 = common_z = s1[1] if not two else max(s1[1], s2[1])
            elif how == "equal-orbitals":
                o2 = o1
                if f.startswith("tNupNdown"):
                    z2 = z1      # degenerate NupNdown: falls back to a Level term
                    l2 = l1
            elif how == "equal-spins":
                z2 = z1
            tag = f + ":" + how
        args = {"tHopping7": (l1, l2, v, o1, o2, z1, z2), "tHopping5": (l1, l2, v, common_o, common_z), "tLevel4": (l1, v, o1, z1),
                "tNupNdown7": (l1, l2, v, o1, o2, z1, z2), "tNupNdown6": (l1, v, o1, r.randrange(s1[0]) if valid else o2, z1, z2 if not two else r.randrange(s1[1])),
                "tNupNdown4": (l1, v, o1, r.randrange(s1[0]) if valid else o2), "tNupNdown5": (l1, v, o1, z1, r.randrange(s1[1]) if valid else z2),
                "tNupNdown3": (l1, v, o1), "tSpinflip6": (l1, v, o1, o2, z1, z2), "tSpinflip4": (l1, v, o1, o2),
                "tPairHopping6": (l1, v, o1, o2, z1, z2), "tPairHopping4": (l1, v, o1, o2),
                "tSplusSminus4": (l1, l2, v, common_o), "tSminusSplus4": (l1, l2, v, common_o)}[f]
        self.emit(f + " " + " ".join(str(a) for a in args), tag)

    def preset(self, valid):
        r = self.r
        p = r.choice(["addCoulombS", "addCoulombP", "addCoulombP3", "addLevel", "addMagnetization", "addSzSz", "addSS", "addSzSz", "addSS",
                      "addHopping8", "addHopping7", "addHopping6", "addHopping4", "addHopping6", "addHopping4"])
        a = self.amp
        if p in ("addCoulombS", "addLevel", "addCoulombP", "addCoulombP3", "addMagnetization"):
            need = {"addCoulombP": lambda s: s[0] > 1 and s[1] > 1, "addCoulombP3": lambda s: s[0] > 1 and s[1] > 1,
                    "addMagnetization": lambda s: s[1] == 2}.get(p, lambda s: True)
            tag = p + ":valid"
            if valid:
                l = self.site_label(need)
                if l is None:
                    return self.preset_fallback()
            else:
                bad = self.site_label(lambda s: not need(s))
                if bad is not None and r.random() < 0.6:
                    l, tag = bad, p + ":site-shape-unsupported"
                else:
                    l, tag = self.unknown(), p + ":unknown-label"
            rest = {"addCoulombS": (a(), a()), "addCoulombP": (a(), a(), a(), a()), "addCoulombP3": (a(), a(), a()),
                    "addLevel": (a(),), "addMagnetization": (a(),)}[p]
            return self.emit("%s %s %s" % (p, l, " ".join(rest)), tag)
        # two-site presets
        def pair_ok(s1, s2):
            if p in ("addSzSz", "addSS"):
                return s1 == s2 and s1[1] == 2
            if p == "addHopping4":
                return s1 == s2
            if p == "addHopping6":
                return s1[1] == s2[1]
            return True
        tag = p + ":valid"
        how = None
        if valid:
            c = [(x, y) for x in sorted(self.sites) for y in sorted(self.sites) if pair_ok(self.sites[x], self.sites[y])]
            if not c:
                return self.preset_fallback()
            l1, l2 = r.choice(c)
        else:
            l1, l2 = self.site_label(), self.site_label()
            hows = ["unknown-label"]
            mism = [(x, y) for x in sorted(self.sites) for y in sorted(self.sites) if not pair_ok(self.sites[x], self.sites[y])]
            if mism:
                hows += ["mismatched-shapes"] * 4
            if p in ("addHopping8", "addHopping7", "addHopping6"):
                hows += ["orbital=size", "spin=size"] if p != "addHopping6" else ["orbital=size"]
            how = r.choice(hows)
            if how == "unknown-label":
                if r.random() < 0.5:
                    l1 = self.unknown()
                else:
                    l2 = self.unknown()
            elif how == "mismatched-shapes":
                l1, l2 = r.choice(mism)
            tag = p + ":" + how
        s1 = self.sites.get(l1, (1, 1))
        s2 = self.sites.get(l2, (1, 1))
        o1, o2 = r.randrange(s1[0]), r.randrange(s2[0])
        z1, z2 = r.randrange(s1[1]), r.randrange(s2[1])
        zc = r.randrange(min(s1[1], s2[1]))
        if how == "orbital=size":
            if r.random() < 0.5:
                o1 = s1[0]
            else:
                o2 = s2[0]
        if how == "spin=size":
            if r.random() < 0.5:
                z1 = zc = max(s1[1], s2[1])
            else:
                z2 = zc = max(s1[1], s2[1])
        v = a()
        line = {"addSzSz": (l1, l2, v), "addSS": (l1, l2, v), "addHopping8": (l1, l2, v, o1, o2, z1, z2),
                "addHopping7": (l1, l2, v, o1, o2, zc), "addHopping6": (l1, l2, v, o1, o2), "addHopping4": (l1, l2, v)}[p]
        self.emit(p + " " + " ".join(str(x) for x in line), tag)

    def preset_fallback(self):
        l = self.site_label()
        self.emit("addLevel %s %s" % (l, self.amp()), "addLevel:valid")

    def query(self, valid):
        r = self.r
        k = r.choice(["getSite", "getSite", "getTerms", "getTerms", "maxOrder", "copy", "dump", "origs"])
        if k == "getSite":
            if valid:
                self.emit("getSite %s" % self.site_label(), "getSite:known")
            else:
                self.emit("getSite %s" % self.unknown(), "getSite:unknown")
        elif k == "getTerms":
            self.emit("getTerms %d" % r.choice([2, 2, 4, 4, 0, 6, 3, 1]), "getTerms")
        elif k == "copy":
            if self.copies < 2:
                self.copies += 1
                self.emit("copy", "copy")
            else:
                self.emit("maxOrder", "maxOrder")
        elif k == "origs":
            self.emit("origs", "origs")
        else:
            self.emit(k, k)

    def history(self, ncalls):
        r = self.r
        for _ in range(r.choice([1, 2, 2, 3])):
            self.add_site(True)
        if self.p < 0.5 and r.random() < 0.7:
            # make sure sites of different shapes exist: the two-site presets need them to go wrong
            l = self.site_label()
            a, b = self.sites[l]
            new = [x for x in "ABCD" if x not in self.sites]
            if new:
                self.emit("site %s %d %d" % (new[0], a, r.choice([x for x in (1, 2, 3) if x != b])), "site:new")
        for _ in range(ncalls):
            valid = r.random() < self.p
            x = r.random()
            if x < 0.10:
                self.add_site(valid)
            elif x < 0.32:
                self.raw_term(valid)
            elif x < 0.52:
                self.factory_term(valid)
            elif x < 0.82:
                self.preset(valid)
            else:
                self.query(valid)
        self.emit("getTerms 2", "getTerms")
        self.emit("getTerms 4", "getTerms")
        self.emit("maxOrder", "maxOrder")
        self.emit("origs", "origs")
        self.emit("dump", "dump")
        return self.lines, self.tags


# ----------------------------------------------------------------------------------------------------------------
# running and parsing

def norm_value(tok):
    if "0x" in tok or tok in ("inf", "-inf", "nan", "-nan"):
        try:
            f = Fraction(float.fromhex(tok))
            return "%d/%d" % (f.numerator, f.denominator)
        except (ValueError, OverflowError):
            return tok
    return tok


def norm_line(l):
    if l.startswith(" + ") or l.startswith(" T "):
        t = l.split(" ")
        t[-1] = norm_value(t[-1])
        return " ".join(t)
    if l == "@ UB-skipped":
        return "@ UB"
    return l


def parse_blocks(text):
    """-> {history id: [block, ...]}, block = [first line ('@ ...'), detail lines...]"""
    res, cur = {}, None
    for l in text.split("\n"):
        if l.startswith("== "):
            cur = res.setdefault(l[3:].strip(), [])
        elif l.startswith("@ "):
            if cur is not None:
                cur.append([norm_line(l)])
        elif l.strip() and cur is not None and cur:
            cur[-1].append(norm_line(l))
    return res


def script(hists):
    return "".join("history %s\n%s\n" % (hid, "\n".join(lines)) for hid, lines in hists)


class Tools:
    def __init__(self):
        self.h = pv.build_harness("h_c20")
        self.drv = pv.build_driver("driver_c20", ["C20_model"])

    def impl(self, hists, timeout=600):
        rc, out, err = pv.run_harness(self.h, script(hists), timeout=timeout)
        return rc, parse_blocks(out), err

    def model(self, hists, fg, fs):
        rc, out, err = pv.sh([self.drv, "model", "1" if fg else "0", "1" if fs else "0"], input=script(hists), timeout=600)
        if rc != 0:
            raise RuntimeError("driver_c20 model failed: rc=%d %s" % (rc, err[-300:]))
        return parse_blocks(out)

    def judge(self, text):
        rc, out, err = pv.sh([self.drv, "judge"], input=text, timeout=600)
        if rc != 0:
            raise RuntimeError("driver_c20 judge failed: rc=%d %s" % (rc, err[-300:]))
        res, cur = {}, None
        for l in out.split("\n"):
            if l.startswith("== "):
                cur = res.setdefault(l[3:].strip(), [])
            elif l.startswith("J ") and cur is not None:
                cur.append(l[2:].split())
        return res


QUERIES = ("getSite", "getTerms", "maxOrder", "copy", "dump", "origs")


def is_exn(outcome):
    return outcome.startswith("ex") or outcome.startswith("other")


def evaluate(tools, hists, blocks):
    """Judge a trace (of the implementation or of a model variant) against the property.
    -> {hid: [(call index, clause id, op kind), ...]}, {hid: [outcome kind per call]}"""
    fails = dict((hid, []) for hid, _ in hists)
    jtext, jmap = [], {}
    for hid, lines in hists:
        bl = blocks.get(hid, [])
        if len(bl) != len(lines):
            fails[hid].append((min(len(bl), len(lines) - 1), "X" if len(bl) < len(lines) else "U", "-"))
            continue
        sites, log = {}, {}
        jtext.append("history %s" % hid)
        jmap[hid] = []
        for i, (line, b) in enumerate(zip(lines, bl)):
            t = line.split()
            k, outcome, detail = t[0], b[0][2:], b[1:]
            bad = lambda c: fails[hid].append((i, c, k))
            if outcome == "unknown-command":
                bad("U")
                continue
            expected_dump = lambda: [" S %s %d %d" % (l, s[0], s[1]) for l, s in sorted(sites.items())] + \
                [" M %d" % (max(log) if log else 0)] + [" T " + x for n in sorted(log) for x in log[n]]
            if k == "getSite":
                if t[1] in sites:
                    if outcome != "site %d %d" % sites[t[1]]:
                        bad("G1")
                elif not is_exn(outcome):
                    bad("G2")
            elif k == "getTerms":
                n = int(t[1])
                if outcome != "terms %d %d" % (n, len(log.get(n, []))) or detail != [" T " + x for x in log.get(n, [])]:
                    bad("T1")
            elif k == "maxOrder":
                if outcome != "maxorder %d" % (max(log) if log else 0):
                    bad("T2")
            elif k == "copy":
                if outcome != "copy same" or detail != expected_dump():
                    bad("K1")
            elif k == "dump":
                if outcome != "dump" or detail != expected_dump():
                    bad("D1")
            elif k == "origs":
                if any(not d.endswith(" unchanged") for d in detail):
                    bad("K2")
            else:
                plus = [d[3:] for d in detail if d.startswith(" + ")]
                if any(d.startswith(" ! ") for d in detail):
                    bad("N1")
                    continue
                schg = [d for d in detail if d.startswith(" s ")]
                if k == "site":
                    new = (int(t[2]), int(t[3]))
                    want = [] if sites.get(t[1]) == new else [" s %s %d %d" % (t[1], new[0], new[1])]
                    if outcome != "ok" or schg != want or plus:
                        bad("S1")
                    sites[t[1]] = new
                elif schg:
                    bad("S2")
                jtext.append(line)
                jtext.append("obs %d %d" % (1 if (is_exn(outcome) or outcome.startswith("UB")) else 0, len(plus)))
                jtext += ["T " + p for p in plus]
                jmap[hid].append((i, k))
                for p in plus:
                    log.setdefault(int(p.split()[0]), []).append(p)
    if jtext:
        jres = tools.judge("\n".join(jtext) + "\n")
        for hid, calls in jmap.items():
            v = jres.get(hid, [])
            if len(v) != len(calls):
                fails[hid].append((0, "U", "judge"))
                continue
            for (i, k), verdict in zip(calls, v):
                if verdict != ["ok"]:
                    for c in verdict:
                        fails[hid].append((i, c if c in CLAUSE else "U", k))
    for hid in fails:
        fails[hid].sort(key=lambda f: (f[0], ORDER.index(f[1])))
    return fails


# ----------------------------------------------------------------------------------------------------------------
# shrinking

def canonical(lines):
    """rename labels in order of first appearance to A, B, C, ..."""
    names, out = {}, []

    def nm(x):
        if x not in names:
            names[x] = "ABCDEFGHIJKLMNOPQRSTUVWXYZ"[len(names) % 26]
        return names[x]
    for line in lines:
        t = line.split()
        k = t[0]
        if k in ("site", "getSite", "addCoulombS", "addCoulombP", "addCoulombP3", "addLevel", "addMagnetization", "tLevel4",
                 "tNupNdown6", "tNupNdown4", "tNupNdown5", "tNupNdown3", "tSpinflip6", "tSpinflip4", "tPairHopping6", "tPairHopping4"):
            t[1] = nm(t[1])
        elif k in ("addSzSz", "addSS", "addHopping8", "addHopping7", "addHopping6", "addHopping4", "tHopping7", "tHopping5",
                   "tNupNdown7", "tSplusSminus4", "tSminusSplus4"):
            t[1], t[2] = nm(t[1]), nm(t[2])
        elif k == "term":
            for j in range(int(t[1])):
                t[4 + 4 * j] = nm(t[4 + 4 * j])
        out.append(" ".join(t))
    return out


def simplifications(lines):
    """candidate histories with one numeric argument made smaller / one amplitude made 1"""
    for i, line in enumerate(lines):
        t = line.split()
        for j in range(1, len(t)):
            alts = []
            if t[0] == "term" and j == 1:
                continue        # the number of operators fixes the layout of the line
            if re.fullmatch(r'\d+', t[j]):
                v = int(t[j])
                lo = 1 if t[0] == "site" else 0
                alts = [str(x) for x in range(lo, v)]
            elif re.fullmatch(r'-?\d*\.?\d+', t[j]) and t[j] not in ("1", "0"):
                alts = ["1"]
            for a in alts:
                yield lines[:i] + [" ".join(t[:j] + [a] + t[j + 1:])] + lines[i + 1:]


def shrink(tools, lines, clause, kind, budget=40):
    """drop calls, then simplify arguments, while the implementation keeps failing the same clause on the same kind of call"""
    def failing(cands):
        hists = [("c%d" % i, c) for i, c in enumerate(cands)]
        ok = []
        rc, bl, err = tools.impl(hists, timeout=120)
        fl = evaluate(tools, hists, bl)
        for hid, c in hists:
            if any(f[1] == clause and (f[2] == kind or clause in ("X", "U")) for f in fl[hid]):
                ok.append(c)
        return ok
    cur = list(lines)
    while budget > 0:
        budget -= 1
        cands = [cur[:i] + cur[i + 1:] for i in range(len(cur) - 1, -1, -1)]
        good = failing(cands) if cands else []
        if not good:
            break
        cur = min(good, key=len)
    while budget > 0:
        budget -= 1
        cands = list(simplifications(cur))
        good = failing(cands) if cands else []
        if not good:
            break
        cur = good[0]
    cur = canonical(cur)
    return cur if failing([cur]) else lines


# ----------------------------------------------------------------------------------------------------------------

def explain(tools, lines):
    """side-by-side blocks of implementation and repaired model for a (short) history"""
    h = [("x", lines)]
    rc, bi, err = tools.impl(h, timeout=120)
    bm = tools.model(h, True, True)
    return {"implementation": bi.get("x"), "repaired_model": bm.get("x"), "harness_rc": rc, "stderr_tail": err[-600:] if rc else ""}


def run_histories(chk, tools, hists, tags, stream_of):
    """the whole pipeline on a list of histories; returns failures of the implementation not yet reported"""
    rc, bi, err = tools.impl(hists)
    models = dict(((fg, fs), tools.model(hists, fg, fs)) for fg in (False, True) for fs in (False, True))
    fi = evaluate(tools, hists, bi)
    if rc != 0:
        # find the histories the harness does not survive
        for hid, lines in hists:
            if len(bi.get(hid, [])) != len(lines):
                r1, b1, e1 = tools.impl([(hid, lines)], timeout=120)
                if r1 != 0:
                    fi[hid] = [(len(b1.get(hid, [])), "X", lines[min(len(b1.get(hid, [])), len(lines) - 1)].split()[0])]
                else:
                    bi[hid] = b1.get(hid, [])
                    fi[hid] = evaluate(tools, [(hid, lines)], b1)[hid]
    # judged traces of the single-flag-off variants: which implementation failures does a modelled defect explain?
    fm = {"getsite": evaluate(tools, hists, models[(False, True)]), "shapecheck": evaluate(tools, hists, models[(True, False)])}
    frep = evaluate(tools, hists, models[(True, True)])
    for hid, f in frep.items():
        if f:
            chk.tie_broken("judge vs repaired model", "the judgement rejects the repaired model on history %s: %r (contradicts judge_sound: "
                           "driver / harness / check defect)" % (hid, f[:3]))
            break
    match = dict((c, 0) for c in models)
    outcome_hist = {}
    for hid, lines in hists:
        b = bi.get(hid, [])
        for c in models:
            if models[c].get(hid) == b:
                match[c] += 1
        tg = tags.get(hid, [None] * len(lines))
        st = stream_of(hid)
        ctx = {}
        for i, line in enumerate(lines):
            out = b[i][0][2:] if i < len(b) else "missing"
            kind = line.split()[0]
            okind = out.split()[0] if not out.startswith("other") else "other"
            outcome_hist.setdefault(st, {}).setdefault(okind, 0)
            outcome_hist[st][okind] += 1
            sig = "%s -> %s" % (tg[i] or kind, okind)
            canon = "%s | %s | %s" % (sorted(ctx.items()), line, out)
            chk.case(canon, sig, nontrivial=kind not in ("dump", "origs"),
                     sample={"history": hid, "call": line, "implementation": b[i] if i < len(b) else None} if (i == 3 and hid.endswith("7")) else None)
            if kind == "site":
                t = line.split()
                ctx[t[1]] = (t[2], t[3])
    return bi, models, fi, fm, match, outcome_hist


def run(chk):
    quick = chk.tier == "quick"
    ok, log = chk.prove(["extract/Extract_C20.vo"], extra_props=["Properties_C20_source.v", "Properties_C20_statics.v"])
    chk.trusted += ["translator/gen_c20.py (factory arrays, guards, default arguments, enum spin) and translator/cexpr.py",
                    "translator/gen_lattice.py + translator/cstmt.py (statement splitter, expression parser; statement-by-statement translation of "
                    "Lattice::addTerm and the eleven LatticePresets functions into the W vocabulary of coq/theories/Lattice.v + LatticeShapes.v, shape "
                    "recognition of TermStorage::addTerm / getTerms / getMaxTermOrder, Lattice::getSite / addSite / copy constructor): the tie between "
                    "coq/gen/Gen_Lattice*.v and src/pomerol/Lattice.cpp, LatticePresets.cpp (Properties_C20_source.v); a function it does not "
                    "recognise falls back to its snapshot and is then tied by the correspondence runs alone",
                    "extraction: ExtrOcamlBasic, ExtrOcamlNatInt (nat -> OCaml int; labels/orbitals/spins/orders are tiny); no Extract Constant of our own",
                    "ocaml/driver_c20.ml (parsing, printing, label numbering), harness/h_c20.cpp + harness/ed_common.h (call syntax), "
                    "this module (canonicalisation; look-up clauses G/T/K/S/N/D are evaluated here against the history)",
                    "g++ 12 / libstdc++ std::map, std::list as used by the library build"]
    chk.assume += ["amplitudes are small dyadic rationals, so that the presets' arithmetic (x/2, x/4, 2x, x-y) is exact in binary64 and "
                   "equals the model's rational arithmetic",
                   "real build (MelemType = double); conj is the identity",
                   "label, orbital and spin arguments fit unsigned short; Term vectors have the length N given to the constructor"]
    tools = Tools()
    rng = chk.rng
    n_each = 60 if quick else 500
    ncalls = (18, 30)
    hists, tags = [], {}
    for name, flag, lines in CORPUS:
        hists.append(("corpus-" + name, list(lines)))
    for i in range(n_each):
        g = Gen(rng, 0.7)
        lines, tg = g.history(rng.randrange(*ncalls))
        hists.append(("valid-%d" % i, lines))
        tags["valid-%d" % i] = tg
    for i in range(n_each):
        g = Gen(rng, 0.25)
        lines, tg = g.history(rng.randrange(*ncalls))
        hists.append(("malformed-%d" % i, lines))
        tags["malformed-%d" % i] = tg
    stream_of = lambda hid: hid.split("-")[0]
    bi, models, fi, fm, match, outcome_hist = run_histories(chk, tools, hists, tags, stream_of)

    # ---- which variant is the library? (exact correspondence) ----
    nh = len(hists)
    exact = [c for c in match if match[c] == nh]
    chk.extra["histories"] = nh
    chk.extra["exact_match_by_variant"] = dict(("fix_getsite=%d,fix_shapecheck=%d" % c, match[c]) for c in sorted(match))
    chk.extra["implementation_is_variant"] = ["fix_getsite=%d,fix_shapecheck=%d" % c for c in exact] or "none"
    chk.extra["outcome_distribution"] = outcome_hist
    dist = {}
    for hid, tg in tags.items():
        d = dist.setdefault(stream_of(hid), {})
        for x in tg:
            k = x.split(":", 1)[1] if ":" in x else "look-up"
            k = "valid" if k in ("valid", "new", "re-add-same-or-larger", "known") else k
            d[k] = d.get(k, 0) + 1
    chk.extra["generated_call_kinds"] = dist
    chk.extra["translator_fragment"] = (chk.extra.get("translator") or {}).get("Gen_LatticePresets")

    # ---- judged failures of the implementation ----
    corpus_flag = dict(("corpus-" + n, f) for n, f, _ in CORPUS)
    lines_of = dict(hists)
    reported = {}      # flag -> (hid, failure)
    explained_count = {"getsite": 0, "shapecheck": 0}
    also = {"getsite": [], "shapecheck": []}
    unexplained = {}   # clause -> (hid, failure): shortest failing prefix; one clause (the first) per failing call
    unexplained_kinds = {}
    for hid, lines in hists:
        seen_calls = set()
        for f in fi.get(hid, []):
            flag = None
            for fl in ("getsite", "shapecheck"):
                if f in fm[fl].get(hid, []):
                    flag = fl
            if flag:
                explained_count[flag] += 1
                if flag not in reported and corpus_flag.get(hid) == flag:
                    reported[flag] = (hid, f)
                elif hid.startswith("corpus-") and hid != reported.get(flag, (None,))[0] and hid not in also[flag]:
                    also[flag].append(hid)
            else:
                if f[0] in seen_calls:
                    continue
                seen_calls.add(f[0])
                key = f[1]
                unexplained_kinds.setdefault(key, {}).setdefault(f[2], 0)
                unexplained_kinds[key][f[2]] += 1
                have = unexplained.get(key)
                # prefer the first corpus history (stable keys), then the shortest failing prefix
                if have is None or (not have[0].startswith("corpus-") and (hid.startswith("corpus-") or f[0] < have[1][0])):
                    unexplained[key] = (hid, f)
    # failures explained by a flag that has no failing corpus witness (should not happen): treat as unexplained
    for flag in ("getsite", "shapecheck"):
        if explained_count[flag] and flag not in reported:
            for hid, lines in hists:
                for f in fi.get(hid, []):
                    if f in fm[flag].get(hid, []):
                        unexplained.setdefault(f[1], (hid, f))
                        unexplained_kinds.setdefault(f[1], {}).setdefault(f[2], 0)
    for flag, (hid, f) in sorted(reported.items()):
        lines = lines_of[hid][:f[0] + 1]
        key = "%s => %s" % ("; ".join(lines), CLAUSE[f[1]])
        variant_ok = any((not c[0] if flag == "getsite" else not c[1]) for c in exact)
        what = ("%s -- call `%s` after `%s`: %s. %s (Coq: %s); the model with only this repair missing shows the same failure, and %d judged "
                "failures in this run are explained by it."
                % (WHERE[flag], lines[-1], "; ".join(lines[:-1]) or "(empty lattice)", CLAUSE[f[1]],
                   "The library agrees exactly with the model variant that has this repair off on all %d histories" % nh if variant_ok
                   else "No model variant agrees exactly with the library on all histories, but this failure is the modelled one",
                   THEOREM[flag], explained_count[flag]))
        rep = {"harness": "h_c20", "history": lines, "clause": CLAUSE[f[1]], "call_index": f[0], "explained_by_missing_repair": flag,
               "theorems": THEOREM[flag], "other_failing_corpus_witnesses": also[flag], "failures_explained_in_this_run": explained_count[flag]}
        rep.update(explain(tools, lines))
        chk.violation(key, what, rep)
    for clause, (hid, f) in sorted(unexplained.items(), key=lambda kv: ORDER.index(kv[0])):
        kind = f[2]
        lines = lines_of[hid][:f[0] + 1] if clause not in ("K2",) else lines_of[hid]
        small = shrink(tools, lines, clause, kind)
        key = "%s => %s" % ("; ".join(small), CLAUSE[clause])
        rep = {"harness": "h_c20", "history": small, "clause": CLAUSE[clause], "found_in": hid, "original_length": len(lines_of[hid]),
               "explained_by_missing_repair": None, "failing_calls_by_kind_in_this_run": unexplained_kinds.get(clause)}
        rep.update(explain(tools, small))
        chk.violation(key, "call `%s` after `%s`: %s (not explained by a modelled defect; the repaired model, for which the property is "
                      "proved, behaves differently)" % (small[-1] if small else "?", "; ".join(small[:-1]) or "(empty lattice)", CLAUSE[clause]), rep)

    nfail = sum(len(v) for v in fi.values())
    chk.extra["judged_failures"] = {"total": nfail, "explained_by_getsite": explained_count["getsite"],
                                    "explained_by_shapecheck": explained_count["shapecheck"],
                                    "unexplained_by_clause": dict((CLAUSE[k], v) for k, v in unexplained_kinds.items())}
    if not exact:
        # the code is none of the modelled variants
        first = None
        for hid, lines in hists:
            if all(models[c].get(hid) != bi.get(hid) for c in models):
                first = hid
                break
        chk.extra["model_mismatch_first_history"] = {"history": first, "lines": lines_of.get(first)}
        anon = lambda bl: [[re.sub(r'^@ (exWrongLabel|exWrongIndices)$', '@ exception', l) for l in b] for b in (bl or [])]
        only_class = [c for c in models if all(anon(models[c].get(hid)) == anon(bi.get(hid)) for hid, _ in hists)]
        chk.extra["differs_only_in_exception_class_from"] = ["fix_getsite=%d,fix_shapecheck=%d" % c for c in only_class]
        if nfail == 0 or not (unexplained or reported):
            chk.level = "testing"
            chk.notes.append("the library differs from every model variant (first: %s) but passes every clause of the property on all "
                             "judged calls: no alarm; the proof no longer applies to this code, the judgement is testing-level" % first)
            chk.extra["notes"] = chk.notes

    # ---- thorough: demonstrate the undefined behaviour once under the sanitizers, and run the malformed stream there ----
    if not quick:
        ha = pv.build_harness("h_c20", "asan")
        rc, out, err = pv.run_harness(ha, "history asan\nsite A 1 2\ngetSite Z\n", args=["--force-ub"], timeout=120)
        b = parse_blocks(out).get("asan", [])
        last = b[-1][0] if len(b) == 2 else "(no output: aborted)"
        chk.extra["asan_getSite_unknown_label"] = {"rc": rc, "result": last, "report": pv.sanitizer_digest(err, 25) if hasattr(pv, "sanitizer_digest") else err[-1500:]}
        if rc != 0 or not is_exn(last[2:]):
            if "getsite" not in reported:
                chk.violation("site A 1 2; getSite Z => %s [sanitizer]" % CLAUSE["G2"],
                              "getSite for an unknown label does not throw; sanitizer run: rc=%d %s" % (rc, last),
                              {"harness": "h_c20 (asan, --force-ub)", "history": ["site A 1 2", "getSite Z"], "stderr": err[-3000:]})
        mal = [(hid, l) for hid, l in hists if hid.startswith("malformed-")][:200]
        rc, out, err = pv.run_harness(ha, script(mal), timeout=1200)
        chk.extra["asan_malformed_stream"] = {"histories": len(mal), "rc": rc}
        if rc != 0:
            done = parse_blocks(out)
            hid = [h for h, l in mal if len(done.get(h, [])) != len(l)]
            chk.violation("sanitizer: " + ("; ".join(lines_of[hid[0]]) if hid else "?"),
                          "sanitizer report while running a malformed history: " + (pv.sanitizer_digest(err, 12) if hasattr(pv, "sanitizer_digest") else err[-800:]),
                          {"harness": "h_c20 (asan)", "history": lines_of.get(hid[0]) if hid else None, "stderr": err[-3000:]})

    chk.rule = ("cases are single calls inside histories: %d corpus histories (witnesses of the refuted theorems for every affected preset and "
                "both directions of the mismatch, every factory overload, every preset defined/undefined, raw terms of order 0..6, copies), "
                "%d mostly-valid random histories (70%% valid calls) and %d malformed random histories (25%% valid; unknown label, orbital = "
                "size, spin = size, equal orbitals / spins for spin-flip and pair-hopping, mismatched site shapes for the two-site presets, "
                "zero amplitudes, re-adding a label with another shape), 18-30 calls each plus closing look-ups. Signature = generated call "
                "kind and kind of invalidity -> observed outcome. Distinct = distinct (site map context, call text, outcome); dump/origs "
                "calls are counted as trivial." % (len(CORPUS), n_each, n_each))


def replay(chk, path):
    r = json.load(open(path))
    rep = r.get("replay") or {}
    lines = rep.get("history")
    print(json.dumps({k: r[k] for k in ("property", "key", "what") if k in r}, indent=1))
    if not lines:
        run(chk)
        return chk.finish()
    chk.prove(["extract/Extract_C20.vo"], extra_props=["Properties_C20_source.v", "Properties_C20_statics.v"])
    tools = Tools()
    h = [("replay", lines)]
    rc, bi, err = tools.impl(h, timeout=120)
    bm = tools.model(h, True, True)
    fi = evaluate(tools, h, bi)["replay"]
    print("call | implementation | repaired model")
    for i, line in enumerate(lines):
        print("  %-40s | %-28s | %s" % (line, " / ".join(bi.get("replay", [])[i]) if i < len(bi.get("replay", [])) else "missing",
                                        " / ".join(bm.get("replay", [])[i]) if i < len(bm.get("replay", [])) else "missing"))
    for f in fi:
        print("FAILED clause: call %d (%s): %s" % (f[0], lines[f[0]] if f[0] < len(lines) else "?", CLAUSE[f[1]]))
        chk.violation(r.get("key", "replay"), r.get("what", CLAUSE[f[1]]), rep)
    if not fi:
        print("no clause fails on this tree")
    chk.case("replay " + "; ".join(lines), "replay", nontrivial=True)
    chk.rule = "replay of one stored history"
    # a replay judges one history; keep the evidence of the last complete run
    import os
    evp = os.path.join(pv.ROOT if pv.COQ == pv.COQ_SRC else pv.BUILD, "evidence", "C20.json")
    old = open(evp).read() if os.path.exists(evp) else None
    rc = chk.finish()
    if old is not None:
        open(evp, "w").write(old)
    return rc


def setup():
    pv.build_driver("driver_c20", ["C20_model"])
    pv.build_harness("h_c20")
