"""C10, LARGE-BLOCK stage: independent numpy reference (TESTING layer: no extracted model, no oracle -- both are too slow at
1024 Fock states).  Run as a script by checks/C10.py with an interpreter that has numpy (python3-vt):

    python3-vt checks/c10_npref.py <dump file of h_c10> <json options>

Reads the records N, NBLOCKS, BLOCK, VEC, OPMAP, OPMAT (kinds cdag, c = container; cdag1, c1 = one by one) and evaluates the
statement of the property on them, block by block:
  rotation   U_to * stored * U_from^+ == Jordan-Wigner block of the operator between the two blocks' Fock states, computed here by bit
             operations from the BLOCK state lists: c^+_i |K> = (-1)^(number of occupied modes below i in K) |K + bit i> if bit i is
             empty, c_i = its transpose;
  missing    every source block with a non-zero Jordan-Wigner image has a stored part, and the image lies in the part's target block;
  adjoint    stored c part (left,right) == conjugate transpose of the stored c^+ part (right,left): container exactly, one by one 1e-10;
  single     one-by-one parts == container parts (1e-10);
  car        matrices assembled over all blocks in the eigenbasis: {c_i, c^+_j} = delta_ij, {c_i, c_j} = 0 for the requested pairs (1e-7).
Prints one JSON object: {"facts": {...}, "failures": [{"kind", "op", "index", "block", "shape", "err", "detail"}, ...]}.
"""
import json
import sys


def main():
    import numpy as np
    path, opts = sys.argv[1], json.loads(sys.argv[2]) if len(sys.argv) > 2 else {}
    tol, car_tol = opts.get("tol", 1e-10), opts.get("car_tol", 1e-7)
    car_pairs = [tuple(p) for p in opts.get("car_pairs", [])]
    fx = float.fromhex
    N = None
    blocks, vec, opmap, opmat, threads = {}, {}, {}, {}, None
    with open(path) as f:
        for line in f:
            t = line.split()
            if not t:
                continue
            if t[0] == "N":
                N = int(t[1])
            elif t[0] == "THREADS":
                threads = int(t[1])
            elif t[0] == "BLOCK":
                blocks[int(t[1])] = [int(x) for x in t[3:3 + int(t[2])]]
            elif t[0] == "VEC":
                n = int(t[2])
                a = np.array([fx(x) for x in t[3:]]).reshape(n, n, 2)
                vec[int(t[1])] = a[:, :, 0] + 1j * a[:, :, 1]
            elif t[0] == "OPMAP":
                opmap[(t[1], int(t[2]))] = [(int(t[4 + 2 * k]), int(t[5 + 2 * k])) for k in range(int(t[3]))]
            elif t[0] == "OPMAT":
                rows, cols, nnz = int(t[5]), int(t[6]), int(t[7])
                m = np.zeros((rows, cols), dtype=complex)
                if nnz:
                    r = np.array(t[8::4], dtype=np.int64)
                    c = np.array(t[9::4], dtype=np.int64)
                    v = np.array([fx(x) for x in t[10::4]]) + 1j * np.array([fx(x) for x in t[11::4]])
                    m[r, c] = v
                opmat[(t[1], int(t[2]), int(t[3]), int(t[4]))] = m
    fails = []

    def fail(kind, op, idx, block, shape, err, detail):
        fails.append({"kind": kind, "op": op, "index": idx, "block": block, "shape": shape, "err": err, "detail": detail})

    block_of = {}
    for b, st in blocks.items():
        for k, s in enumerate(st):
            block_of[s] = (b, k)
    dim = sum(len(st) for st in blocks.values())
    if N is None or dim != (1 << N) or len(block_of) != dim:
        fail("dump", "-", -1, None, None, None, "blocks do not partition the 2^N Fock states (N=%r, %d states listed)" % (N, dim))
        print(json.dumps({"facts": {}, "failures": fails}))
        return

    def cdag_image(i, K):
        """c^+_i |K> = sign |L> or None"""
        if (K >> i) & 1:
            return None
        return (-1 if bin(K & ((1 << i) - 1)).count("1") & 1 else 1), K | (1 << i)

    def jw_block(dag, i, left, right):
        """Jordan-Wigner block <left states| op |right states> (dense), and the number of images that leave `left`"""
        J = np.zeros((len(blocks[left]), len(blocks[right])))
        outside = 0
        for k, K in enumerate(blocks[right]):
            if dag:
                im = cdag_image(i, K)
            else:                                   # c_i |K> = sign |L>  <=>  c^+_i |L> = sign |K>
                im = None
                if (K >> i) & 1:
                    L = K & ~(1 << i)
                    im = (cdag_image(i, L)[0], L)
            if im is None:
                continue
            b, l = block_of[im[1]]
            if b == left:
                J[l, k] = im[0]
            else:
                outside += 1
        return J, outside

    def has_image(dag, i, right):
        return any((((K >> i) & 1) == 0) if dag else (((K >> i) & 1) == 1) for K in blocks[right])

    worst = {"rotation": 0.0, "adjoint": 0.0, "single": 0.0, "car": 0.0}
    nparts = 0
    largest = 0
    # rotation, block by block
    for (kind, i, left, right), m in sorted(opmat.items()):
        dag = kind.startswith("cdag")
        shape = [len(blocks[left]), len(blocks[right])]
        if list(m.shape) != shape:
            fail("shape", kind, i, [left, right], shape, None, "stored %dx%d, block sizes %dx%d" % (m.shape + tuple(shape)))
            continue
        J, outside = jw_block(dag, i, left, right)
        back = vec[left] @ m @ vec[right].conj().T
        err = float(np.max(np.abs(back - J))) if back.size else 0.0
        worst["rotation"] = max(worst["rotation"], err)
        nparts += 1
        largest = max(largest, shape[1])
        if not err <= tol:
            l, k = np.unravel_index(np.argmax(np.abs(back - J)), J.shape)
            fail("rotation", kind, i, [left, right], shape, err,
                 "max|U_to * stored * U_from^+ - JW block| = %.3e at <%d| |%d> (Fock states %d, %d): rotated back %r, Jordan-Wigner %r" % (
                     err, l, k, blocks[left][l], blocks[right][k], complex(back[l, k]), float(J[l, k])))
        if outside:
            fail("missing", kind, i, [left, right], shape, None, "%d Jordan-Wigner images of the source block lie outside the part's target block" % outside)
    # completeness of the block maps
    for (kind, i), pairs in sorted(opmap.items()):
        dag = kind.startswith("cdag")
        rights = set(r for _, r in pairs)
        for l, r in pairs:
            if (kind, i, l, r) not in opmat:
                fail("missing", kind, i, [l, r], None, None, "block map lists the pair but no part is stored")
        for b in sorted(blocks):
            if b not in rights and has_image(dag, i, b):
                fail("missing", kind, i, [None, b], [None, len(blocks[b])], None, "source block %d has non-zero Jordan-Wigner images but no stored part" % b)
    # adjoint, container vs one-by-one
    for (kind, i, left, right), m in sorted(opmat.items()):
        if kind in ("c", "c1"):
            ck = ("cdag" + kind[1:], i, right, left)
            if ck not in opmat:
                fail("adjoint", kind, i, [left, right], list(m.shape), None, "no stored creation part %d<-%d" % (right, left))
            elif opmat[ck].shape == m.shape[::-1]:
                err = float(np.max(np.abs(m - opmat[ck].conj().T))) if m.size else 0.0
                worst["adjoint"] = max(worst["adjoint"], err)
                if (kind == "c" and err != 0.0) or not err <= tol:
                    fail("adjoint", kind, i, [left, right], list(m.shape), err, "max|stored c - (stored c^+)^+| = %.3e" % err)
        if kind in ("cdag1", "c1"):
            ck = (kind[:-1], i, left, right)
            if ck in opmat and opmat[ck].shape == m.shape:
                err = float(np.max(np.abs(m - opmat[ck]))) if m.size else 0.0
                worst["single"] = max(worst["single"], err)
                if not err <= tol:
                    fail("container-vs-single", kind, i, [left, right], list(m.shape), err, "max|one-by-one - container| = %.3e" % err)
            elif (kind[:-1], i) in opmap:
                fail("container-vs-single", kind, i, [left, right], list(m.shape), None, "part exists one by one but not in the container")
    # CAR, assembled over blocks (eigenbasis; blocks in increasing number)
    off, o = {}, 0
    for b in sorted(blocks):
        off[b] = o
        o += len(blocks[b])

    def assemble(kind, i):
        if (kind, i) not in opmap:
            return None
        M = np.zeros((dim, dim), dtype=complex)
        for (k2, i2, left, right), m in opmat.items():
            if k2 == kind and i2 == i and m.shape == (len(blocks[left]), len(blocks[right])):
                M[off[left]:off[left] + m.shape[0], off[right]:off[right] + m.shape[1]] = m
        return M
    cache = {}

    def get(kind, i):
        if (kind, i) not in cache:
            cache[(kind, i)] = assemble(kind, i)
        return cache[(kind, i)]
    ncar = 0
    for i, j in car_pairs:
        for kc, kx, tag in (("c", "cdag", "container"), ("c1", "cdag1", "one-by-one")):
            ci, cj, xj = get(kc, i), get(kc, j), get(kx, j)
            if ci is None or cj is None or xj is None:
                continue
            ncar += 1
            a = ci @ xj + xj @ ci
            if i == j:
                a = a - np.eye(dim)
            e1 = float(np.max(np.abs(a)))
            e2 = float(np.max(np.abs(ci @ cj + cj @ ci)))
            worst["car"] = max(worst["car"], e1, e2)
            if not (e1 <= car_tol and e2 <= car_tol):
                fail("car", tag, i, None, None, max(e1, e2), "i=%d j=%d (%s): max|{c_i,c^+_j}-delta_ij| = %.3e, max|{c_i,c_j}| = %.3e" % (i, j, tag, e1, e2))
    facts = {"N": N, "blocks": len(blocks), "largest_block": max(len(s) for s in blocks.values()), "largest_source_block_of_a_stored_part": largest,
             "parts": nparts, "operators": sorted("%s_%d" % k for k in opmap), "car_pairs_evaluated": ncar, "threads": threads, "max_dev": worst}
    print(json.dumps({"facts": facts, "failures": fails}))


if __name__ == "__main__":
    main()
