"""C15 -- Vertex and its precomputed Matsubara storage are transparent.

Proof: props/Properties_C15.v (storage_window, storage_transparent, fill_in_bounds,
vertex_is_chi_minus_chi0) about the index arithmetic that the translator regenerates from
include/pomerol/MatsubaraContainers.h and src/pomerol/Vertex4.cpp on every run.
Tie: (a) translator; (b) correspondence: the real header instantiated with a probe source and the
real Vertex4 on small models vs. the extracted model, exhaustively over boxes that extend beyond
the window on every side.
"""
import pv

MODELS = [
    ("hubbard-atom", "site A 1 2\naddCoulombS A 1 -0.5\nbeta 10\n", [(0, 1, 0, 1), (0, 0, 0, 0), (0, 1, 1, 0)]),
    ("two-site", "site A 1 2\nsite B 1 2\naddCoulombS A 2 -0.75\naddLevel B 0.25\naddHopping4 A B 0.5\nbeta 4\n",
     [(0, 1, 0, 1), (0, 2, 0, 2), (0, 2, 2, 0), (1, 3, 3, 1)]),
]


def in_window(N, n1, n2, n3):
    return all(-N <= x < N for x in (n1, n2, n3, n1 + n2 - n3))


def near_window(N, n1, n2, n3):
    return all(-N - 1 <= x < N + 1 for x in (n1, n2, n3, n1 + n2 - n3))


def run(chk):
    quick = chk.tier == "quick"
    ok, log = chk.prove(["extract/Extract_C15.vo"], extra_props=["Properties_C15_refs.v"])     # how Vertex4 holds its sources (translator/gen_vertexrefs.py)
    chk.trusted += ["translator/translate.py (gen_matsubara4, gen_vertex4), translator/gen_vertexrefs.py (regular expressions over the member declarations of class Vertex4) and translator/cexpr.py",
                    "extraction: ExtrOcamlBasic, ExtrOCamlFloats (PrimFloat -> Float64 of coq-core.kernel, prod -> OCaml tuples, bool/option/list/unit/sumbool standard); "
                    "no Extract Constant of our own",
                    "ocaml/driver_c15.ml (parsing/printing), harness/h_c15.cpp, g++ 12 / Eigen / Boost as used by the library build"]
    chk.assume += ["long arithmetic in the C++ does not overflow for the window sizes used (|n| < 2^31)",
                   "Vertex4::value's calls to Chi4/G13/G24/G14/G23 are treated as opaque values (their correctness is C01/C02)"]
    drv = pv.build_driver("driver_c15", ["C15_model"], floats=True)
    h = pv.build_harness("h_c15")

    # ---- (A) storage: real header with a probe source vs model vs specification ----
    Ns = [0, 1, 2, 3] if quick else [0, 1, 2, 3, 4, 5, 6]
    inp = "".join("probe %d %d %d\n" % (N, -2 * N - 3, 2 * N + 3) for N in Ns)
    rc, out, err = pv.run_harness(h, inp, timeout=600)
    if rc != 0:
        chk.violation("h_c15 probe crashed", "harness exit code %d on probe runs: %s" % (rc, err[-400:]),
                      {"input": inp, "stderr": err[-2000:]})
        return
    impl = [l.split() for l in out.split("\n") if l.startswith("P ")]
    minput = "".join("P %s %s %s %s\n" % (t[1], t[2], t[3], t[4]) for t in impl)
    rc2, mout, merr = pv.sh([drv], input=minput, timeout=600)
    mlines = mout.strip().split("\n") if mout.strip() else []
    if rc2 != 0 or len(mlines) != len(impl):
        chk.tie_broken("driver_c15", "model driver failed: rc=%d lines=%d/%d %s" % (rc2, len(mlines), len(impl), merr[-300:]))
        mlines = ["?"] * len(impl)
    nwin = 0
    first_impl_bad = None
    first_model_bad = None
    for t, ml in zip(impl, mlines):
        N, n1, n2, n3, a, b, c = [int(x) for x in t[1:8]]
        hit = in_window(N, n1, n2, n3)
        nwin += hit
        sig = "N=%d %s" % (N, "hit" if hit else ("edge" if near_window(N, n1, n2, n3) else "miss"))
        chk.case("P %d %d %d %d" % (N, n1, n2, n3), sig, nontrivial=near_window(N, n1, n2, n3),
                 sample={"N": N, "triple": [n1, n2, n3], "impl": [a, b, c], "model": ml} if (hit and N == 2 and n1 == 1) else None)
        if (a, b, c) != (n1, n2, n3) and first_impl_bad is None:
            first_impl_bad = (N, n1, n2, n3, a, b, c)
        if ml != "D %d %d %d" % (a, b, c) and first_model_bad is None:
            first_model_bad = (N, n1, n2, n3, (a, b, c), ml)
    if first_impl_bad:
        N, n1, n2, n3, a, b, c = first_impl_bad
        chk.violation("storage N=%d triple=(%d,%d,%d)" % (N, n1, n2, n3),
                      "MatsubaraContainer4 with window N=%d returns for (%d,%d,%d) the value of (%d,%d,%d)" % (N, n1, n2, n3, a, b, c),
                      {"harness": "h_c15", "input": "probe %d %d %d" % (N, min(n1, n2, n3), max(n1, n2, n3)),
                       "expected": [n1, n2, n3], "observed": [a, b, c]})
    elif first_model_bad:
        chk.tie_broken("storage model vs header", "first disagreement (N,n1,n2,n3,impl,model) = %r" % (first_model_bad,))

    # ---- (A1) the same probe runs under several OpenMP threads: the storage must be what one thread builds ----
    # (run_harness defaults to OMP_NUM_THREADS=1; a fill() that shares state between threads shows only here)
    big = "".join("probe %d %d %d\n" % (N, -2 * N - 3, 2 * N + 3) for N in (Ns + [5, 7] if quick else Ns + [8, 10]))
    rc1, ref_out, _ = pv.run_harness(h, big, timeout=900)
    for threads in ((8, 8, 3) if quick else (8, 8, 8, 3, 5, 16)):
        rct, tout, terr = pv.run_harness(h, big, timeout=900, env={"OMP_NUM_THREADS": str(threads)})
        chk.case("threads %d %s" % (threads, big), "storage probe under %d OpenMP threads" % threads, True, None)
        if rct != rc1 or tout != ref_out:
            a, b = ref_out.split("\n"), tout.split("\n")
            first = next((i for i in range(min(len(a), len(b))) if a[i] != b[i]), min(len(a), len(b)))
            chk.violation("storage depends on the number of OpenMP threads",
                          "MatsubaraContainer4 filled under %d OpenMP threads returns other values than under 1 thread: first difference `%s` vs `%s` (P N n1 n2 n3 value...)"
                          % (threads, (b[first] if first < len(b) else "(missing)")[:120], (a[first] if first < len(a) else "(missing)")[:120]),
                          {"harness": "h_c15", "input": big, "env": {"OMP_NUM_THREADS": threads}, "first_difference_line": first})
            break

    # ---- (A2) refill histories: fill(N1) ... fill(Nk) on the same container (shrinking, growing, to and from 0) ----
    seqs = [[2, 1], [3, 1], [1, 3], [3, 0, 2], [0, 2, 0], [3, 1, 2], [4, 2], [2, 2], [1, 0], [0, 1]]
    for _ in range(6 if quick else 40):
        seqs.append([chk.rng.randint(0, 4) for _ in range(chk.rng.randint(2, 5))])
    inp = "".join("probeseq %d %s %d %d\n" % (len(s_), " ".join(map(str, s_)), -2 * max(s_) - 3, 2 * max(s_) + 3) for s_ in seqs)
    rc, out, err = pv.run_harness(h, inp, timeout=900)
    done = [l for l in out.split("\n") if l.startswith("PSDONE")]
    if rc != 0 or len(done) != len(seqs):
        chk.violation("h_c15 probeseq crashed", "harness exit %d on refill sequences after %d/%d: %s" % (rc, len(done), len(seqs), err[-300:]),
                      {"harness": "h_c15", "input": inp, "stderr": err[-1500:]})
    bad_by_seq, cur = {}, []
    for l in out.split("\n"):
        if l.startswith("PSBAD"):
            cur.append(l.split()[1:])
        elif l.startswith("PSDONE"):
            t = l.split()
            sq = tuple(int(x) for x in t[2:])
            if cur:
                bad_by_seq[sq] = cur
            cur = []
            shape = "shrink" if len(sq) > 1 and sq[-1] < max(sq[:-1]) else ("grow" if len(sq) > 1 and sq[-1] > max(sq[:-1]) else "same")
            chk.case("PS " + " ".join(map(str, sq)), "refill %s%s" % (shape, " via0" if 0 in sq[:-1] else ""), True,
                     {"refill_sequence": list(sq)} if sq == (3, 1, 2) else None)
    if bad_by_seq:
        sq = min(bad_by_seq, key=lambda q: (len(q), sum(q), q))
        b = bad_by_seq[sq][0]
        chk.violation("storage after refill sequence " + ",".join(map(str, sq)),
                      "after fill(%s) on one container the lookup of (%s,%s,%s) returns the value of (%s,%s,%s); %d refill sequences affected" %
                      ("), fill(".join(map(str, sq)), b[0], b[1], b[2], b[3], b[4], b[5], len(bad_by_seq)),
                      {"harness": "h_c15", "input": "probeseq %d %s %d %d" % (len(sq), " ".join(map(str, sq)), -2 * max(sq) - 3, 2 * max(sq) + 3)})

    # window size reported by the model == number of hits counted independently in the box
    chk.extra["window_hits_in_boxes"] = nwin

    # ---- (B) real Vertex4: operator() vs value() bit-exact; value() vs generated formula vs documented chi - chi0 ----
    nv = 0
    for name, model, quads in MODELS:
        for N in ([0, 1, 2] if quick else [0, 1, 2, 3, 4]):
            lo, hi = -2 * N - 2, 2 * N + 2
            inp = "model\n" + model + "end\n" + "".join("vertex %d %d %d %d %d %d %d 11 %d\n" % (q + (N, lo, hi, (qi + N) % 2)) for qi, q in enumerate(quads))
            rc, out, err = pv.run_harness(h, inp, timeout=900)
            if rc != 0:
                chk.violation("h_c15 vertex crashed model=%s N=%d" % (name, N), "harness exit %d: %s" % (rc, err[-300:]),
                              {"input": inp, "stderr": err[-2000:]})
                continue
            vl = [l.split() for l in out.split("\n") if l.startswith("V ")]
            for l in out.split("\n"):
                if l.startswith("X "):
                    t = l.split()
                    chk.violation("vertex storage differs from value() model=%s" % name,
                                  "Vertex4::operator() differs from Vertex4::value(): %s vs %s" % (" ".join(t[9:11]), " ".join(t[11:13])),
                                  {"harness": "h_c15", "input": inp, "line": l})
                if l.startswith("S "):
                    t = l.split()
                    chk.case("S %s %s N=%d" % (name, "".join(t[1:5]), N), "vertex-box N=%d" % N, nontrivial=True,
                             sample={"model": name, "quad": t[1:5], "N": N, "triples": int(t[6]), "mismatches": int(t[7])} if N == 1 else None)
            minput = "".join("V %s %s %s %s\n" % (t[1], t[2], t[3], " ".join(t[4:15])) for t in vl)
            rc2, mout, merr = pv.sh([drv], input=minput, timeout=300)
            ml = mout.strip().split("\n") if mout.strip() else []
            if rc2 != 0 or len(ml) != len(vl):
                chk.tie_broken("driver_c15 V", "model driver failed: rc=%d %s" % (rc2, merr[-300:]))
                continue
            for t, m in zip(vl, ml):
                n1, n2, n3 = int(t[1]), int(t[2]), int(t[3])
                f = [pv.hexf(x) for x in t[4:17]]
                beta = f[0]
                chi, g13, g24, g14, g23, val = [complex(f[1 + 2 * i], f[2 + 2 * i]) for i in range(6)]
                mv = complex(*[pv.hexf(x) for x in m.split()])
                # documented: Gamma = chi - chi0,  chi0 = beta d(w1,w4)d(w2,w3) g14 g23 - beta d(w1,w3) d(w2,w4) g13 g24
                n4 = n1 + n2 - n3
                chi0 = beta * (n1 == n4) * (n2 == n3) * g14 * g23 - beta * (n1 == n3) * (n2 == n4) * g13 * g24
                spec = chi - chi0
                scale = abs(chi) + beta * (abs(g13 * g24) + abs(g14 * g23)) + 1e-300
                nv += 1
                chk.case("V %s %d %d %d %d" % (name, N, n1, n2, n3) + t[5],
                         "vertex-formula d13=%d d23=%d" % (n1 == n3, n2 == n3), nontrivial=(n1 == n3 or n2 == n3),
                         sample={"triple": [n1, n2, n3], "value": str(val), "model": str(mv), "spec": str(spec)} if (n1 == n3 and nv % 50 == 1) else None)
                if abs(val - spec) > 1e-12 * scale:
                    chk.violation("vertex formula model=%s triple-pattern d13=%d d23=%d" % (name, n1 == n3, n2 == n3),
                                  "Vertex4::value differs from chi - chi0 at (%d,%d,%d): %s vs %s" % (n1, n2, n3, val, spec),
                                  {"harness": "h_c15", "input": inp, "triple": [n1, n2, n3], "expected": str(spec), "observed": str(val)})
                elif abs(mv - val) > 1e-12 * scale:
                    chk.tie_broken("vertex_value (generated) vs Vertex4::value", "(%d,%d,%d): model %s impl %s" % (n1, n2, n3, mv, val))
    for name, model, quads in MODELS:
        vs = [[2, 1], [1, 2, 1], [3, 1, 2, 0, 2]] if quick else [[2, 1], [1, 2, 1], [3, 1, 2, 0, 2], [4, 2, 3, 1], [0, 3, 0, 1]]
        inp = "model\n" + model + "end\n" + "".join("vertexseq %d %d %d %d %d %s 2\n" % (quads[0] + (len(v), " ".join(map(str, v)))) for v in vs)
        rc, out, err = pv.run_harness(h, inp, timeout=900)
        if rc != 0:
            chk.violation("h_c15 vertexseq crashed model=%s" % name, "harness exit %d: %s" % (rc, err[-300:]), {"input": inp, "stderr": err[-1500:]})
            continue
        # the same recompute history with the real Vertex4 under 8 OpenMP threads (value() is expensive here, so a fill()
        # that shares state between threads has a wide window): output must be identical to the single-thread run
        rc8, out8, err8 = pv.run_harness(h, inp, timeout=900, env={"OMP_NUM_THREADS": "8"})
        chk.case("threads 8 vertexseq %s" % name, "vertex recompute under 8 OpenMP threads", True, None)
        if rc8 != 0 or out8 != out:
            a, b = out.split("\n"), out8.split("\n")
            first = next((i for i in range(min(len(a), len(b))) if a[i] != b[i]), min(len(a), len(b)))
            chk.violation("vertex storage depends on the number of OpenMP threads",
                          "Vertex4::compute(N) under 8 OpenMP threads stores other values than under 1 thread (model %s): `%s` vs `%s`"
                          % (name, (b[first] if first < len(b) else "(missing)")[:160], (a[first] if first < len(a) else "(missing)")[:160]),
                          {"harness": "h_c15", "input": inp, "env": {"OMP_NUM_THREADS": 8}})
        for l in out.split("\n"):
            if l.startswith("SS "):
                t = l.split()
                chk.case("SS %s %s" % (name, l), "vertex recompute step N=%s" % t[2], True, None)
            if l.startswith("XS "):
                t = l.split()
                chk.violation("vertex storage differs from value() after recompute model=%s" % name,
                              "one Vertex4 object recomputed with several windows: at step %s (N=%s) operator()(%s,%s,%s) = %s but value() = %s" %
                              (t[1], t[2], t[3], t[4], t[5], " ".join(t[6:8]), " ".join(t[8:10])), {"harness": "h_c15", "input": inp, "line": l})
    chk.rule = ("storage: every triple of the box [-2N-3,2N+3]^3 for each window size N (exhaustive); a case is non-trivial when all four "
                "frequencies are within one step of the window [-N,N) (hits and boundary misses); vertex: every triple of "
                "[-2N-2,2N+2]^3 compared bit-for-bit between operator() and value() on two models, and a strided sample plus "
                "a third of the n1=n3 / n2=n3 triples compared with the generated formula and with chi - chi0; refill histories: fill(N1)..fill(Nk) on one "
                "container (shrinking, growing, through 0) and one Vertex4 object recomputed with several windows; distinct = distinct canonical input")
    chk.extra["exhaustive"] = True
    chk.extra["window_sizes"] = Ns


def replay(chk, path):
    import json
    r = json.load(open(path))
    print(json.dumps(r, indent=1))
    run(chk)
    return chk.finish()


def setup():
    pv.build_driver("driver_c15", ["C15_model"], floats=True)
    pv.build_harness("h_c15")
