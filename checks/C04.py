"""C04 -- Lattice terms and presets produce the documented Hamiltonian.

Proof: props/Properties_C04.v (models PV.Lattice -- whose term factories are regenerated from
src/pomerol/LatticePresets.cpp on every run --, PV.IndexHam, specification PV.PresetsSpec).

The configuration is READ FROM THE TREE on every run (translator/gen_c04.py -> coq/gen/Gen_IndexHamiltonian.v,
Gen_MagnetizationCode.v, Gen_LatticeDocs.v):
    prepare_first_by_index   first-factor test of IndexHamiltonian::prepare: `i==0` (true) or `tmp.isEmpty()` (false)
    code_magnetization_half  LatticePresets::addMagnetization passes Magnetization/2. (true) or Magnetization (false) to Level
    doc_magnetization_half   the doxygen formula in front of addMagnetization carries \\frac{1}{2} (true) or not (false)
The theorems are stated about that configuration and the specification of addMagnetization takes its factor from the
header; they type-check iff prepare_first_by_index = true and code_magnetization_half = doc_magnetization_half
(PV.PresetsAgreement), so a change of the code or of the documentation that breaks the agreement breaks the proof
obligations, and the differential runs below then find the failing input.

Tie and decision, on every run.  Scenarios (site layout + preset calls + raw terms) are run through the real library by
harness h_ed with symmetries ignored (`model hprep`, many scenarios per process): the dump gives the real index map
(INFO), the real IndexHamiltonian polynomial (HPOLY) and the full 2^N x 2^N Fock matrix assembled by HamiltonianPart
(HBLK).  Doubles are converted exactly (hex floats of dyadic rationals).  The extracted driver (ocaml/driver_c04.ml
around PV.PresetsExec) evaluates, over exact rationals (complex build: Gaussian rationals):
  (a) MODEL vs HPOLY: Lattice.v's state machine -> IndexHam.prepare with the index map of the dump; monomials,
      coefficients and map ORDER are compared exactly.  The model variant that must reproduce the library is the one the
      source text selects (fixed = prepare_first_by_index, mag_half = code_magnetization_half); all four variants are
      evaluated so that a disagreement can be diagnosed.
  (b) documented-operator: the implementation's matrix = sum over the calls of the documented operator (PresetsSpec, the
      executable x-forms; addMagnetization with the factor the header states; raw term = value * Jordan-Wigner product);
  (c) hermitian: H[r][c] = conj H[c][r], claimed for scenarios built from presets (real parameters where the
      documentation needs them real) and raw terms that come with their Hermitian conjugate;
  (d) su2-commutator: [H, S^+_tot] = [H, S^-_tot] = 0 for two-spin lattices built from addCoulombP (U' = U - 2J),
      addCoulombS, addLevel, addSS, addHopping4/6.  addCoulombP with another U' and the negative controls (addSzSz,
      addMagnetization, single-spin hopping) are computed and counted, nothing is demanded of them.
A VIOLATION is raised only when (b), (c) or (d) fails on the implementation -- never by a mere model/code difference.
  * A failure is EXPLAINED BY A MODELLED DEFECT when the library's polynomial is that of a model variant V, some other
    variant G satisfies clause (b) on that scenario (its matrix is the documented operator) and V does not; the defects
    involved are the flags in which V and the nearest such G differ: `prepare` (first-factor test) and `magnetization`
    (code and documentation of addMagnetization are of different variants -- whichever of the two was changed).  Each is
    reported once, under the key of its corpus witness (DEFECTS below), with the number of failing scenarios it explains.
  * Everything else is shrunk (drop calls, drop sites, reduce orbitals/spins, spin-major -> default order, amplitudes ->
    1 / -1 / 0.5 / 0, smaller indices) while the same clause keeps failing, labels are renamed A, B, C, and the minimal
    scenario is the key.
If the library's polynomial differs from the model variant the source text selects on a scenario where (b)-(d) hold, the
model (or the translator) is wrong: chk.tie_broken.
"""
import json
import os
import re
from concurrent.futures import ThreadPoolExecutor
from fractions import Fraction

import pv

DRIVER = "driver_c04"
CLAUSES = {"b": "documented-operator", "c": "hermitian", "d": "su2-commutator", "x": "no-matrix"}
VARIANTS = [(0, 0), (1, 0), (0, 1), (1, 1)]      # model variants (fixed, mag_half)
# spin-major index ordering on sites with different spin counts: only when the library survives it (probed at run time; C18's finding)
MIXED_SPIN_MAJOR = {"ok": False}

# argument kinds per preset: L label, A amplitude, I integer
PRESETS = {"addCoulombS": "LAA", "addCoulombP": "LAAAA", "addCoulombP3": "LAAA", "addLevel": "LA", "addMagnetization": "LA",
           "addSzSz": "LLA", "addSS": "LLA", "addHopping8": "LLAIIII", "addHopping7": "LLAIII", "addHopping6": "LLAII",
           "addHopping4": "LLA"}
SU2_SYMMETRIC = ("addCoulombP3", "addCoulombP", "addCoulombS", "addLevel", "addSS", "addHopping4", "addHopping6")
SU2_CONTROLS = ("addSzSz", "addMagnetization", "addHopping7", "addHopping8", "addCoulombP")

F = Fraction
DYADIC = [F(0), F(1), F(-1), F(1, 2), F(-1, 2), F(1, 4), F(2), F(-3, 4), F(3, 2)]
NONZERO = [x for x in DYADIC if x != 0]

# the modelled defects: flag -> (corpus witness, where, what the witness shows)
DEFECTS = {
    "prepare": (["site A 3 1", "term 4 1 1 A 0 0 1 A 0 0 0 A 1 0 0 A 2 0"],
                "IndexHamiltonian::prepare (src/pomerol/IndexHamiltonian.cpp, `if (tmp.isEmpty()) tmp=t1; else tmp*=t1;`): a running product "
                "that has vanished (repeated operator) is mistaken for `no factor yet`, so the remaining factors alone are added",
                "the term contains c^+_0 twice, so it is the zero operator, but the library adds c_1 c_2"),
    "magnetization": (["site A 1 2", "addMagnetization A 1"],
                      "LatticePresets::addMagnetization (src/pomerol/LatticePresets.cpp) and its documentation (doxygen comment in "
                      "include/pomerol/LatticePresets.h) are of different variants",
                      "the matrix elements differ from the documented ones by a factor 2"),
}
FLAG_INDEX = {"prepare": 0, "magnetization": 1}

GEN_FILES = {"prepare_first_by_index": "Gen_IndexHamiltonian", "code_magnetization_half": "Gen_MagnetizationCode",
             "doc_magnetization_half": "Gen_LatticeDocs"}


def generated_config():
    """the three booleans the translator wrote into coq/gen (of the tree the check runs against)"""
    cfg = {}
    for name, f in GEN_FILES.items():
        try:
            txt = open(os.path.join(pv.COQ, "gen", f + ".v")).read()
        except OSError:
            cfg[name] = None
            continue
        m = re.search(r'Definition\s+%s\s*:\s*bool\s*:=\s*(true|false)\s*\.' % name, txt)
        cfg[name] = (m.group(1) == "true") if m else None
    return cfg


def defect_text(flag, lib_variant, cfg):
    lines, where, shows = DEFECTS[flag]
    if flag == "prepare":
        return ("%s -- witness `%s`: %s. The library's polynomial is that of the model with the first-factor test `tmp.isEmpty()` "
                "(fixed=0); the model with the test `i==0` (fixed=1) satisfies the clause; the source text translates to "
                "prepare_first_by_index=%s" % (where, " | ".join(lines), shows, cfg.get("prepare_first_by_index")))
    half = {0: "mH (n_up - n_down)", 1: "mH 1/2 (n_up - n_down)"}
    return ("%s -- witness `%s`: the library adds %s (its polynomial is that of model variant mag_half=%d; the source text translates "
            "to code_magnetization_half=%s), the documentation states %s (doc_magnetization_half=%s); %s"
            % (where, " | ".join(lines), half[lib_variant[1]], lib_variant[1], cfg.get("code_magnetization_half"),
               half[1 if cfg.get("doc_magnetization_half") else 0], cfg.get("doc_magnetization_half"), shows))


def witness_key(flag):
    return "%s: %s" % (CLAUSES["b"], " | ".join(DEFECTS[flag][0]))


# ----------------------------------------------------------------------------------------------------------------
# amplitudes: pairs of Fractions (re, im)

def amp(n, d=1):
    """the real amplitude n/d"""
    return (F(n, d), F(0))


def camp(re, im):
    return (F(re), F(im))


def fmt_q(x):
    """decimal text read back exactly by atof (x is dyadic)"""
    if x.denominator == 1:
        return str(x.numerator)
    s = repr(float(x))
    assert F(s) == x, "amplitude %r is not exactly representable" % (x,)
    return s


def fmt_amp(a):
    return fmt_q(a[0]) if a[1] == 0 else fmt_q(a[0]) + "," + fmt_q(a[1])


def rat(x):
    return "%d/%d" % (x.numerator, x.denominator) if x.denominator != 1 else str(x.numerator)


def rat_amp(a):
    return rat(a[0]) if a[1] == 0 else rat(a[0]) + "," + rat(a[1])


def parse_amp(s):
    p = s.split(",")
    return (F(p[0]), F(p[1]) if len(p) > 1 else F(0))


def conj(a):
    return (a[0], -a[1])


def hexfrac(tok):
    return F(*float.fromhex(tok).as_integer_ratio())


# ----------------------------------------------------------------------------------------------------------------
# scenarios.  item = ("site", label, orbitals, spins) | ("preset", name, [args]) | ("term", value, [(dag, label, orb, spin)], hc)
# preset args: labels are str, amplitudes are (re, im) pairs, integers are int.

class Scen:
    def __init__(self, items, order_spins=0, variant="real", tag="", su2_control=None):
        self.items, self.order_spins, self.variant, self.tag = list(items), order_spins, variant, tag
        self.su2_control = su2_control

    def copy(self, items=None, order_spins=None):
        return Scen(self.items if items is None else items, self.order_spins if order_spins is None else order_spins,
                    self.variant, self.tag, self.su2_control)

    def sites(self):
        m = {}
        for it in self.items:
            if it[0] == "site":
                m[it[1]] = (it[2], it[3])
        return m

    def modes(self):
        return sum(a * b for a, b in self.sites().values())

    def lines(self, f=fmt_amp):
        out = []
        for it in self.items:
            if it[0] == "site":
                out.append("site %s %d %d" % it[1:])
            elif it[0] == "preset":
                out.append(it[1] + " " + " ".join(f(a) if isinstance(a, tuple) else str(a) for a in it[2]))
            else:
                _, v, ops, hc = it
                out.append("term %d %s %s" % (len(ops), f(v), " ".join("%d %s %d %d" % tuple(o) for o in ops)))
                if hc:
                    out.append("term %d %s %s" % (len(ops), f(conj(v)), " ".join("%d %s %d %d" % ((1 - o[0],) + tuple(o[1:])) for o in reversed(ops))))
        return out

    def text(self):
        return " | ".join(self.lines() + (["order_spins 1"] if self.order_spins else []))

    def hermitian_input(self):
        """the documented operator is Hermitian: raw terms come with their conjugate, presets that need real parameters have them"""
        for it in self.items:
            if it[0] == "term" and not it[3] and it[1] != (0, 0):
                return False
            if it[0] == "preset" and not it[1].startswith("addHopping") and any(isinstance(a, tuple) and a[1] != 0 for a in it[2]):
                return False
        return True

    def su2_class(self):
        """'sym' (clause d is claimed), 'general-Up' (addCoulombP with U' <> U - 2J on an otherwise symmetric lattice: commutators computed
        and counted, nothing demanded -- the property text claims U' = U - 2J only), 'control' (negative control) or None"""
        s = self.sites()
        if not s or any(sh[1] != 2 for sh in s.values()):
            return None
        calls = [it for it in self.items if it[0] != "site"]
        if not calls or any(it[0] == "term" for it in calls):
            return None
        general = False
        for it in calls:
            if it[1] not in SU2_SYMMETRIC:
                return "control"
            if any(isinstance(a, tuple) and a[1] != 0 for a in it[2]):
                return "control"        # complex parameters: nothing is claimed
            if it[1] == "addCoulombP":
                U, Up, J = it[2][1], it[2][2], it[2][3]
                if Up[0] != U[0] - 2 * J[0]:
                    general = True
        return "general-Up" if general else "sym"

    def valid(self):
        """every call is defined for the lattice at the time of the call (PV.Lattice.preset_defined / addTerm validation), at most 6 modes,
        spin-major ordering only for equal spin counts (otherwise C18's finding gets in the way)"""
        m = {}
        for it in self.items:
            if it[0] == "site":
                if it[1] in m or it[2] < 1 or it[3] < 1:
                    return False
                m[it[1]] = (it[2], it[3])
            elif it[0] == "term":
                if len(it[2]) not in (2, 4, 6):
                    return False
                for _, l, a, z in it[2]:
                    if l not in m or a >= m[l][0] or z >= m[l][1]:
                        return False
            else:
                name, a = it[1], it[2]
                labs = [x for x, k in zip(a, PRESETS[name]) if k == "L"]
                if any(l not in m for l in labs):
                    return False
                s1, s2 = m[labs[0]], m[labs[-1]]
                if name in ("addCoulombP", "addCoulombP3") and (s1[0] < 2 or s1[1] < 2):
                    return False
                if name == "addMagnetization" and s1[1] != 2:
                    return False
                if name in ("addSzSz", "addSS") and (s1 != s2 or s1[1] != 2):
                    return False
                if name == "addHopping4" and s1 != s2:
                    return False
                if name == "addHopping6" and (s1[1] != s2[1] or a[3] >= s1[0] or a[4] >= s2[0]):
                    return False
                if name == "addHopping7" and (a[3] >= s1[0] or a[4] >= s2[0] or a[5] >= s1[1] or a[5] >= s2[1]):
                    return False
                if name == "addHopping8" and (a[3] >= s1[0] or a[4] >= s2[0] or a[5] >= s1[1] or a[6] >= s2[1]):
                    return False
        if not m or sum(x * y for x, y in m.values()) > 6:
            return False
        if self.order_spins and len(set(s[1] for s in m.values())) > 1 and not MIXED_SPIN_MAJOR["ok"]:
            return False
        # every site line precedes the calls (the index map of the dump is the final site map)
        seen_call = False
        for it in self.items:
            if it[0] != "site":
                seen_call = True
            elif seen_call:
                return False
        return True

    def to_json(self):
        return {"lines": self.lines(), "order_spins": self.order_spins, "variant": self.variant, "hermitian_input": self.hermitian_input(),
                "su2": self.su2_class(), "items": json.loads(json.dumps(self.items, default=str))}


def scen_from_lines(lines, order_spins=0, variant="real", hermitian=None, su2=None):
    """rebuild a scenario from harness lines (replay); consecutive term / conjugate-term lines are paired when hermitian is set"""
    items = []
    for line in lines:
        t = line.split()
        if t[0] == "site":
            items.append(("site", t[1], int(t[2]), int(t[3])))
        elif t[0] == "term":
            n = int(t[1])
            ops = [(int(t[3 + 4 * i]), t[4 + 4 * i], int(t[5 + 4 * i]), int(t[6 + 4 * i])) for i in range(n)]
            v = parse_amp(t[2])
            prev = items[-1] if items else None
            if hermitian and prev and prev[0] == "term" and not prev[3] and conj(prev[1]) == v and \
                    [(1 - o[0],) + o[1:] for o in reversed(prev[2])] == ops:
                items[-1] = ("term", prev[1], prev[2], True)
            else:
                items.append(("term", v, ops, False))
        elif t[0] in PRESETS:
            a = []
            for x, k in zip(t[1:], PRESETS[t[0]]):
                a.append(x if k == "L" else parse_amp(x) if k == "A" else int(x))
            items.append(("preset", t[0], a))
        elif t[0] == "order_spins":
            order_spins = int(t[1])
    return Scen(items, order_spins, variant, "replay")


# ----------------------------------------------------------------------------------------------------------------
# running the implementation (batched) and the driver

def harness_input(scens):
    return "".join("model hprep\n%s\norder_spins %d\nsymm ignore\nend\n" % ("\n".join(s.lines()), s.order_spins) for s in scens)


def split_segments(out):
    """h_ed prints, per `model` block, either `ERROR ...` or `BUILT <stage>` followed by the dump records"""
    segs = []
    for l in out.split("\n"):
        t = l.split()
        if not t:
            continue
        if t[0] in ("BUILT", "ERROR"):
            segs.append([t])
        elif segs:
            segs[-1].append(t)
    return segs


class Impl:
    """what the library produced for one scenario"""

    def __init__(self, seg=None, crash=None):
        self.error = self.crash = None
        self.n, self.info, self.hpoly, self.matrix = None, [], None, None
        if crash is not None:
            self.crash = crash
            return
        if seg[0][0] == "ERROR":
            self.error = " ".join(seg[0][1:])
            return
        block = None
        for t in seg[1:]:
            if t[0] == "N":
                self.n = int(t[1])
            elif t[0] == "INFO":
                if t[2] == "NULL":
                    self.error = "IndexClassification left a null IndexInfo entry"
                else:
                    self.info.append((t[2], int(t[3]), int(t[4]), int(t[1])))
            elif t[0] == "HPOLY":
                nt, p, poly = int(t[1]), 2, []
                for _ in range(nt):
                    re, im, ln = hexfrac(t[p]), hexfrac(t[p + 1]), int(t[p + 2])
                    p += 3
                    mono = tuple((int(t[p + 2 * k]), int(t[p + 2 * k + 1])) for k in range(ln))
                    p += 2 * ln
                    poly.append((re, im, mono))
                self.hpoly = poly
            elif t[0] == "NBLOCKS" and int(t[1]) != 1:
                self.error = "expected one block with symmetries ignored, got %s" % t[1]
            elif t[0] == "BLOCK":
                block = [int(x) for x in t[3:]]
            elif t[0] == "HBLK":
                d = int(t[2])
                vals = t[3:]
                if block is None or len(block) != d or len(vals) != 2 * d * d or sorted(block) != list(range(d)):
                    self.error = "malformed HBLK/BLOCK records"
                    continue
                # natural order: row/column index = Fock-state number
                m = [[None] * d for _ in range(d)]
                for r in range(d):
                    for c in range(d):
                        k = 2 * (r * d + c)
                        m[block[r]][block[c]] = (hexfrac(vals[k]), hexfrac(vals[k + 1]))
                self.matrix = m
        if self.error is None and (self.n is None or self.matrix is None or self.hpoly is None or len(self.matrix) != 2 ** self.n):
            self.error = "incomplete dump"


class Tools:
    def __init__(self, variants=("real",)):
        self.h = dict((v, pv.build_harness("h_ed", v)) for v in variants)
        self.drv = pv.build_driver(DRIVER, ["C04_model"])
        self.pool = ThreadPoolExecutor(max_workers=min(8, pv.NPROC))
        self.stats = {"harness_processes": 0, "driver_processes": 0}

    def probe_spin_major(self):
        """does IndexClassification::prepare(true) cope with sites of different spin counts on this tree?"""
        ok = True
        for v in self.h:
            s = Scen([site("A", 1, 1), site("B", 1, 2), P("addLevel", "B", amp(1))], 1, v)
            im = self._impl_batch(v, [s])[0]
            ok = ok and im.matrix is not None and len(im.info) == 3
        MIXED_SPIN_MAJOR["ok"] = ok
        return ok

    def _impl_batch(self, variant, scens):
        self.stats["harness_processes"] += 1
        rc, out, err = pv.run_harness(self.h[variant], harness_input(scens), timeout=300)
        segs = split_segments(out)
        if rc == 0 and len(segs) == len(scens):
            return [Impl(s) for s in segs]
        if len(scens) == 1:
            return [Impl(crash="rc=%d %s" % (rc, (pv.sanitizer_digest(err) or err[-400:]).strip()))]
        h = len(scens) // 2
        return self._impl_batch(variant, scens[:h]) + self._impl_batch(variant, scens[h:])

    def impl(self, scens, batch=48):
        res = [None] * len(scens)
        jobs = []
        for v in set(s.variant for s in scens):
            ix = [i for i, s in enumerate(scens) if s.variant == v]
            for k in range(0, len(ix), batch):
                part = ix[k:k + batch]
                jobs.append((part, self.pool.submit(self._impl_batch, v, [scens[i] for i in part])))
        for part, fut in jobs:
            for i, r in zip(part, fut.result()):
                res[i] = r
        return res

    def _drv_batch(self, text):
        self.stats["driver_processes"] += 1
        rc, out, err = pv.sh([self.drv], input=text, timeout=900)
        res, cur = {}, None
        for l in out.split("\n"):
            t = l.split()
            if not t:
                continue
            if t[0] == "==":
                cur = res.setdefault(t[1], {})
            elif cur is not None:
                if t[0] in ("POLY", "SU2"):
                    cur[t[0] + t[1]] = t[2:]
                else:
                    cur[t[0]] = t[1:]
        return rc, res, err

    def driver(self, scens, impls, batch=24):
        """-> list of dicts (driver records) or None where the implementation produced no matrix"""
        texts, ids = [], []
        for i, (s, im) in enumerate(zip(scens, impls)):
            if im.matrix is None:
                continue
            su2 = s.su2_class()
            t = ["case %d %s %d" % (i, "c" if s.variant == "complex" else "q", 1 if su2 else 0), "n %d" % im.n]
            t += ["info %s %d %d %d" % x for x in im.info]
            t += s.lines(rat_amp)
            t.append("H %d %s" % (len(im.matrix), " ".join(rat(x[0]) + " " + rat(x[1]) for row in im.matrix for x in row)))
            t.append("end")
            texts.append("\n".join(t) + "\n")
            ids.append(i)
        # big cases first so that the batches finish together
        order = sorted(range(len(ids)), key=lambda k: -len(texts[k]))
        nb = max(1, min(self.pool._max_workers, (len(ids) + batch - 1) // batch))
        groups = [[] for _ in range(nb)]
        for j, k in enumerate(order):
            groups[j % nb].append(k)
        futs = [self.pool.submit(self._drv_batch, "".join(texts[k] for k in g)) for g in groups if g]
        res = [None] * len(scens)
        for fut in futs:
            rc, out, err = fut.result()
            for key, rec in out.items():
                res[int(key)] = rec
            if rc != 0:
                self.driver_error = err[-600:]
        for i in ids:
            if res[i] is None:
                res[i] = {"DRIVER-ERROR": ["no output"]}
        return res


def poly_of_tokens(t):
    if t and t[0] == "FAIL":
        return None
    nt, p, poly = int(t[0]), 1, []
    for _ in range(nt):
        re, im, ln = F(t[p]), F(t[p + 1]), int(t[p + 2])
        p += 3
        mono = tuple((int(t[p + 2 * k]), int(t[p + 2 * k + 1])) for k in range(ln))
        p += 2 * ln
        poly.append((re, im, mono))
    return poly


class Verdict:
    """judgement of one scenario"""

    def __init__(self, scen, impl, rec):
        self.scen, self.impl, self.rec = scen, impl, rec
        self.fails = []            # clause ids
        self.detail = {}
        self.match = None          # {(fixed, mag_half): HPOLY = that model variant's polynomial}
        self.polys = {}
        self.model_ok = None       # every call succeeds in the model
        self.driver_error = None
        self.commutes = None
        self.modelspec = None      # {(fixed, mag_half): that model variant's matrix is the documented operator} (asked only when clause (b) fails)
        self.config = None         # (fixed, mag_half, doc_half) as compiled into the driver (extracted PresetsConfig)
        if impl.matrix is None:
            self.fails.append("x")
            self.detail["x"] = impl.crash or impl.error
            return
        if "DRIVER-ERROR" in rec or "BAD" in rec or "SPEC" not in rec:
            self.driver_error = " ".join(rec.get("DRIVER-ERROR", rec.get("BAD", ["incomplete driver output"])))
            return
        self.model_ok = all(x == "ok" for x in rec["RES"])
        self.polys = dict((v, poly_of_tokens(rec["POLY%d%d" % v])) for v in VARIANTS)
        self.match = dict((v, self.polys[v] is not None and self.polys[v] == impl.hpoly) for v in VARIANTS)
        if "CONFIG" in rec and len(rec["CONFIG"]) == 3:
            self.config = tuple(int(x) for x in rec["CONFIG"])
        if "MODELSPEC" in rec and len(rec["MODELSPEC"]) == len(VARIANTS):
            self.modelspec = dict((v, x == "0") for v, x in zip(VARIANTS, rec["MODELSPEC"]))
        if int(rec["SPEC"][0]) != 0:
            self.fails.append("b")
            e = rec["SPEC"][1:]
            ratios = set()
            for k in range(0, len(e), 6):
                hv, sv = (F(e[k + 2]), F(e[k + 3])), (F(e[k + 4]), F(e[k + 5]))
                ratios.add(str(hv[0] / sv[0]) if sv[0] != 0 and hv[1] == 0 and sv[1] == 0 else "n/a")
            self.detail["b"] = {"entries_differing": int(rec["SPEC"][0]),
                                "implementation/documented on these entries": sorted(ratios)[0] if len(ratios) == 1 else "varies",
                                "first": [{"row(bra)": int(e[k]), "col(ket)": int(e[k + 1]), "implementation": e[k + 2] + " " + e[k + 3],
                                           "documented": e[k + 4] + " " + e[k + 5]} for k in range(0, len(e), 6)]}
        self.spec_hermitian = rec["SPECSYM"] == ["1"]
        if scen.hermitian_input() and int(rec["HERM"][0]) != 0:
            self.fails.append("c")
            self.detail["c"] = {"entries_differing": int(rec["HERM"][0]), "first(row col)": rec["HERM"][1:]}
        cls = scen.su2_class()
        if cls:
            np_, nm = int(rec["SU2+"][0]), int(rec["SU2-"][0])
            self.commutes = (np_ == 0 and nm == 0)
            if cls == "sym" and not self.commutes:
                self.fails.append("d")
                self.detail["d"] = {"nonzero_entries_of_[H,S+]": np_, "nonzero_entries_of_[H,S-]": nm,
                                    "first(row col re im)": rec["SU2+"][1:] + rec["SU2-"][1:]}

    def lib_variants(self):
        return [v for v in VARIANTS if self.match and self.match[v]]

    def explanation(self):
        """(flags, library variant V, satisfying variant G) when the failed clause (b) of this scenario is explained by modelled
        defects, else None.  Explained = the library's polynomial is that of a model variant V whose matrix is not the documented
        operator while some variant G's is; the defects involved are the flags in which V and the nearest such G differ."""
        if "b" not in self.fails or "x" in self.fails or "d" in self.fails or not self.modelspec:
            return None
        lv = self.lib_variants()
        good = [g for g in VARIANTS if self.modelspec.get(g)]
        if not lv or not good or any(v in good for v in lv):
            return None
        best = None
        if self.config:      # among equal candidates prefer the variant the source text selects
            lv = sorted(lv, key=lambda v: v != self.config[:2])
        for v in lv:
            for g in good:
                d = sum(1 for a, b in zip(v, g) if a != b)
                if best is None or d < best[0]:
                    best = (d, v, g)
        _, v, g = best
        flags = [f for f, i in sorted(FLAG_INDEX.items(), key=lambda kv: kv[1]) if v[i] != g[i]]
        return (flags, v, g) if flags else None

    def explained_by(self):
        e = self.explanation()
        return e[0] if e else None


def judge(tools, scens):
    impls = tools.impl(scens)
    recs = tools.driver(scens, impls)
    return [Verdict(s, im, r) for s, im, r in zip(scens, impls, recs)]


# ----------------------------------------------------------------------------------------------------------------
# shrinking

SIMPLE = [amp(1), amp(-1), amp(1, 2)]


def amp_rank(a):
    if a == (0, 0):
        return -1
    if a in SIMPLE:
        return SIMPLE.index(a)
    if a[0] == 0 and a[1] in (1, -1):
        return 3
    return 4


def simpler_amps(a):
    r = amp_rank(a)
    if r < 0:
        return []
    c = [x for x in SIMPLE if amp_rank(x) < r]
    if a[1] != 0 and r > 3:
        c.append(camp(0, 1))
    return c


def fix_p(item):
    """keep U' = U - 2J in an addCoulombP call of the SU(2) class"""
    a = list(item[2])
    a[2] = (a[1][0] - 2 * a[3][0], a[1][1] - 2 * a[3][1])
    return ("preset", item[1], a)


def candidates(s, keep_up):
    """smaller / simpler scenarios, most drastic first"""
    items = s.items
    out = []
    if s.order_spins:
        out.append(s.copy(order_spins=0))
    calls = [i for i, it in enumerate(items) if it[0] != "site"]
    # drop a site together with everything that mentions it
    for i, it in enumerate(items):
        if it[0] == "site":
            l = it[1]
            keep = [x for x in items if not (x is it or (x[0] == "preset" and l in [y for y, k in zip(x[2], PRESETS[x[1]]) if k == "L"])
                                             or (x[0] == "term" and any(o[1] == l for o in x[2])))]
            out.append(s.copy(items=keep))
    for i in reversed(calls):
        out.append(s.copy(items=items[:i] + items[i + 1:]))
    # a raw term without its conjugate partner is no smaller input for the Hermiticity clause; handled by the caller's clause test
    for i, it in enumerate(items):
        if it[0] == "site":
            if it[2] > 1:
                out.append(s.copy(items=items[:i] + [("site", it[1], it[2] - 1, it[3])] + items[i + 1:]))
            if it[3] > 1:
                out.append(s.copy(items=items[:i] + [("site", it[1], it[2], it[3] - 1)] + items[i + 1:]))
    for i in calls:
        it = items[i]
        if it[0] == "preset":
            for j, (x, k) in enumerate(zip(it[2], PRESETS[it[1]])):
                alts = simpler_amps(x) + ([amp(0)] if x != (0, 0) and len([1 for kk in PRESETS[it[1]] if kk == "A"]) > 1 else []) if k == "A" \
                    else list(range(x)) if k == "I" else []
                for a in alts:
                    new = ("preset", it[1], it[2][:j] + [a] + it[2][j + 1:])
                    if keep_up and it[1] == "addCoulombP":
                        if j == 2:
                            continue
                        new = fix_p(new)
                    out.append(s.copy(items=items[:i] + [new] + items[i + 1:]))
            # the shortcut overloads say the same with fewer arguments
            if it[1] == "addCoulombP" and it[2][2] == (it[2][1][0] - 2 * it[2][3][0], it[2][1][1] - 2 * it[2][3][1]):
                out.append(s.copy(items=items[:i] + [("preset", "addCoulombP3", [it[2][0], it[2][1], it[2][3], it[2][4]])] + items[i + 1:]))
        else:
            _, v, ops, hc = it
            for a in simpler_amps(v):
                out.append(s.copy(items=items[:i] + [("term", a, ops, hc)] + items[i + 1:]))
            if hc:
                out.append(s.copy(items=items[:i] + [("term", v, ops, False)] + items[i + 1:]))
            if len(ops) > 2:
                for j in range(len(ops) - 1):
                    out.append(s.copy(items=items[:i] + [("term", v, ops[:j] + ops[j + 2:], hc)] + items[i + 1:]))
            for j, o in enumerate(ops):
                for new in [(o[0], o[1], a, o[3]) for a in range(o[2])] + [(o[0], o[1], o[2], z) for z in range(o[3])]:
                    out.append(s.copy(items=items[:i] + [("term", v, ops[:j] + [new] + ops[j + 1:], hc)] + items[i + 1:]))
    return [c for c in out if c.valid()]


def canonical(s):
    names = {}

    def nm(x):
        if x not in names:
            names[x] = "ABCDEFGH"[len(names)]
        return names[x]
    items = []
    for it in s.items:
        if it[0] == "site":
            items.append(("site", nm(it[1]), it[2], it[3]))
        elif it[0] == "preset":
            items.append(("preset", it[1], [nm(x) if k == "L" else x for x, k in zip(it[2], PRESETS[it[1]])]))
        else:
            items.append(("term", it[1], [(o[0], nm(o[1]), o[2], o[3]) for o in it[2]], it[3]))
    return s.copy(items=items)


def shrink(tools, s, clause, rounds=40):
    """greedy: the first candidate on which the implementation still fails the same clause (and, for clause (d), the scenario is
    still of the class for which the clause is claimed) replaces the scenario"""
    def still(v):
        return clause in v.fails
    cur = s
    for _ in range(rounds):
        cands = candidates(cur, keep_up=(clause == "d"))
        if clause == "d":
            cands = [c for c in cands if c.su2_class() == "sym"]
        if clause == "c":
            cands = [c for c in cands if c.hermitian_input()]
        if not cands:
            break
        vs = judge(tools, cands)
        good = [c for c, v in zip(cands, vs) if still(v)]
        if not good:
            break
        cur = good[0]
    can = canonical(cur)
    if can.text() != cur.text():
        v = judge(tools, [can])[0]
        if still(v):
            cur = can
    return cur


# ----------------------------------------------------------------------------------------------------------------
# generation

def P(name, *args):
    return ("preset", name, list(args))


def site(l, a, b):
    return ("site", l, a, b)


def term(v, ops, hc=False):
    return ("term", v, list(ops), hc)


def corpus(variant="real"):
    """directed scenarios: one per preset x same-site/two-site x zero/non-zero parameter x site shape class, the defect witnesses,
    Kanamori with 2 and 3 orbitals, exchange same-site and two-site, raw terms of 2/4/6 operators"""
    c = []
    cx = variant == "complex"
    t1 = camp(F(1, 2), F(-3, 4)) if cx else amp(-3, 4)
    t2 = camp(0, 1) if cx else amp(3, 2)

    def add(tag, items, order_spins=0, control=None):
        c.append(Scen(items, order_spins, variant, "corpus:" + tag, control))
    # --- the two known defects
    add("witness-prepare", [site("A", 3, 1), term(amp(1), [(1, "A", 0, 0), (1, "A", 0, 0), (0, "A", 1, 0), (0, "A", 2, 0)])])
    add("witness-magnetization", [site("A", 1, 2), P("addMagnetization", "A", amp(1))])
    # --- single-site presets over shape classes and zero / non-zero parameters
    for sh in [(1, 1), (1, 2), (2, 1), (2, 2), (3, 2), (1, 3), (2, 3), (3, 1)]:
        for k, e in enumerate([amp(1, 4), amp(0), amp(-1)]):
            if k < 2 or sh in ((1, 2), (2, 2)):
                add("level", [site("A", *sh), P("addLevel", "A", e)], order_spins=k % 2)
        for k, (U, e) in enumerate([(amp(1), amp(0)), (amp(0), amp(1, 2)), (amp(0), amp(0)), (amp(-3, 4), amp(1, 4)), (amp(2), amp(-1))]):
            if k < 4 or sh in ((1, 2), (2, 2), (1, 3)):
                add("coulombS", [site("A", *sh), P("addCoulombS", "A", U, e)], order_spins=(k + 1) % 2)
    for sh in [(2, 2), (3, 2), (2, 3)]:
        for k, (U, Up, J, e) in enumerate([(amp(2), amp(1), amp(1, 2), amp(-1)), (amp(0), amp(0), amp(0), amp(0)), (amp(1), amp(1, 2), amp(0), amp(0)),
                                           (amp(1), amp(0), amp(1, 4), amp(0)), (amp(0), amp(1, 2), amp(1, 2), amp(1, 4)), (amp(-1), amp(3, 2), amp(-3, 4), amp(0)),
                                           (amp(0), amp(0), amp(1), amp(0))]):
            add("coulombP", [site("A", *sh), P("addCoulombP", "A", U, Up, J, e)], order_spins=k % 2)
        for k, (U, J, e) in enumerate([(amp(2), amp(1, 2), amp(0)), (amp(1), amp(0), amp(1, 4)), (amp(0), amp(0), amp(0)), (amp(-1), amp(-3, 4), amp(-1, 2)),
                                       (amp(1), amp(1, 2), amp(0))]):
            add("coulombP3", [site("A", *sh), P("addCoulombP3", "A", U, J, e)], order_spins=(k + 1) % 2)
    for sh in [(1, 2), (2, 2), (3, 2)]:
        for k, m in enumerate([amp(1), amp(0), amp(-1, 2), amp(2)]):
            add("magnetization", [site("A", *sh), P("addMagnetization", "A", m)], order_spins=k % 2)
        add("magnetization+spectator", [site("B", 1, 1), site("A", *sh), P("addMagnetization", "A", amp(1, 4))] if sh[0] < 3 else
            [site("A", *sh), P("addMagnetization", "A", amp(1, 4)), P("addLevel", "A", amp(1))])
    # --- exchange presets, same-site and two-site
    for name in ("addSzSz", "addSS"):
        for sh in [(1, 2), (2, 2), (3, 2)]:
            for k, J in enumerate([amp(1), amp(0), amp(-3, 4)]):
                add(name + "-same-site", [site("A", *sh), P(name, "A", "A", J)], order_spins=k % 2)
        for k, J in enumerate([amp(1), amp(0), amp(-1, 2), amp(2)]):
            add(name + "-two-site", [site("A", 1, 2), site("B", 1, 2), P(name, "A", "B", J)], order_spins=k % 2)
            add(name + "-two-site-reversed", [site("A", 1, 2), site("B", 1, 2), P(name, "B", "A", J)], order_spins=(k + 1) % 2)
        add(name + "-two-site+spectator", [site("C", 1, 2), site("A", 1, 2), site("B", 1, 2), P(name, "A", "B", amp(1, 4))])
        add(name + "-two-site+spectator1", [site("A", 1, 2), site("bath", 2, 1), site("B", 1, 2), P(name, "B", "A", amp(3, 2))])
        add(name + "-chain", [site("A", 1, 2), site("B", 1, 2), site("C", 1, 2), P(name, "A", "B", amp(1)), P(name, "B", "C", amp(-1, 2)),
                              P(name, "C", "C", amp(1, 4))], order_spins=1)
    # --- hopping, four overloads
    for k, t in enumerate([t1, amp(0), t2, amp(1)]):
        add("hopping8-two-site", [site("A", 2, 2), site("B", 1, 1), P("addHopping8", "A", "B", t, 1, 0, 1, 0)])
        add("hopping8-two-site-spinflip", [site("A", 1, 2), site("B", 1, 2), P("addHopping8", "A", "B", t, 0, 0, 1, 0)], order_spins=k % 2)
        add("hopping8-same-site", [site("A", 2, 2), P("addHopping8", "A", "A", t, 0, 1, 0, 1)], order_spins=k % 2)
        add("hopping8-same-index", [site("A", 1, 2), P("addHopping8", "A", "A", t, 0, 0, 1, 1)])
        add("hopping8-three-spins", [site("A", 1, 3), site("B", 1, 1), P("addHopping8", "B", "A", t, 0, 0, 0, 2)])
        add("hopping7-two-site", [site("A", 2, 2), site("B", 1, 2), P("addHopping7", "A", "B", t, 1, 0, 1)], order_spins=k % 2)
        add("hopping7-same-site", [site("A", 3, 1), P("addHopping7", "A", "A", t, 2, 0, 0)])
        add("hopping6-two-site", [site("A", 2, 2), site("B", 1, 2), P("addHopping6", "A", "B", t, 1, 0)], order_spins=(k + 1) % 2)
        add("hopping6-two-site-three-spins", [site("A", 1, 3), site("B", 1, 3), P("addHopping6", "B", "A", t, 0, 0)])
        add("hopping6-same-site", [site("A", 2, 2), P("addHopping6", "A", "A", t, 0, 1)])
        add("hopping6-same-index", [site("A", 2, 1), P("addHopping6", "A", "A", t, 1, 1)])
        add("hopping4-two-site", [site("A", 1, 2), site("B", 1, 2), P("addHopping4", "A", "B", t)], order_spins=k % 2)
        add("hopping4-same-site", [site("A", 2, 2), P("addHopping4", "A", "A", t)])
    add("hopping4-two-site-spinless", [site("A", 3, 1), site("B", 3, 1), P("addHopping4", "A", "B", t1)])
    add("hopping4-two-site-three-spins", [site("A", 1, 3), site("B", 1, 3), P("addHopping4", "B", "A", t2)], order_spins=1)
    add("hopping4-ring", [site("A", 1, 2), site("B", 1, 2), site("C", 1, 2), P("addHopping4", "A", "B", t1), P("addHopping4", "B", "C", t1),
                          P("addHopping4", "C", "A", t1)])
    # --- raw terms of 2, 4, 6 operators
    v = camp(F(1, 2), F(1, 4)) if cx else amp(1, 2)
    add("term2", [site("A", 1, 2), term(v, [(1, "A", 0, 0), (0, "A", 0, 1)], True)])
    add("term2-no-hc", [site("A", 1, 2), term(v, [(1, "A", 0, 0), (0, "A", 0, 1)])])
    add("term2-number", [site("A", 1, 2), term(amp(-1), [(1, "A", 0, 1), (0, "A", 0, 1)])])
    add("term2-antinormal", [site("A", 1, 2), term(amp(1), [(0, "A", 0, 1), (1, "A", 0, 1)], True)])
    add("term2-pairing", [site("A", 1, 2), term(v, [(1, "A", 0, 1), (1, "A", 0, 0)], True)], order_spins=1)
    add("term2-square", [site("A", 1, 2), term(amp(1), [(1, "A", 0, 1), (1, "A", 0, 1)], True)])
    add("term2-zero", [site("A", 1, 2), term(amp(0), [(1, "A", 0, 0), (0, "A", 0, 1)])])
    add("term4", [site("A", 2, 2), term(v, [(1, "A", 0, 1), (1, "A", 1, 0), (0, "A", 1, 1), (0, "A", 0, 0)], True)])
    add("term4-two-site", [site("A", 1, 2), site("B", 1, 2), term(v, [(1, "A", 0, 1), (0, "B", 0, 1), (1, "B", 0, 0), (0, "A", 0, 0)], True)], order_spins=1)
    add("term4-nn", [site("A", 1, 2), term(amp(2), [(1, "A", 0, 1), (0, "A", 0, 1), (1, "A", 0, 0), (0, "A", 0, 0)])])
    add("term4-mixed-order", [site("A", 2, 2), term(v, [(0, "A", 0, 1), (1, "A", 1, 0), (0, "A", 1, 1), (1, "A", 0, 0)], True)])
    add("term4-repeated-last", [site("A", 3, 1), term(amp(1), [(0, "A", 1, 0), (0, "A", 2, 0), (1, "A", 0, 0), (1, "A", 0, 0)])])
    add("term4-n-squared", [site("A", 1, 1), term(amp(1), [(1, "A", 0, 0), (0, "A", 0, 0), (1, "A", 0, 0), (0, "A", 0, 0)])])
    add("term4-repeated-one-mode", [site("A", 1, 1), term(amp(1), [(0, "A", 0, 0), (0, "A", 0, 0), (1, "A", 0, 0), (0, "A", 0, 0)])])
    add("term4-repeated-with-hc", [site("A", 3, 1), term(amp(1), [(1, "A", 0, 0), (1, "A", 0, 0), (0, "A", 1, 0), (0, "A", 2, 0)], True)])
    add("term6", [site("A", 3, 2), term(v, [(1, "A", 0, 1), (1, "A", 1, 1), (1, "A", 2, 1), (0, "A", 2, 0), (0, "A", 1, 0), (0, "A", 0, 0)], True)])
    add("term6-nnn", [site("A", 3, 1), term(amp(-1, 2), [(1, "A", 0, 0), (0, "A", 0, 0), (1, "A", 1, 0), (0, "A", 1, 0), (1, "A", 2, 0), (0, "A", 2, 0)])])
    add("term6-repeated", [site("A", 2, 2), term(amp(1), [(1, "A", 0, 0), (0, "A", 1, 0), (0, "A", 1, 0), (1, "A", 1, 1), (1, "A", 0, 1), (0, "A", 0, 0)])])
    add("term6-two-site", [site("A", 1, 2), site("B", 2, 2), term(v, [(1, "B", 1, 1), (0, "A", 0, 1), (1, "B", 0, 0), (0, "B", 1, 0), (1, "A", 0, 0), (0, "B", 0, 1)], True)])
    add("terms-orders-mixed", [site("A", 2, 2), term(amp(1), [(1, "A", 0, 0), (0, "A", 1, 0)], True),
                               term(amp(1, 4), [(1, "A", 0, 1), (0, "A", 0, 1), (1, "A", 1, 1), (0, "A", 1, 1), (1, "A", 0, 0), (0, "A", 0, 0)]),
                               term(amp(-1), [(1, "A", 0, 1), (0, "A", 0, 1), (1, "A", 0, 0), (0, "A", 0, 0)]), P("addLevel", "A", amp(1, 2))])
    # --- models: Hubbard dimer, Anderson impurity, Kanamori + hopping; SU(2) class and its negative controls
    add("hubbard-dimer", [site("A", 1, 2), site("B", 1, 2), P("addCoulombS", "A", amp(2), amp(-1)), P("addCoulombS", "B", amp(2), amp(-1)),
                          P("addHopping4", "A", "B", amp(-1, 2))])
    add("hubbard-dimer-spin-major", [site("A", 1, 2), site("B", 1, 2), P("addCoulombS", "A", amp(2), amp(-1)), P("addCoulombS", "B", amp(2), amp(-1)),
                                     P("addHopping4", "A", "B", amp(-1, 2))], order_spins=1)
    add("anderson", [site("C", 1, 2), site("b0", 1, 2), site("b1", 1, 2), P("addCoulombS", "C", amp(1), amp(-1, 2)), P("addLevel", "b0", amp(1, 4)),
                     P("addLevel", "b1", amp(-1, 4)), P("addHopping4", "C", "b0", amp(1, 2)), P("addHopping4", "C", "b1", amp(-3, 4))])
    add("kanamori2-su2", [site("A", 2, 2), P("addCoulombP3", "A", amp(2), amp(1, 2), amp(-1))])
    add("kanamori3-su2", [site("A", 3, 2), P("addCoulombP3", "A", amp(3, 2), amp(1, 4), amp(0))], order_spins=1)
    add("kanamori2-explicit-su2", [site("A", 2, 2), P("addCoulombP", "A", amp(2), amp(1), amp(1, 2), amp(0))])
    add("kanamori3-explicit-su2", [site("A", 3, 2), P("addCoulombP", "A", amp(1), amp(5, 2), amp(-3, 4), amp(1, 2))])
    add("kanamori2+bath-su2", [site("A", 2, 2), site("B", 1, 2), P("addCoulombP3", "A", amp(1), amp(1, 4), amp(-1, 2)), P("addHopping6", "A", "B", amp(1, 2), 1, 0),
                               P("addLevel", "B", amp(1, 4))])
    add("ss-same-site-su2", [site("A", 2, 2), P("addSS", "A", "A", amp(1))])
    add("ss-two-site-su2", [site("A", 1, 2), site("B", 1, 2), P("addSS", "A", "B", amp(-3, 4)), P("addHopping4", "A", "B", amp(1))], order_spins=1)
    add("ss-chain-su2", [site("A", 1, 2), site("B", 1, 2), site("C", 1, 2), P("addSS", "A", "B", amp(1)), P("addSS", "B", "C", amp(1, 2)),
                         P("addCoulombS", "B", amp(2), amp(-1))])
    add("general-Up-kanamori2", [site("A", 2, 2), P("addCoulombP", "A", amp(2), amp(2), amp(1, 2), amp(0))])
    add("general-Up-kanamori3", [site("A", 3, 2), P("addCoulombP", "A", amp(1), amp(-1, 2), amp(1, 4), amp(1))], order_spins=1)
    add("control-szsz", [site("A", 1, 2), site("B", 1, 2), P("addSzSz", "A", "B", amp(1))], control=True)
    add("control-magnetization", [site("A", 1, 2), P("addMagnetization", "A", amp(1)), P("addCoulombS", "A", amp(1), amp(0))], control=True)
    add("control-single-spin-hopping", [site("A", 1, 2), site("B", 1, 2), P("addHopping7", "A", "B", amp(1), 0, 0, 1)], control=True)
    if MIXED_SPIN_MAJOR["ok"]:
        add("spin-major-mixed-spin-counts", [site("A", 1, 1), site("B", 1, 2), site("C", 1, 3), P("addLevel", "C", amp(1, 2)), P("addCoulombS", "B", amp(1), amp(-1)),
                                             P("addHopping8", "A", "C", t1, 0, 0, 0, 2), P("addHopping7", "B", "A", t2, 0, 0, 0)], order_spins=1)
        add("spin-major-mixed-spin-counts-term", [site("x1", 2, 1), site("B", 1, 2), term(v, [(1, "x1", 1, 0), (0, "B", 0, 1), (1, "B", 0, 0), (0, "x1", 0, 0)], True),
                                                  P("addMagnetization", "B", amp(0))], order_spins=1)
    bad = [s.tag for s in c if not s.valid()]
    assert not bad, "invalid corpus scenarios: %r" % bad
    return c


LABELS = ["A", "B", "C", "D", "bath", "imp", "x1", "Z"]


class Gen:
    def __init__(self, rng, variant):
        self.r, self.variant = rng, variant

    def q(self, zero=0.12):
        return F(0) if self.r.random() < zero else self.r.choice(NONZERO)

    def real(self, zero=0.12):
        return (self.q(zero), F(0))

    def cplx(self, zero=0.12):
        if self.variant != "complex" or self.r.random() < 0.3:
            return self.real(zero)
        return (self.q(0.2), self.q(0.2))

    def sites(self, two_spin_only=False):
        r = self.r
        while True:
            n = r.choice([1, 1, 2, 2, 2, 3])
            labs = r.sample(LABELS, n)
            shapes = []
            for _ in range(n):
                if two_spin_only:
                    shapes.append((r.choice([1, 1, 2, 3]), 2))
                else:
                    shapes.append((r.choice([1, 1, 2, 2, 3]), r.choice([1, 2, 2, 2, 3])))
            if r.random() < 0.5 and n > 1:      # matching shapes make the two-site presets applicable
                shapes = [shapes[0]] * n
            if sum(a * b for a, b in shapes) <= 6:
                return [site(l, a, b) for l, (a, b) in zip(labs, shapes)]

    def pos(self, m, l=None):
        l = l or self.r.choice(sorted(m))
        return (l, self.r.randrange(m[l][0]), self.r.randrange(m[l][1]))

    def raw_term(self, m):
        r = self.r
        n = r.choice([2, 2, 4, 4, 4, 6])
        kind = r.random()
        ops = []
        pool = [self.pos(m) for _ in range(r.choice([1, 2, 3, 3, 4]))]     # few distinct positions: repeated operators and c^+ c pairs are common
        for _ in range(n):
            ops.append((r.randrange(2),) + (r.choice(pool) if kind < 0.4 else self.pos(m)))
        if kind > 0.8:
            # particle-number conserving, all positions distinct where the lattice is big enough: the generic physical term
            allpos = [(l, a, z) for l in sorted(m) for a in range(m[l][0]) for z in range(m[l][1])]
            if len(allpos) >= n:
                ps = r.sample(allpos, n)
                ops = [(1 if i < n // 2 else 0,) + ps[i] for i in range(n)]
                r.shuffle(ops)
        v = self.cplx(zero=0.08)
        return term(v, ops, r.random() < 0.6)

    def preset(self, m, names):
        r = self.r
        labs = sorted(m)
        for _ in range(30):
            name = r.choice(names)
            l1 = r.choice(labs)
            others = [l for l in labs if l != l1]
            l2 = r.choice(others) if others and r.random() < 0.65 else l1
            s1, s2 = m[l1], m[l2]
            a = {"addCoulombS": lambda: [l1, self.real(), self.real(0.3)],
                 "addCoulombP": lambda: [l1, self.real(), self.real(), self.real(), self.real(0.4)],
                 "addCoulombP3": lambda: [l1, self.real(), self.real(), self.real(0.4)],
                 "addLevel": lambda: [l1, self.real()],
                 "addMagnetization": lambda: [l1, self.real()],
                 "addSzSz": lambda: [l1, l2, self.real()],
                 "addSS": lambda: [l1, l2, self.real()],
                 "addHopping8": lambda: [l1, l2, self.cplx(), r.randrange(s1[0]), r.randrange(s2[0]), r.randrange(s1[1]), r.randrange(s2[1])],
                 "addHopping7": lambda: [l1, l2, self.cplx(), r.randrange(s1[0]), r.randrange(s2[0]), r.randrange(min(s1[1], s2[1]))],
                 "addHopping6": lambda: [l1, l2, self.cplx(), r.randrange(s1[0]), r.randrange(s2[0])],
                 "addHopping4": lambda: [l1, l2, self.cplx()]}[name]()
            it = ("preset", name, a)
            if Scen([site(l, *sh) for l, sh in m.items()] + [it]).valid():
                return it
        return P("addLevel", labs[0], self.real())

    def scenario(self):
        r = self.r
        kind = r.random()
        if kind < 0.25:
            # SU(2) class (or, one time in four, a negative control)
            st = self.sites(two_spin_only=True)
            m = dict((s[1], (s[2], s[3])) for s in st)
            control = r.random() < 0.25
            items = [self.su2_item(m) for _ in range(r.choice([1, 1, 2, 3]))]
            if control:
                items.insert(r.randrange(len(items) + 1), self.preset(m, ["addSzSz", "addMagnetization", "addHopping7", "addHopping8", "addCoulombP"]))
            s = Scen(st + items, r.randrange(2), self.variant, "random:su2-control" if control else "random:su2", control or None)
        else:
            st = self.sites()
            m = dict((s[1], (s[2], s[3])) for s in st)
            items = []
            for _ in range(r.choice([1, 1, 2, 2, 3, 4, 5])):
                if r.random() < 0.35:
                    items.append(self.raw_term(m))
                else:
                    items.append(self.preset(m, list(PRESETS)))
            os_ = r.randrange(2) if (len(set(sh[1] for sh in m.values())) == 1 or MIXED_SPIN_MAJOR["ok"]) else 0
            s = Scen(st + items, os_, self.variant, "random")
        return s if s.valid() else self.scenario()

    def su2_item(self, m):
        it = self.preset(m, ["addCoulombP3", "addCoulombP", "addCoulombS", "addLevel", "addSS", "addSS", "addHopping4", "addHopping6"])
        a = it[2]
        if it[1] == "addCoulombP":
            it = fix_p(it)
        if it[1].startswith("addHopping"):
            it = ("preset", it[1], [a[0], a[1], (a[2][0], F(0))] + a[3:])     # real hopping: complex amplitudes are outside the claimed class
        return it


# ----------------------------------------------------------------------------------------------------------------
# signatures

def item_signatures(s, clause_set):
    m = s.sites()
    out = []
    for k, it in enumerate(s.items):
        if it[0] == "site":
            continue
        if it[0] == "preset":
            name, a = it[1], it[2]
            labs = [x for x, kk in zip(a, PRESETS[name]) if kk == "L"]
            amps = [x for x, kk in zip(a, PRESETS[name]) if kk == "A"]
            where = "" if len(labs) == 1 else " same-site" if labs[0] == labs[1] else " two-site"
            sh = m[labs[0]]
            zero = "all-zero" if all(x == (0, 0) for x in amps) else "non-zero" if all(x != (0, 0) for x in amps) else "some-zero"
            cpx = " complex" if any(x[1] != 0 for x in amps) else ""
            sig = "%s%s %dx%d %s%s" % (name, where, sh[0], sh[1], zero, cpx)
            nontrivial = zero != "all-zero"
        else:
            _, v, ops, hc = it
            pos = [o[1:] for o in ops]
            rep = any(ops[i] == ops[j] for i in range(len(ops)) for j in range(i + 1, len(ops)))
            pair = any(ops[i][1:] == ops[j][1:] and ops[i][0] != ops[j][0] for i in range(len(ops)) for j in range(i + 1, len(ops)))
            nsites = len(set(o[1] for o in ops))
            sig = "term order=%d %s%s%s %s%s%s" % (len(ops), "two-site" if nsites > 1 else "same-site", " repeated-operator" if rep else "",
                                                    " c+c-pair" if pair else "", "with-hc" if hc else "no-hc",
                                                    " zero" if v == (0, 0) else "", " complex" if v[1] != 0 else "")
            nontrivial = v != (0, 0)
        out.append((k, sig + " order_spins=%d [%s]" % (s.order_spins, clause_set), nontrivial))
    return out


# ----------------------------------------------------------------------------------------------------------------

def hpoly_json(v):
    return [[str(x[0]), str(x[1]), list(x[2])] for x in (v.impl.hpoly or [])]


def match_json(v):
    return dict(("fixed=%d,mag_half=%d" % k, b) for k, b in (v.match or {}).items())


def report(chk, tools, verdicts, cfg):
    """violations for the failed clauses: modelled defects -> key of their corpus witness; everything else is shrunk and keyed by
    the minimal scenario"""
    explained = dict((f, {"count": 0, "by_clause": {}, "examples": [], "library_variant": None}) for f in DEFECTS)
    todo = {}      # clause -> failing verdicts (corpus scenarios come first in the list)
    for v in verdicts:
        if not v.fails:
            continue
        ex = v.explanation()
        if ex:
            for f in ex[0]:
                e = explained[f]
                e["count"] += 1
                e["library_variant"] = e["library_variant"] or ex[1]
                for c in v.fails:
                    e["by_clause"][CLAUSES[c]] = e["by_clause"].get(CLAUSES[c], 0) + 1
                if len(e["examples"]) < 4 and not v.scen.tag.startswith("corpus:witness"):
                    e["examples"].append(v.scen.text())
            continue
        for c in v.fails:
            todo.setdefault(c, []).append(v)
    for f in sorted(DEFECTS):
        e = explained[f]
        if not e["count"]:
            continue
        lines = DEFECTS[f][0]
        wit = [v for v in verdicts if v.scen.tag == "corpus:witness-" + f and v.scen.variant == "real"]
        rep = {"harness": "h_ed", "clause": CLAUSES["b"], "explained_by_modelled_defect": f,
               "failures_explained_in_this_run": dict(e, library_variant="fixed=%d,mag_half=%d" % e["library_variant"]),
               "generated_configuration": cfg,
               "lines": lines, "order_spins": 0, "variant": "real", "hermitian_input": f == "magnetization", "su2": None}
        if wit:
            rep.update(wit[0].scen.to_json())
            rep["detail"] = wit[0].detail
            rep["implementation_HPOLY"] = hpoly_json(wit[0])
            rep["HPOLY_matches_model"] = match_json(wit[0])
            rep["model_variant_satisfies_clause_b"] = modelspec_json(wit[0])
        chk.violation(witness_key(f), "%s (clause %s); %d failing scenario(s) of this run are explained by it (clauses: %s)."
                      % (defect_text(f, e["library_variant"], cfg), CLAUSES["b"], e["count"], e["by_clause"]), rep)
    done_keys = set()
    for c in ("x", "b", "c", "d"):
        pending = list(todo.get(c, []))
        budget = 6              # distinct minimal scenarios reported per clause
        while pending and budget:
            v = pending.pop(0)
            budget -= 1
            small = shrink(tools, v.scen, c)
            sv = judge(tools, [small])[0]
            ex = sv.explanation() if c in sv.fails else None
            if ex:
                # the minimal form is a modelled defect after all (the original scenario mixed it with something the shrinker removed)
                key = witness_key(ex[0][0])
                what = "%s -- found in `%s`, shrunk to `%s`" % (defect_text(ex[0][0], ex[1], cfg), v.scen.text(), small.text())
            else:
                key = "%s: %s" % (CLAUSES[c], small.text())
                what = "clause %s fails on the implementation for `%s`%s: %s" % (
                    CLAUSES[c], small.text(), " (%s build)" % small.variant if small.variant != "real" else "",
                    json.dumps(sv.detail.get(c), default=str)[:600])
            rep = {"harness": "h_ed", "clause": CLAUSES[c], "found_in": v.scen.text(), "found_in_tag": v.scen.tag, "detail": sv.detail,
                   "HPOLY_matches_model": match_json(sv), "implementation_HPOLY": hpoly_json(sv),
                   "model_variant_satisfies_clause_b": modelspec_json(sv), "generated_configuration": cfg}
            rep.update(small.to_json())
            if key not in done_keys:
                done_keys.add(key)
                chk.violation(key, what, rep)
            # the remaining failures of this clause that contain the calls of this minimal scenario need no report of their own
            heads = set(l.split()[0] for l in small.lines() if not l.startswith("site"))
            pending = [p for p in pending if not heads <= set(l.split()[0] for l in p.scen.lines())]
    return explained


def modelspec_json(v):
    return dict(("fixed=%d,mag_half=%d" % k, b) for k, b in (v.modelspec or {}).items())


def configuration(chk, ok, log):
    """the three generated booleans, the status of their translator fragments, and what a failed build says about them"""
    cfg = generated_config()
    status = dict((f, (chk.extra.get("translator") or {}).get(f)) for f in GEN_FILES.values())
    chk.extra["generated_configuration"] = dict(cfg, translator_status=status)
    for name, f in GEN_FILES.items():
        st = status.get(f)
        if cfg[name] is None:
            chk.tie_broken("generated configuration", "coq/gen/%s.v does not define %s (translator status: %s)" % (f, name, st))
        elif st is not None and str(st).startswith("untranslatable"):
            if name == "doc_magnetization_half":
                # what is documented cannot be established: the specification of clause (b) would rest on the snapshot
                chk.tie_broken("documentation of addMagnetization", "the doxygen comment in front of LatticePresets::addMagnetization has none of the "
                               "recognised shapes (%s); the committed snapshot (doc_magnetization_half=%s) is used" % (st, cfg[name]))
            else:
                chk.notes.append("%s: %s -- the committed snapshot (%s=%s) is used; clause (a) decides whether it still describes the code" % (f, st, name, cfg[name]))
    if not ok:
        failed = pv.coq_failed_files(log)
        chk.extra["coq_files_failing"] = ["%s:%s" % fl for fl in failed]
        if any(f.endswith("PresetsAgreement.v") for f, _ in failed):
            which = []
            src = open(os.path.join(pv.COQ, "theories", "PresetsAgreement.v")).read().split("\n")
            for f, ln in failed:
                if f.endswith("PresetsAgreement.v"):
                    above = [l for l in src[:int(ln)] if l.startswith("Lemma ")]
                    which.append(above[-1].split()[1] if above else "?")
            chk.extra["agreement_lemma_failing"] = which
    chk.extra["notes"] = chk.notes
    return cfg


def run(chk):
    quick = chk.tier == "quick"
    if os.environ.get("C04_SKIP_PROVE"):
        chk.extra["translator"] = pv.run_translators()
        ok, log = pv.coq_make(["extract/Extract_C04.vo"])
        if not ok:
            raise pv.BuildError("extraction root does not compile", log)
    else:
        ok, log = chk.prove(["extract/Extract_C04.vo"], extra_props=["Properties_C20_source.v"])   # the preset loops as the translator reads them (gen_lattice.py)
    cfg = configuration(chk, ok, log)
    chk.trusted += ["harness/h_ed.cpp + harness/ed_common.h (scenario interpreter; dump of IndexClassification, IndexHamiltonian and of the matrix "
                    "HamiltonianPart::prepare assembles, before diagonalisation, symmetries ignored)",
                    "exact conversion of hex floats (%a) to rationals; all amplitudes are dyadic rationals with small exponents, so the "
                    "library's double arithmetic on them (x/2, x/4, 2x, x-y, sums of a few products) is exact and its zero threshold "
                    "100*eps acts as an exact zero test",
                    "extraction: ExtrOcamlBasic, ExtrOcamlNatInt (nat -> OCaml int: labels, orbitals, spins, mode indices, Fock-state numbers "
                    "< 64); Q stays the extracted inductive type; no Extract Constant of our own",
                    "ocaml/driver_c04.ml (parsing, dense commutator on arrays with the extracted ring operations, entrywise comparison with the "
                    "extracted equality test, printing) and this module (reordering of the block to natural Fock order, HPOLY comparison, "
                    "generation, shrinking)",
                    "translator/gen_c20.py for the factory arrays of PVgen.Gen_LatticePresets (model side of clause (a) only: clauses (b)-(d) "
                    "judge the implementation against PresetsSpec and do not use the model)",
                    "translator/gen_c04.py: pattern recognition of the doxygen formula of addMagnetization (two accepted shapes; it selects the "
                    "factor of PresetsSpec.spec_magnetization, i.e. of clause (b)), of the two Level calls of addMagnetization and of the first-factor "
                    "test of IndexHamiltonian::prepare (these two select the model variant of clause (a) and of the theorems; a misread code shape "
                    "shows as a model/HPOLY difference)"]
    chk.assume += ["Fock space of at most 6 modes (the full 4^N matrix is compared)",
                   "every generated call is one the preset is defined for (known labels, matching shapes, indices in range) and every raw term "
                   "is valid; invalid input is C20's subject",
                   "spin-major index ordering (order_spins 1) on lattices whose sites have different spin counts only when a probe shows that "
                   "IndexClassification::prepare(true) survives it on this tree (C18's finding otherwise gets in the way); see "
                   "coverage.spin_major_with_mixed_spin_counts_exercised",
                   "raw terms of 2, 4 and 6 operators; constants (order 0) and odd orders are outside the property's quantifier",
                   "Release build: the assert on Hermiticity in HamiltonianPart::prepare is compiled out, so non-Hermitian raw input reaches the matrix",
                   "quick tier: real build only; thorough tier adds the complex build (Gaussian-dyadic hopping and raw-term amplitudes)"]
    variants = ("real",) if quick else ("real", "complex")
    tools = Tools(variants)
    chk.extra["spin_major_with_mixed_spin_counts_exercised"] = tools.probe_spin_major()
    rng = chk.rng
    scens = []
    for v in variants:
        scens += corpus(v)
    nrand = 800 if quick else 3000
    gens = dict((v, Gen(rng, v)) for v in variants)
    for i in range(nrand):
        v = "real" if (quick or i % 3) else "complex"
        scens.append(gens[v].scenario())
    if not quick:
        # several seeds: further independent streams derived from the run's seed
        import random
        for extra in range(1, 4):
            r2 = random.Random(chk.seed * 7919 + extra)
            for i in range(500):
                v = "real" if i % 3 else "complex"
                scens.append(Gen(r2, v).scenario())
    verdicts = judge(tools, scens)

    # ---- (a) is the library the model variant its source text selects?
    judged = [v for v in verdicts if v.match is not None]
    counts = dict((k, sum(1 for v in judged if v.match[k])) for k in VARIANTS)
    nnone = [v for v in judged if not any(v.match.values())]
    exact = [k for k in VARIANTS if judged and counts[k] == len(judged)]
    discr = {"fixed": sum(1 for v in judged if v.polys[(0, 0)] != v.polys[(1, 0)] or v.polys[(0, 1)] != v.polys[(1, 1)]),
             "mag_half": sum(1 for v in judged if v.polys[(0, 0)] != v.polys[(0, 1)] or v.polys[(1, 0)] != v.polys[(1, 1)])}
    cfgv = None
    if cfg["prepare_first_by_index"] is not None and cfg["code_magnetization_half"] is not None:
        cfgv = (int(cfg["prepare_first_by_index"]), int(cfg["code_magnetization_half"]))
    chk.extra["scenarios"] = len(scens)
    chk.extra["HPOLY_equals_model_variant"] = dict(("fixed=%d,mag_half=%d" % k, n) for k, n in counts.items())
    chk.extra["HPOLY_equals_no_variant"] = len(nnone)
    chk.extra["scenarios_discriminating_the_flag"] = discr
    chk.extra["implementation_is_variant"] = ["fixed=%d,mag_half=%d" % k for k in exact] or "none"
    chk.extra["variant_selected_by_the_source_text"] = "fixed=%d,mag_half=%d" % cfgv if cfgv else "unknown"
    chk.extra["HPOLY_equals_selected_variant"] = counts.get(cfgv) if cfgv else None
    chk.extra["modes_histogram"] = dict(sorted((str(k), sum(1 for s in scens if s.modes() == k)) for k in range(1, 7)))
    chk.extra["translator_fragment"] = (chk.extra.get("translator") or {}).get("Gen_LatticePresets")
    for v in judged:
        if v.config is not None and cfgv is not None and v.config != cfgv + (int(bool(cfg["doc_magnetization_half"])),):
            chk.tie_broken("driver configuration", "the extracted driver was built with configuration %s but coq/gen holds %s" % (v.config, cfg))
            break
    for v in verdicts:
        if v.driver_error:
            chk.tie_broken("driver", "driver_c04 could not evaluate `%s`: %s" % (v.scen.text(), v.driver_error))
            break
    for v in verdicts:
        if v.model_ok is False:
            chk.tie_broken("model rejects a call the library accepts", "`%s`: model outcomes %s" % (v.scen.text(), v.rec.get("RES")))
            break
    for v in verdicts:
        if v.match is not None and v.scen.hermitian_input() and not v.spec_hermitian:
            chk.tie_broken("generator", "scenario flagged Hermitian but its documented operator is not: `%s`" % v.scen.text())
            break

    # ---- cases
    su2 = {}
    for v in verdicts:
        s = v.scen
        cls = s.su2_class()
        cs = "ab" + ("c" if s.hermitian_input() else "") + ("d" if cls == "sym" else "")
        ctx = s.text() + " #" + s.variant
        for k, sig, nontrivial in item_signatures(s, cs):
            chk.case("%s @%d" % (ctx, k), ("complex-build " if s.variant == "complex" else "") + sig, nontrivial=nontrivial,
                     sample={"scenario": s.lines(), "order_spins": s.order_spins, "variant": s.variant, "clauses": cs,
                             "HPOLY": hpoly_json(v)[:6],
                             "failed": [CLAUSES[c] for c in v.fails]} if (s.tag.startswith("random") and len(chk.samples) < 3) or
                     s.tag in ("corpus:kanamori2-su2", "corpus:witness-prepare", "corpus:ss-two-site-su2") else None)
        if cls:
            names = "+".join(sorted(set(it[1] for it in s.items if it[0] == "preset")))
            key = "su2:%s %s -> %s" % (cls, names, "commutes" if v.commutes else "does-not-commute" if v.commutes is False else "not-evaluated")
            su2[key] = su2.get(key, 0) + 1
            chk.case(ctx + " su2", "su2:%s -> %s" % (cls, "commutes" if v.commutes else "does-not-commute"), nontrivial=cls == "sym")
    coarse = {}
    for sig, n in chk.signatures.items():
        w = sig.replace("complex-build ", "").split()
        k = " ".join(w[:2]) if w[0] == "term" or (len(w) > 1 and w[1] in ("same-site", "two-site")) else w[0]
        coarse[k] = coarse.get(k, 0) + n
    chk.extra["signature_count"] = len(chk.signatures)
    chk.extra["coarse_histogram"] = dict(sorted(coarse.items(), key=lambda kv: -kv[1]))
    chk.extra["su2_histogram"] = dict(sorted(su2.items(), key=lambda kv: -kv[1])[:60])
    chk.extra["clause_evaluations"] = {"documented-operator": len(judged), "hermitian": sum(1 for v in judged if v.scen.hermitian_input()),
                                       "su2-commutator (claimed)": sum(1 for v in judged if v.scen.su2_class() == "sym"),
                                       "su2-commutator (general U', counted only)": sum(1 for v in judged if v.scen.su2_class() == "general-Up"),
                                       "su2-commutator (negative controls)": sum(1 for v in judged if v.scen.su2_class() == "control")}

    # ---- violations
    explained = report(chk, tools, verdicts, cfg)
    chk.extra["failing_scenarios"] = {"total": sum(1 for v in verdicts if v.fails),
                                      "explained_by_modelled_defect": dict((f, e["count"]) for f, e in explained.items()),
                                      "by_clause": dict((CLAUSES[c], sum(1 for v in verdicts if c in v.fails)) for c in CLAUSES)}

    # ---- the library's polynomial is not the one of the selected model variant although the property holds there: the model
    #      (or the translator that selected the variant) is wrong
    for v in nnone:
        if not v.fails:
            small = v.scen
            chk.tie_broken("model vs HPOLY", "the library's IndexHamiltonian polynomial differs from all four model variants on `%s` although "
                           "clauses (b)-(d) hold there: the model (Lattice.v / IndexHam.v / generated factories) does not describe this code; "
                           "library: %s; model (fixed=0,mag_half=0): %s" % (small.text(), hpoly_json(v)[:8], v.rec.get("POLY00", [])[:60]))
            break
    if judged and not nnone and not exact:
        chk.tie_broken("model vs HPOLY", "no single model variant reproduces the library's polynomial on every scenario: %s" % chk.extra["HPOLY_equals_model_variant"])
    if cfgv is not None:
        for v in judged:
            if not v.match[cfgv] and not v.fails and any(v.match.values()):
                chk.tie_broken("selected variant vs HPOLY", "the source text selects the model variant fixed=%d,mag_half=%d (translator/gen_c04.py) but "
                               "the library's polynomial on `%s` is that of %s, and clauses (b)-(d) hold there: the translator misreads the code"
                               % (cfgv + (v.scen.text(), [k for k, b in match_json(v).items() if b])))
                break
    # ---- agreement of code and documentation: by the translated text, by the proof, by the differential runs
    nmag = sum(1 for v in judged if any(it[0] == "preset" and it[1] == "addMagnetization" and it[2][1] != (0, 0) for it in v.scen.items))
    nrep = discr["fixed"]
    chk.extra["code_documentation_agreement"] = {
        "by_translated_text": {"prepare_first_by_index = true": cfg["prepare_first_by_index"],
                               "code_magnetization_half = doc_magnetization_half":
                                   None if None in (cfg["code_magnetization_half"], cfg["doc_magnetization_half"])
                                   else cfg["code_magnetization_half"] == cfg["doc_magnetization_half"]},
        "by_proof (PresetsAgreement + Properties_C04 type-check)": bool(ok),
        "by_differential_runs": {"scenarios with a non-zero addMagnetization call": nmag,
                                 "of which fail the documented-operator clause because of the magnetization variant": explained["magnetization"]["count"],
                                 "scenarios on which the two first-factor tests give different polynomials": nrep,
                                 "scenarios failing because of the first-factor test": explained["prepare"]["count"]}}
    chk.extra["process_counts"] = tools.stats
    chk.rule = ("cases are single calls (preset call or raw term) inside scenarios = site layout (1-3 sites, 1-3 orbitals, 1-3 spins, at most 6 modes, "
                "label sets that change the hash order of the index map) + 1-6 calls + index ordering (order_spins 0/1). A directed corpus (%d "
                "scenarios per build: every preset x same-site/two-site x zero/non-zero/mixed parameters x site shape class, four hopping overloads, "
                "the two defect witnesses, raw terms of 2/4/6 operators with and without conjugate, repeated operators, c+c pairs, Hubbard dimer, "
                "Anderson impurity, Kanamori with 2 and 3 orbitals, exchange same-site/two-site/chain, SU(2) negative controls) is followed by "
                "%d random scenarios (parameters from {0, 1, -1, 0.5, -0.5, 0.25, 2, -0.75, 1.5}; 35%% of the calls are raw terms drawn from a small "
                "pool of positions so that repeated operators are frequent; 25%% of the scenarios are of the SU(2) class, a quarter of those negative "
                "controls). Signature = preset, same-site/two-site, shape of the first site, zero/non-zero parameters, index ordering, clause set "
                "checked (a = model vs HPOLY, b = documented operator, c = Hermitian, d = SU(2)); for raw terms: order, sites touched, repeated "
                "operator, c+c pair, conjugate partner. Distinct = distinct (scenario text, call position); calls whose parameters are all zero "
                "count as trivial." % (len(corpus("real")), len(scens) - len(variants) * len(corpus("real"))))


def replay(chk, path):
    r = json.load(open(path))
    rep = r.get("replay") or {}
    print(json.dumps({k: r[k] for k in ("property", "key", "what") if k in r}, indent=1))
    if not isinstance(rep, dict) or not rep.get("lines"):
        run(chk)
        return chk.finish()
    if not os.environ.get("C04_SKIP_PROVE"):
        chk.prove(["extract/Extract_C04.vo"], extra_props=["Properties_C20_source.v"])
    else:
        pv.run_translators()
        pv.coq_make(["extract/Extract_C04.vo"])
    variant = rep.get("variant", "real")
    tools = Tools((variant,))
    s = scen_from_lines(rep["lines"], rep.get("order_spins", 0), variant, rep.get("hermitian_input"), rep.get("su2"))
    v = judge(tools, [s])[0]
    print("scenario: %s   (%s build)" % (s.text(), variant))
    print("clauses judged: documented-operator%s%s" % (", hermitian" if s.hermitian_input() else "", ", su2-commutator" if s.su2_class() == "sym" else ""))
    print("library polynomial (HPOLY): %s" % [[str(x[0]), str(x[1]), list(x[2])] for x in (v.impl.hpoly or [])])
    print("HPOLY equals the polynomial of model variant: %s" % match_json(v))
    print("configuration read from the tree (prepare_first_by_index, code_magnetization_half, doc_magnetization_half): %s" % generated_config())
    if v.fails:
        print("modelled defects that explain the failure: %s" % (v.explained_by() or "none"))
    for c in v.fails:
        print("FAILED clause %s: %s" % (CLAUSES[c], json.dumps(v.detail.get(c), default=str)))
        chk.violation(r.get("key", "replay"), r.get("what", CLAUSES[c]), rep)
    if v.driver_error:
        print("driver error: %s" % v.driver_error)
    if not v.fails:
        print("no clause fails on this tree")
    chk.case("replay " + s.text(), "replay", nontrivial=True)
    chk.rule = "replay of one stored scenario"
    evp = os.path.join(pv.ROOT if pv.COQ == pv.COQ_SRC else pv.BUILD, "evidence", "C04.json")
    old = open(evp).read() if os.path.exists(evp) else None
    rc = chk.finish()
    if old is not None:
        open(evp, "w").write(old)
    return rc


def setup():
    pv.build_driver(DRIVER, ["C04_model"])
    pv.build_harness("h_ed")
    pv.build_harness("h_ed", "complex")      # thorough tier
