"""C02 -- Two-particle Green's function equals its definition on both evaluation paths.

Proof: props/Properties_C02.v about the model PV.Chi and the translator output PVgen.Gen_Multiterm (regenerated from
TwoParticleGFPart.cpp/.h, TwoParticleGF.cpp, Misc.cpp on every run).
Tie: (a) translator; (b) correspondence: for scenarios of the shared generator families the extracted model (binary64)
recomputes every part's two term lists from the dumped blocks / sparse matrices and they are compared with the real
TermLists (harness h_c02, -fno-access-control): counts, flags, weights, poles, coefficients; the model's values and tables are
compared with the implementation's.
Oracle: PV.EDSpec.chi on the full Fock space (tools/edlib, driver_ed) against TwoParticleGF::operator() and the table
returned by compute(clear, freqs): all index patterns, the resonance patterns of the frequency triple, complex off-axis
triples, purge on/off, vanishing components, empty frequency lists (the latter under UBSan).
Low temperatures (LOWTEMP): fixed scenarios with beta * gap of ~300, ~800 and ~3000 (Boltzmann weights of the excited states underflow
to exactly 0.0 beyond ~745) go through the same comparisons in every tier.
Distributed slice (distributed_slice): TwoParticleGF::compute(clear, freqs, comm) under mpiexec on 2-3 (thorough: up to 7) ranks
through harness h_c06: every rank's on-demand values and rank 0's table against the single-rank run, which is compared with
the oracle on the spot (terms kept and broadcast from the rank that computed each part).
"""
import json
import math
import os

import pv
import edlib
import scen

HX = float.fromhex

# frequency triples that hit every combination of n1=n3, n2=n3, n1+n2=-1 that can occur
SPECIAL = [(0, 0, 0), (0, -1, 0), (-1, 0, 0), (1, -2, 1), (2, 1, 1), (0, -1, 3), (1, 2, -2), (-2, 1, -2), (3, -4, -4)]


def respat(t):
    n1, n2, n3 = t
    p = [s for s, c in (("13", n1 == n3), ("23", n2 == n3), ("12", n1 + n2 == -1)) if c]
    return "+".join(p) if p else "none"


def idxpat(q):
    i, j, k, l = q
    if len(set(q)) == 1:
        return "all-equal"
    if len(set(q)) == 4:
        return "all-distinct"
    p = []
    if i == j:
        p.append("i=j")
    if k == l:
        p.append("k=l")
    if i == k and j == l:
        p.append("direct")
    elif i == l and j == k:
        p.append("exchange")
    return ",".join(p) if p else "partly-equal"


def diag_straddle(rng, symm="default"):
    """diagonal models whose level spacings straddle the 1e-8 thresholds of the term lists / the resonance test"""
    e = rng.choice([0, 0.5, -0.25])
    d = rng.choice([6e-9, 3e-8, 6e-9, 3e-8, 1.2e-8])
    s = "site A 1 2\nsite B 1 2\naddLevel A %r\naddLevel B %r\n" % (float(e), float(e) + d)
    if rng.random() < 0.5:
        s += "addCoulombS A %s 0\n" % scen.f(rng.choice([1, 2]))
    return "diag-straddle", s + "symm %s\nbeta %s\n" % (symm, scen.f(rng.choice([1, 4, 10]))), 4, {"straddle": d}


def near_degenerate(rng, symm=None):
    """two equal levels coupled by a tiny hopping t: single-particle levels e-t, e+t, i.e. energy differences 2t (and 4t) that
    are reached by the SAME operator, so that poles 2t apart meet in one term list. t = 2e-9, 3e-9 (2t below 1e-8),
    6e-9, 1.5e-8 (2t above 1e-8): the region the separation hypothesis of chi_termlist_no_loss excludes."""
    t = rng.choice([3e-9, 2e-9, 6e-9, 1.5e-8, 3e-9])
    e = rng.choice([0.5, -0.25, 0])
    s = "site A 1 2\nsite B 1 2\naddLevel A %s\naddLevel B %s\naddHopping4 A B %r\n" % (scen.f(e), scen.f(e), t)
    if rng.random() < 0.5:
        s += "addCoulombS A 1 0\n"
    sy = symm or rng.choice(["default", "ignore"])
    return "near-degenerate", s + "symm %s\nbeta %s\n" % (sy, scen.f(rng.choice([1, 4]))), 4, {"straddle": 2 * t}


def half_filled_atom(rng, symm="default"):
    U = rng.choice([1, 2, 4])
    return "hubbard-atom-half-filling", "site A 1 2\naddCoulombS A %s %s\nsymm %s\nbeta %s\n" % (
        scen.f(U), scen.f(-U / 2), symm, scen.f(rng.choice([1, 4, 10, 25]))), 2, {}


def complex_two_site(rng, symm="default"):
    """complex same-spin and spin-flip hopping (complex build only)"""
    s = "site A 1 2\nsite B 1 2\naddCoulombS A 2 -0.75\naddLevel B 0.25\n"
    s += "addHopping4 A B 0.5,0.25\n"
    if rng.random() < 0.5:
        s += "addHopping8 A B 0.25,-0.5 0 0 0 1\n"
    return "complex-two-site", s + "symm %s\nbeta %s\n" % (symm, scen.f(rng.choice([1, 4]))), 4, {}


# "all beta": deterministic low-temperature scenarios, run in every tier.  What matters is beta * (gap above the ground state): beyond
# ~745 the Boltzmann weights of the excited states are exactly 0.0 in binary64, so that world stripes whose 1st / 3rd state is excited
# carry weight only through their 2nd / 4th state (C2 = -C (w2 + w3), C4 = C (w1 + w4), R = C beta w, N = C (w - w')): ~300 (control, nothing
# underflows), ~800, ~3000.  Atoms with an empty, a doubly occupied, a spin-degenerate and a polarised ground state, dimers away from and
# at half filling.  Values of order beta (the resonant pieces) are expected: the tolerance stays relative to the scales S0, S1, S2 of the
# multiterm pieces.  The oracle's weights are EDSpec.weights (relative to the lowest eigenvalue): nothing on the reference side overflows.
LOWTEMP_TRIPLES = SPECIAL + [(0, 1, 2), (-3, 2, 5), (4, -1, -2)]
ATOM_QUADS = [(0, 0, 0, 0), (1, 1, 1, 1), (0, 1, 0, 1), (0, 1, 1, 0), (1, 0, 1, 0), (0, 0, 1, 1)]
DIMER_QUADS = [(0, 0, 0, 0), (0, 1, 0, 1), (0, 1, 1, 0), (0, 2, 0, 2), (0, 3, 0, 3), (0, 2, 2, 0), (0, 3, 2, 1), (2, 2, 2, 2)]
LOWTEMP = [
    # (family, scenario, modes, quads, intended beta*gap)
    ("lowT-atom-doubly-occupied", "site A 1 2\naddCoulombS A 2 -3\nsymm default\nbeta 300\n", 2, ATOM_QUADS, 300),
    ("lowT-atom-doubly-occupied", "site A 1 2\naddCoulombS A 2 -3\nsymm default\nbeta 1000\n", 2, ATOM_QUADS, 1000),
    ("lowT-atom-empty", "site A 1 2\naddCoulombS A 2 1\nsymm default\nbeta 800\n", 2, ATOM_QUADS, 800),
    ("lowT-atom-half-filling", "site A 1 2\naddCoulombS A 2 -1\nsymm default\nbeta 3000\n", 2, ATOM_QUADS, 3000),
    ("lowT-atom-polarised", "site A 1 2\naddCoulombS A 4 -1.5\naddMagnetization A 0.5\nsymm ignore\nbeta 800\n", 2, ATOM_QUADS, 800),
    ("lowT-dimer", "site A 1 2\nsite B 1 2\naddCoulombS A 2 -3\naddCoulombS B 2 -3\naddHopping4 A B 0.25\nsymm default\nbeta 1200\n", 4, DIMER_QUADS, 900),
    ("lowT-dimer-half-filling", "site A 1 2\nsite B 1 2\naddCoulombS A 4 -2\naddCoulombS B 4 -2\naddHopping4 A B 0.5\nsymm default\nbeta 12000\n", 4,
     DIMER_QUADS, 3000),
]
LOWTEMP_THOROUGH = [
    ("lowT-atom-empty", "site A 1 2\naddCoulombS A 2 1\nsymm ignore\nbeta 3000\n", 2, ATOM_QUADS, 3000),
    ("lowT-atom-half-filling", "site A 1 2\naddCoulombS A 2 -1\nsymm default\nbeta 300\n", 2, ATOM_QUADS, 300),
    ("lowT-dimer", "site A 1 2\nsite B 1 2\naddCoulombS A 2 -3\naddCoulombS B 2 -3\naddHopping4 A B 0.25\nsymm ignore\nbeta 400\n", 4, DIMER_QUADS[:5], 300),
    ("lowT-dimer-asymmetric", "site A 1 2\nsite B 1 2\naddCoulombS A 2 -3\naddLevel B -0.5\naddHopping4 A B 0.5\naddHopping8 A B 0.25 0 0 0 1\nsymm default\nbeta 48000\n",
     4, DIMER_QUADS, 3000),
]
OFFAXIS_FIXED = [complex(0.25, 0.5), complex(-0.5, 1.25), complex(0.375, -0.25), complex(0.25, 0.5), complex(-0.25, -0.5), complex(0.5, 0.75)]


def low_temperature(tier):
    return [Scn(fam, text, M, {"lowT": bg}, list(quads), list(LOWTEMP_TRIPLES), list(OFFAXIS_FIXED), "real")
            for (fam, text, M, quads, bg) in LOWTEMP + ([] if tier == "quick" else LOWTEMP_THOROUGH)]


QUICK_FAMILIES = [half_filled_atom, scen.hubbard_atom, scen.free_degenerate, scen.atomic_limit, diag_straddle, near_degenerate, near_degenerate,
                  scen.two_site, scen.anderson]
THOROUGH_EXTRA = [scen.kanamori, scen.exchange, scen.two_site, scen.free_degenerate, scen.atomic_limit, diag_straddle, diag_straddle,
                  near_degenerate, near_degenerate, near_degenerate]


def quads_for(rng, M, nq):
    idx = list(range(M))
    i, j = rng.sample(idx, 2)
    out = [(i, j, i, j), (i, j, j, i), (i, i, i, i), (i, i, j, j), (i, j, i, i)]
    if M >= 4:
        a = rng.sample(idx, 4)
        out.append(tuple(a))
        out.append((0, 1, 0, 1))
        out.append((0, 2, 0, 2) if rng.random() < 0.5 else (1, 3, 1, 3))
    else:
        out.append((0, 1, 0, 1))
        out.append((0, 0, 1, 1))
    while len(out) < nq:
        out.append(tuple(rng.randrange(M) for _ in range(4)))
    seen, res = set(), []
    for q in out:
        if q not in seen:
            seen.add(q)
            res.append(q)
    return res[:nq]


def matsubara_z(beta, n):
    return (math.pi / beta) * float(2 * n + 1)


def zargs(zs):
    return " ".join("%s %s" % (float(z.real).hex(), float(z.imag).hex()) for z in zs)


def parse_parts(lines):
    """PARTS .. ENDPARTS blocks -> {quad: {"head":[..], "parts":[{"head":[..], "nr":[..], "rt":[..]}], "flags": set}}"""
    out, cur = {}, None
    for t in lines:
        if t[0] == "PARTS":
            cur = {"head": t[5:], "parts": [], "flags": set(), "refused": 0}
            out[tuple(int(x) for x in t[1:5])] = cur
        elif cur is None:
            continue
        elif t[0] == "PART":
            cur["parts"].append({"head": t[2:], "nr": [], "rt": []})
        elif t[0] == "NR":
            cur["parts"][int(t[1])]["nr"].append(t[2:])
        elif t[0] == "RT":
            cur["parts"][int(t[1])]["rt"].append(t[2:])
        elif t[0] == "REFUSED":
            cur["refused"] += int(t[2])
        elif t[0] == "SEP":
            cur["sep"] = cur.get("sep", True) and t[2] == "1"
        elif t[0] == "GDEP":
            cur["flags"].add("GDEP")
        elif t[0] == "ENDPARTS":
            cur = None
    return out


def close(a, b, rel, floor):
    return abs(a - b) <= rel * max(abs(a), abs(b), floor)


def compare_parts(im, mo):
    """first difference between the real term lists and the model's, or None"""
    if im["head"] != mo["head"]:
        return "PARTS header impl %s model %s" % (im["head"], mo["head"])
    for p, (a, b) in enumerate(zip(im["parts"], mo["parts"])):
        if a["head"][:10] != b["head"][:10]:
            return "part %d header (blocks perm sign counts) impl %s model %s" % (p, a["head"], b["head"])
        for kind, nco in (("nr", 2), ("rt", 4)):
            la, lb = a[kind], b[kind]
            if len(la) != len(lb):
                return "part %d %s count impl %d model %d" % (p, kind, len(la), len(lb))
            cmax = max([abs(HX(x)) for t in la for x in t[:nco]] + [1e-300])
            for n, (ta, tb) in enumerate(zip(la, lb)):
                if ta[nco + 3:] != tb[nco + 3:]:
                    return "part %d %s term %d flag/weight impl %s model %s" % (p, kind, n, ta[nco + 3:], tb[nco + 3:])
                for c in range(nco):
                    if not close(HX(ta[c]), HX(tb[c]), 1e-12, 1e-12 * cmax):
                        return "part %d %s term %d coefficient impl %s model %s" % (p, kind, n, ta[:nco], tb[:nco])
                for c in range(nco, nco + 3):
                    if not close(HX(ta[c]), HX(tb[c]), 1e-12, 1e-12):
                        return "part %d %s term %d pole impl %s model %s" % (p, kind, n, ta[nco:nco + 3], tb[nco:nco + 3])
    return None


class Scn:
    """one scenario with its queries, run through harness, model driver and oracle"""

    def __init__(self, fam, text, M, info, quads, triples, offaxis, variant):
        self.fam, self.text, self.M, self.info = fam, text, M, info
        self.quads, self.triples, self.offaxis, self.variant = quads, triples, offaxis, variant
        self.beta = float([l.split()[1] for l in text.split("\n") if l.startswith("beta")][0])

    def queries(self):
        q = []
        tr = " ".join("%d %d %d" % t for t in self.triples)
        zs = []
        for (n1, n2, n3) in self.triples:
            zs += [complex(0, matsubara_z(self.beta, n1)), complex(0, matsubara_z(self.beta, n2)), complex(0, matsubara_z(self.beta, n3))]
        for qd in self.quads:
            s = "%d %d %d %d" % qd
            q.append("parts " + s)
            q.append("chi %s 0 %d %s" % (s, len(self.triples), tr))
            q.append("chi %s 1 %d %s" % (s, len(self.triples), tr))
            q.append("chiz %s %d %s" % (s, len(self.offaxis) // 3, zargs(self.offaxis)))
            q.append("scale %s %d %s" % (s, len(self.triples), zargs(zs)))
            q.append("scale %s %d %s" % (s, len(self.offaxis) // 3, zargs(self.offaxis)))
        q.append("chi %d %d %d %d 0 0" % self.quads[0])          # empty frequency list
        return q

    def run(self, h, d):
        qs = self.queries()
        inp = "model\n%s\nend\n%s\n" % (self.text.strip(), "\n".join(qs))
        rc, out, err = pv.run_harness(h, inp, timeout=900)
        self.raw_input = inp
        self.crash = None if rc == 0 else (rc, err[-1200:])
        lines = out.split("\n")
        self.error = next((l for l in lines if l.startswith("ERROR")), None)
        if "ENDDUMP" not in lines:
            self.impl, self.model = [], []
            return
        k = lines.index("ENDDUMP")
        self.impl = [l.split() for l in lines[k + 1:] if l.strip()]
        rc2, mout, merr = pv.sh([d], input="\n".join(lines[:k + 1]) + "\n" + "\n".join(qs) + "\n", timeout=900)
        self.model = [l.split() for l in mout.split("\n") if l.strip()]
        self.model_rc, self.model_err = rc2, merr[-600:]
        # oracle
        # the oracle does not depend on the purge flag: ask it once per quadruple
        oq = [x for x in qs if (x.startswith("chi ") and x.split()[5] == "0" and x.split()[6] != "0") or x.startswith("chiz ")]
        r = edlib.run(self.text, oq, variant=self.variant, timeout=900)
        self.oracle = r.oracle
        self.cert = r.cert
        try:
            ev = sorted(e for es in r.eigs().values() for e in es)
            ws = sorted(w for wl in r.weights().values() for w in wl)
            gap = min([e - ev[0] for e in ev if e - ev[0] > 1e-9] or [0.0])
            self.spectrum = {"E_ground": ev[0], "gap": gap, "beta*gap": self.beta * gap, "ground_degeneracy": sum(1 for e in ev if e - ev[0] <= 1e-9),
                             "weights_exactly_zero": sum(1 for w in ws if w == 0.0), "states": len(ws)}
        except Exception as ex:
            self.spectrum = {"error": repr(ex)}
        self.oracle_err = getattr(r, "oracle_err", "")


def replay_obj(s, qd=None, triple=None, extra=None):
    o = {"harness": "h_c02", "variant": s.variant, "family": s.fam, "scenario": s.text}
    if qd is not None:
        o["quad"] = list(qd)
    if triple is not None:
        o["triple"] = list(triple)
    if extra:
        o.update(extra)
    return o


def check_scenario(chk, s, h, d, first):
    """compare everything for one scenario; `first` collects the first failure of each kind for shrinking/reporting"""
    if s.crash:
        chk.violation("crash: harness h_c02", "h_c02 exit code %d on family %s: %s" % (s.crash[0], s.fam, s.crash[1][-300:]),
                      replay_obj(s, extra={"input": s.raw_input, "stderr": s.crash[1]}))
        return
    if s.error or not s.impl:
        chk.tie_broken("scenario did not build", "%s: %s" % (s.fam, s.error))
        return
    if s.model_rc != 0 or any(t[0] in ("MODEL-ERROR", "MODEL-OUTCOME") for t in s.model):
        bad = [t for t in s.model if t[0] in ("MODEL-ERROR", "MODEL-OUTCOME")][:2]
        chk.tie_broken("driver_c02", "model driver failed on family %s: rc=%d %s %s" % (s.fam, s.model_rc, bad, s.model_err))
        return
    if s.cert and max(s.cert) > 1e-9:
        chk.tie_broken("eigen-decomposition certificate", "%s: residuals %r" % (s.fam, s.cert))
        return
    ip, mp = parse_parts(s.impl), parse_parts(s.model)
    impl_chi = [t for t in s.impl if t[0] == "CHI"]
    impl_after = [t for t in s.impl if t[0] == "AFTER"]
    mod_chi = [t for t in s.model if t[0] == "CHI"]
    mod_after = [t for t in s.model if t[0] == "AFTER"]
    impl_chiz = [t for t in s.impl if t[0] == "CHIZ"]
    mod_chiz = [t for t in s.model if t[0] == "CHIZ"]
    scales = [t for t in s.model if t[0] == "SCALE"]
    or_chi = [t for t in s.oracle if t[0] == "CHI"]
    or_chiz = [t for t in s.oracle if t[0] == "CHIZ"]
    straddle = "straddle" in s.info
    nt = len(s.triples)
    seps = {}
    for qi, qd in enumerate(s.quads):
        ipat = idxpat(qd)
        # ---- term lists -------------------------------------------------------------------------------------
        if qd not in ip or qd not in mp:
            chk.tie_broken("parts record missing", "%s %r" % (s.fam, qd))
            continue
        van = ip[qd]["head"][0] == "1"
        diff = compare_parts(ip[qd], mp[qd])
        nterms = sum(len(p["nr"]) + len(p["rt"]) for p in ip[qd]["parts"])
        merged = sum(1 for p in ip[qd]["parts"] for t in p["nr"] + p["rt"] if int(t[-1]) > 1)
        chk.case("T %s %s %r" % (s.fam, s.text, qd),
                 "terms fam=%s idx=%s van=%d merged=%s sep=%s refused=%s" % (s.fam, ipat, van, "yes" if merged else "no",
                                                                               "yes" if mp[qd].get("sep", True) else "no", "yes" if mp[qd]["refused"] else "no"),
                 nontrivial=nterms > 0,
                 sample={"family": s.fam, "quad": qd, "parts": len(ip[qd]["parts"]), "terms": nterms, "merged_terms": merged} if qi == 0 else None)
        if "GDEP" in mp[qd]["flags"]:
            chk.tie_broken("model depends on the value read past the end of a sparse slice", "%s %r" % (s.fam, qd))
        sep = mp[qd].get("sep", True)
        seps[qd] = sep
        # Outside the separation hypothesis of chi_termlist_no_loss the comparator of the term lists is not a strict weak
        # order on the terms that occur; what std::set does then depends on the shape of its tree, which the model (a
        # sorted list) does not describe.  There the implementation is judged by the oracle alone.
        if diff and sep and "terms" not in first:
            first["terms"] = (s, qd, diff)
        if diff and not sep:
            chk.extra["termlists_differ_outside_separation"] = chk.extra.get("termlists_differ_outside_separation", 0) + 1
        if mp[qd]["refused"] and "refused" not in first:
            first["refused"] = (s, qd, mp[qd]["refused"])
        # ---- scales -----------------------------------------------------------------------------------------
        sm = [HX(x) for x in scales[2 * qi][5:]]
        sz = [HX(x) for x in scales[2 * qi + 1][5:]]

        def tol_of(sc, f):
            s0, s1, s2 = sc[3 * f:3 * f + 3]
            return 1e-11 * s0 + 1e-16 * s2 + (3e-8 * s1 if straddle else 1e-13 * s1) + 1e-300, s0
        # ---- Matsubara triples: on-demand, table (purge off/on), model, oracle ------------------------------------
        for ci, clear in ((2 * qi, 0), (2 * qi + 1, 1)):
            ti, tm, to = impl_chi[ci], mod_chi[ci], or_chi[qi]
            tsize = int(ti[8])
            for f, tr in enumerate(s.triples):
                tol, s0 = tol_of(sm, f)
                ond = complex(HX(ti[9 + 4 * f]), HX(ti[10 + 4 * f]))
                tab = None if ti[11 + 4 * f] == "-" else complex(HX(ti[11 + 4 * f]), HX(ti[12 + 4 * f]))
                orc = complex(HX(to[5 + 2 * f]), HX(to[6 + 2 * f]))
                mod = complex(HX(tm[9 + 4 * f]), HX(tm[10 + 4 * f])) if tm[8] != "UB" else None
                rp = respat(tr)
                chk.case("V %s %s %r %r %d" % (s.fam, s.text, qd, tr, clear),
                         "value fam=%s idx=%s res=%s purge=%d van=%d" % (s.fam, ipat, rp, clear, van),
                         nontrivial=(abs(orc) > 1e-9 * max(s0, 1e-30)) or van,
                         sample={"family": s.fam, "quad": qd, "triple": tr, "impl": str(ond), "oracle": str(orc), "tol": tol} if (qi == 0 and f == 1 and clear == 0) else None)
                if abs(ond - orc) > tol:
                    kind = "value" if seps.get(qd, True) else "value-nosep"
                    if kind not in first:
                        first[kind] = (s, qd, tr, ond, orc, tol)
                if tab is None:
                    if "tablelen" not in first:
                        first["tablelen"] = (s, qd, tr, clear, tsize, van)
                elif abs(tab - ond) > 1e-12 * s0 + 1e-300 and "table" not in first:
                    first["table"] = (s, qd, tr, clear, tab, ond)
                if mod is not None and seps.get(qd, True) and abs(mod - ond) > 1e-12 * s0 + 1e-300 and "modelvalue" not in first:
                    first["modelvalue"] = (s, qd, tr, mod, ond)
            if tsize != nt and "tablelen" not in first:
                first["tablelen"] = (s, qd, s.triples[0], clear, tsize, van)
            # on-demand evaluation of the object whose compute() purged the terms throws (documented); otherwise it evaluates
            if impl_after[ci][1] != mod_after[ci][1] and "after" not in first:
                first["after"] = (s, qd, clear, impl_after[ci], mod_after[ci])
        # ---- off-axis complex triples -----------------------------------------------------------------------
        ti, tm, to = impl_chiz[qi], mod_chiz[qi], or_chiz[qi]
        for f in range(len(s.offaxis) // 3):
            tol, s0 = tol_of(sz, f)
            ond = complex(HX(ti[5 + 2 * f]), HX(ti[6 + 2 * f]))
            orc = complex(HX(to[5 + 2 * f]), HX(to[6 + 2 * f]))
            mod = complex(HX(tm[5 + 2 * f]), HX(tm[6 + 2 * f]))
            chk.case("Z %s %s %r %d" % (s.fam, s.text, qd, f), "value fam=%s idx=%s res=off-axis van=%d" % (s.fam, ipat, van),
                     nontrivial=abs(orc) > 1e-9 * max(s0, 1e-30))
            if abs(ond - orc) > tol:
                kind = "value" if seps.get(qd, True) else "value-nosep"
                if kind not in first:
                    first[kind] = (s, qd, ("z",) + tuple(s.offaxis[3 * f:3 * f + 3]), ond, orc, tol)
            if seps.get(qd, True) and abs(mod - ond) > 1e-12 * s0 + 1e-300 and "modelvalue" not in first:
                first["modelvalue"] = (s, qd, ("z", f), mod, ond)
    # ---- empty frequency list -------------------------------------------------------------------------------
    ti, tm = impl_chi[-1], mod_chi[-1]
    chk.case("E %s %s" % (s.fam, s.text), "empty-frequency-list fam=%s van=%s model=%s" % (s.fam, ti[6], tm[8]), nontrivial=True)
    if ti[8] != "0" and "emptylen" not in first:
        first["emptylen"] = (s, s.quads[0], ti)


def single_value(s, qd, tr, h, d):
    """re-run one (quad, triple) on a (possibly reduced) scenario: (impl, oracle, tol) or None"""
    if tr[0] == "z":
        t = Scn(s.fam, s.text, s.M, s.info, [qd], [(0, 0, 0)], list(tr[1:]), s.variant)
    else:
        t = Scn(s.fam, s.text, s.M, s.info, [qd], [tuple(tr)], [complex(0.3, 0.7), complex(-0.2, 1.1), complex(0.1, -0.4)], s.variant)
    try:
        t.run(h, d)
        if t.crash or t.error or not t.impl:
            return None
        scales = [x for x in t.model if x[0] == "SCALE"]
        straddle = "straddle" in s.info
        if tr[0] == "z":
            ti = [x for x in t.impl if x[0] == "CHIZ"][0]
            to = [x for x in t.oracle if x[0] == "CHIZ"][0]
            sc = [HX(x) for x in scales[1][5:]]
            a, b = complex(HX(ti[5]), HX(ti[6])), complex(HX(to[5]), HX(to[6]))
        else:
            ti = [x for x in t.impl if x[0] == "CHI"][0]
            to = [x for x in t.oracle if x[0] == "CHI"][0]
            sc = [HX(x) for x in scales[0][5:]]
            a, b = complex(HX(ti[9]), HX(ti[10])), complex(HX(to[5]), HX(to[6]))
        tol = 1e-11 * sc[0] + 1e-16 * sc[2] + (3e-8 * sc[1] if straddle else 1e-13 * sc[1]) + 1e-300
        return a, b, tol
    except Exception:
        return None


def shrink_value(s, qd, tr, h, d):
    """greedy: drop scenario lines (terms of the Hamiltonian) while the disagreement with the oracle persists"""
    lines = [l for l in s.text.strip().split("\n")]
    changed, budget = True, 14
    while changed and budget > 0:
        changed = False
        for k, l in enumerate(lines):
            if not l.startswith("add"):
                continue
            cand = lines[:k] + lines[k + 1:]
            t = Scn(s.fam, "\n".join(cand) + "\n", s.M, s.info, [qd], [], [], s.variant)
            budget -= 1
            r = single_value(t, qd, tr, h, d)
            if r and abs(r[0] - r[1]) > r[2]:
                lines, changed = cand, True
                break
            if budget <= 0:
                break
    return "\n".join(lines) + "\n"


VANISHING_MIN = ("hubbard-atom", "site A 1 2\naddCoulombS A 1 -0.5\nbeta 10\n", (0, 0, 1, 1))
VANISHING_KEY = "table-length: vanishing component, model=hubbard-atom quad=0011 nfreq=1"
NEARDEG_MIN = ("near-degenerate", "site A 1 2\nsite B 1 2\naddLevel A 0.5\naddLevel B 0.5\naddHopping4 A B 3e-09\naddCoulombS A 1 0\nsymm ignore\nbeta 4\n",
               (0, 0, 0, 0), (2, 1, 1))
NEARDEG_KEY = "value: term weight lost for nearly coinciding poles, model=two-site t=3e-9 U=1 symm=ignore quad=0000 triple=(2,1,1)"


def probe_vanishing(chk, h, d):
    """corpus case (minimised): a component that vanishes by symmetry, one frequency triple"""
    fam, text, qd = VANISHING_MIN
    inp = "model\n%send\nchi %d %d %d %d 0 1 0 0 0\nchi %d %d %d %d 1 1 0 0 0\n" % ((text,) + qd + qd)
    rc, out, err = pv.run_harness(h, inp, timeout=300)
    recs = [l.split() for l in out.split("\n") if l.startswith("CHI ")]
    for t in recs:
        chk.case("VAN %s %s" % (text, " ".join(t[1:6])), "vanishing-corpus purge=%s tablesize=%s" % (t[5], t[8]), nontrivial=True,
                 sample={"corpus": "vanishing component", "record": " ".join(t)})
        if t[6] == "1" and int(t[8]) != 1:
            chk.violation(VANISHING_KEY,
                          "TwoParticleGF::compute(clear=%s, freqs) of a vanishing component returns a table of length %s for 1 frequency triple; "
                          "on-demand evaluation returns %s for that triple (TwoParticleGF.cpp: the table is sized inside `if (!Vanishing)`)"
                          % (t[5], t[8], t[9]),
                          {"harness": "h_c02", "variant": "real", "input": inp, "expected_table_length": 1, "observed_table_length": int(t[8]),
                           "model": "PV.ChiProofs.table_eq_on_demand_refuted", "proposed_fix": "proposed/fix-chi-vanishing-table.diff"})
            break
    if rc != 0 or not recs:
        chk.tie_broken("vanishing probe", "harness rc=%d %s" % (rc, err[-300:]))


def source_shape(d):
    """the structural flags the translator read from the source (as compiled into the extracted model)"""
    rc, out, err = pv.sh([d], input="shape\n", timeout=60)
    return dict(kv.split("=") for kv in out.split()[1:]) if out.startswith("SHAPE") else {}


def probe_near_degenerate(chk, h, d):
    """corpus case (minimised): two levels 6e-9 apart reached by the same operator; weight is lost in the term lists"""
    fam, text, qd, tr = NEARDEG_MIN
    s = Scn(fam, text, 4, {"straddle": 6e-9}, [qd], [tr], [], "real")
    r = single_value(s, qd, tr, h, d)
    if r is None:
        chk.tie_broken("near-degenerate probe", "could not be evaluated")
        return
    a, b, tol = r
    chk.case("ND " + text, "near-degenerate-corpus %s" % ("agrees" if abs(a - b) <= tol else "differs"), nontrivial=True,
             sample={"corpus": "near-degenerate levels", "impl": str(a), "oracle": str(b), "tolerance": tol})
    if abs(a - b) > tol and source_shape(d).get("add_term_retries") == "true":
        # the source has the repaired add_term: a difference here is not the known loss of term weight
        chk.violation("value: chi differs from its definition",
                      "near-degenerate corpus case (two sites, hopping 3e-9, U=1, symmetries ignored) chi_0000(2,1;1) = %s, the documented definition gives %s "
                      "(|diff| %.3g, tolerance %.3g)" % (a, b, abs(a - b), tol),
                      {"harness": "h_c02", "variant": "real", "family": fam, "scenario": text, "quad": list(qd), "triple": list(tr),
                       "impl": str(a), "oracle": str(b), "tolerance": tol})
    elif abs(a - b) > tol:
        chk.violation(NEARDEG_KEY,
                      "two sites with equal levels and hopping 3e-9 (levels 6e-9 apart), U=1 on one site, symmetries ignored: chi_0000(2,1;1) = %s, the documented "
                      "definition gives %s (|diff| %.3g, tolerance %.3g incl. the 1e-8 pole merging): terms are lost in TermList::add_term when the reduced term, "
                      "whose poles move to the weighted mean, is equivalent to another stored term and std::set::insert refuses it"
                      % (a, b, abs(a - b), tol),
                      {"harness": "h_c02", "variant": "real", "family": fam, "scenario": text, "quad": list(qd), "triple": list(tr),
                       "impl": str(a), "oracle": str(b), "tolerance": tol, "model": "PV.ChiProofs.chi_termlist_loss_witness",
                       "proposed_fix": "proposed/fix-termlist-refused-insert.diff"})


def probe_empty_ubsan(chk):
    """compute() with an empty frequency list (also the default call) under UBSan: `&m_data[0]` on an empty vector"""
    ha = pv.build_harness("h_c02", "asan")
    text = VANISHING_MIN[1]
    inp = "model\n%send\nchi 0 1 0 1 0 0\n" % text
    rc, out, err = pv.run_harness(ha, inp, timeout=300)
    hit = "runtime error" in err and "TwoParticleGF" in err
    chk.case("UB " + text, "empty-frequency-list ubsan=%s" % ("report" if hit else ("clean" if rc == 0 else "other")), nontrivial=True,
             sample={"probe": "empty frequency list under UBSan", "rc": rc, "stderr": err[:300]})
    if hit:
        line = [l for l in err.split("\n") if "runtime error" in l][0]
        chk.violation("ub: compute() with an empty frequency list, model=hubbard-atom quad=0101",
                      "TwoParticleGF::compute with an empty frequency list (the default arguments) on a non-vanishing component takes "
                      "&m_data[0] of an empty vector (TwoParticleGF.cpp:176): " + line.strip()[:200],
                      {"harness": "h_c02", "variant": "asan", "input": inp, "stderr": err[:1500],
                       "model": "PV.ChiProofs.table_empty_freqs_undefined", "proposed_fix": "proposed/fix-chi-empty-freqs-ub.diff"})
    elif rc != 0:
        chk.violation("crash: sanitizer run of compute() with an empty frequency list", "exit code %d: %s" % (rc, err[:400]),
                      {"harness": "h_c02", "variant": "asan", "input": inp, "stderr": err[:1500]})


def report(chk, first, h, d):
    if "tablelen" in first:
        s, qd, tr, clear, tsize, van = first["tablelen"]
        chk.violation(VANISHING_KEY if van else "table-length: non-vanishing component",
                      "family %s quad %r: compute(clear=%d, %d frequencies) returned a table of length %d" % (s.fam, qd, clear, len(s.triples), tsize),
                      replay_obj(s, qd, tr, {"clear": clear, "observed_table_length": tsize}))
    if "value-nosep" in first and source_shape(d).get("add_term_retries") == "true":
        first.setdefault("value", first["value-nosep"])
    elif "value-nosep" in first:
        s, qd, tr, ond, orc, tol = first["value-nosep"]
        chk.violation(NEARDEG_KEY,
                      "family %s quad %r (%s) frequencies %r: TwoParticleGF returns %s, the documented definition gives %s (|diff| %.3g, tolerance %.3g); "
                      "the poles of this component violate the separation hypothesis of chi_termlist_no_loss (some are between 1e-8/4 and 2e-8 apart): "
                      "terms are lost in TermList::add_term" % (s.fam, qd, idxpat(qd), tr, ond, orc, abs(ond - orc), tol),
                      replay_obj(s, qd, [str(x) for x in tr], {"impl": str(ond), "oracle": str(orc), "tolerance": tol,
                                                               "proposed_fix": "proposed/fix-termlist-refused-insert.diff"}))
    if "value" in first:
        s, qd, tr, ond, orc, tol = first["value"]
        text = shrink_value(s, qd, tr, h, d)
        t = Scn(s.fam, text, s.M, s.info, [qd], [], [], s.variant)
        r = single_value(t, qd, tr, h, d) or (ond, orc, tol)
        pat = "off-axis" if tr[0] == "z" else respat(tr)
        chk.violation("value: chi differs from its definition",
                      "family %s quad %r (%s) frequencies %r (resonance pattern %s): TwoParticleGF returns %s, the documented definition gives %s (|diff| %.3g, tolerance %.3g)"
                      % (s.fam, qd, idxpat(qd), tr, pat, r[0], r[1], abs(r[0] - r[1]), r[2]),
                      replay_obj(t, qd, [str(x) for x in tr], {"impl": str(r[0]), "oracle": str(r[1]), "tolerance": r[2], "unshrunk_scenario": s.text}))
    if "table" in first:
        s, qd, tr, clear, tab, ond = first["table"]
        chk.violation("table: entry differs from on-demand evaluation",
                      "family %s quad %r triple %r purge=%d: table entry %s, on-demand %s" % (s.fam, qd, tr, clear, tab, ond),
                      replay_obj(s, qd, tr, {"clear": clear}))
    if "after" in first:
        s, qd, clear, a, b = first["after"]
        chk.tie_broken("state after compute(clear=%d)" % clear, "family %s quad %r: implementation %s, model %s" % (s.fam, qd, a, b))
    if "emptylen" in first:
        s, qd, ti = first["emptylen"]
        chk.violation("table-length: empty frequency list", "family %s quad %r: %s" % (s.fam, qd, " ".join(ti)), replay_obj(s, qd))
    # model vs implementation: the implementation is judged by the oracle above; a difference here means the model
    # does not describe the code
    if "terms" in first:
        s, qd, diff = first["terms"]
        chk.tie_broken("term lists: model vs TwoParticleGFPart", "family %s quad %r: %s; scenario: %r" % (s.fam, qd, diff, s.text))
    if "modelvalue" in first:
        s, qd, tr, mod, ond = first["modelvalue"]
        chk.tie_broken("value: model vs TwoParticleGF::operator()", "family %s quad %r at %r: model %s impl %s" % (s.fam, qd, tr, mod, ond))
    if "refused" in first:
        s, qd, n = first["refused"]
        chk.notes.append("model: %d refused std::set insertions in family %s quad %r" % (n, s.fam, qd))
        chk.extra["refused_insertions_seen"] = {"family": s.fam, "quad": list(qd), "count": n, "scenario": s.text}


# the distributed slice: index quadruples on C06's two-site model (modes: 0 = A up, 1 = A down, 2 = B up, 3 = B down) and
# frequency triples that reach both kinds of resonant terms (n1+n2 = -1; n2 = n3) as well as none
DIST_QUADS = [(0, 1, 0, 1), (0, 2, 0, 2), (0, 3, 2, 1), (1, 3, 1, 3), (2, 3, 2, 3), (0, 2, 2, 0)]
DIST_TRIPLES = [(0, 0, 0), (0, -1, 0), (1, -2, 1), (2, 1, 1), (1, 2, -2)]


def distributed_slice(chk, quick):
    """TwoParticleGF::compute(clear, freqs, comm) on P > 1 ranks (harness h_c06 under mpiexec, the `chi` command): the parts are
    computed by whichever rank the dispatcher hands them to, the table is reduced to rank 0 and, when the terms are kept, every
    part's two term lists are broadcast from the rank that computed it.  Afterwards
      * on-demand evaluation on EVERY rank must equal the single-rank on-demand value (which is compared with the definition,
        EDSpec.chi on the full space, right here), and
      * the table returned on rank 0 must equal the single-rank table and rank 0's own on-demand values.
    Termination is C06's business: a launch that does not end normally is only noted."""
    import C06
    h = pv.build_harness("h_c06")
    quads = DIST_QUADS[:3] if quick else DIST_QUADS
    nf = len(DIST_TRIPLES)
    tr = " ".join("%d %d %d" % t for t in DIST_TRIPLES)

    def cmds_for(clear):
        return "".join("chi %d %d %d %d %d %d %s\n" % (q + (clear, nf, tr)) for q in quads)

    def vals(tokens):
        return [None if tokens[2 * f] == "THROWS" else complex(HX(tokens[2 * f]), HX(tokens[2 * f + 1])) for f in range(len(tokens) // 2)]

    def key(q):
        return tuple(str(x) for x in q)

    rc, ranks, err = C06.launch(h, 1, cmds_for(0), threads=1, timeout=120)
    ref = C06.parse(ranks[0])
    if rc != 0 or not ref["done"] or any(key(q) not in ref["chieval"] or key(q) not in ref["chitable"] for q in quads):
        chk.tie_broken("h_c06 single-rank reference (C02 distributed slice)", "rc=%s %s %s" % (rc, err, ref["throws"][:2]))
        return
    refv = {q: vals(ref["chieval"][key(q)]) for q in quads}
    reft = {q: vals(ref["chitable"][key(q)]) for q in quads}
    # the single-rank reference against the definition (fixed model: measured agreement ~1e-14; allowed 1e-9 relative to 1+|chi|)
    r = edlib.run(C06.MODEL, ["chi %d %d %d %d 0 %d %s" % (q + (nf, tr)) for q in quads], variant="real", timeout=600)
    orc = [t for t in r.oracle if t[0] == "CHI"]
    if r.crash or r.error or len(orc) != len(quads) or (r.cert and max(r.cert) > 1e-9):
        chk.tie_broken("oracle for the distributed slice", "%s %s %s" % (r.crash, r.error, r.cert))
        orc = None
    worst = 0.0
    for qi, q in enumerate(quads):
        for f, t in enumerate(DIST_TRIPLES):
            a = refv[q][f] if f < len(refv[q]) else None
            tb = reft[q][f] if f < len(reft[q]) else None
            conf1 = {"harness": "h_c06", "P": 1, "commands": cmds_for(0), "model": C06.MODEL, "threads": 1, "quad": list(q), "triple": list(t)}
            if a is None or tb is None or not abs(tb - a) <= 1e-12 * (1 + abs(a)):
                chk.violation("table: entry differs from on-demand evaluation",
                              "two-site model of the distributed slice, quad %r triple %r on one rank: table entry %s, on-demand %s" % (q, t, tb, a), conf1)
                return
            if orc:
                o = complex(HX(orc[qi][5 + 2 * f]), HX(orc[qi][6 + 2 * f]))
                worst = max(worst, abs(a - o) / (1 + abs(o)))
                if not abs(a - o) <= 1e-9 * (1 + abs(o)):
                    chk.violation("value: chi differs from its definition",
                                  "two-site model of the distributed slice, quad %r (%s) triple %r (resonance pattern %s): TwoParticleGF returns %s, "
                                  "the documented definition gives %s" % (q, idxpat(q), t, respat(t), a, o), conf1)
                    return
    chk.extra["distributed_slice"] = {"quads": [list(q) for q in quads], "triples": [list(t) for t in DIST_TRIPLES],
                                      "single_rank_vs_definition_max_rel": worst, "launches": []}
    reported = set()
    for P in ((2, 3) if quick else (2, 3, 4, 5, 7)):
        for clear in ((0,) if quick else (0, 1)):
            cmds = cmds_for(clear)
            rc, ranks, err = C06.launch(h, P, cmds, threads=1, timeout=60)
            chk.case("mpi %d %d" % (P, clear), "distributed compute P=%d %s" % (P, "purge" if clear else "keep"), True, None)
            chk.extra["distributed_slice"]["launches"].append({"P": P, "clear": clear, "rc": rc})
            if rc != 0:
                chk.notes.append("distributed slice: launch P=%d clear=%d ended with rc=%s (termination is decided by C06)" % (P, clear, rc))
                continue
            conf = {"harness": "h_c06", "P": P, "commands": cmds, "model": C06.MODEL, "threads": 1}
            for rk in sorted(ranks):
                o = C06.parse(ranks[rk])
                for q in quads:
                    ev = vals(o["chieval"].get(key(q), []))
                    tb = vals(o["chitable"].get(key(q), []))
                    for f, t in enumerate(DIST_TRIPLES):
                        a = ev[f] if (not clear and f < len(ev)) else None
                        b = tb[f] if f < len(tb) else None
                        if not clear and (a is None or not abs(a - refv[q][f]) <= 1e-10 * (1 + abs(refv[q][f]))) and "eval" not in reported:
                            reported.add("eval")
                            chk.violation("distributed-evaluation: on-demand value after compute(clear=false) on several ranks",
                                          "two-site model, quad %r (%s) triple %r (resonance pattern %s): after compute(false, freqs, comm) on %d ranks, "
                                          "on-demand evaluation on rank %d gives %s; on one rank (= the definition) it gives %s"
                                          % (q, idxpat(q), t, respat(t), P, rk, "an exception" if a is None else a, refv[q][f]),
                                          dict(conf, quad=list(q), triple=list(t), rank=rk))
                        if rk != 0:
                            continue
                        if (b is None or not abs(b - reft[q][f]) <= 1e-10 * (1 + abs(reft[q][f]))) and "table" not in reported:
                            reported.add("table")
                            chk.violation("distributed-table: table returned by compute on several ranks",
                                          "two-site model, quad %r triple %r: compute(%s, freqs, comm) on %d ranks returns the entry %s on rank 0; "
                                          "on one rank %s" % (q, t, "true" if clear else "false", P, "(missing)" if b is None else b, reft[q][f]),
                                          dict(conf, quad=list(q), triple=list(t), rank=0))
                        if a is not None and b is not None and not abs(b - a) <= 1e-10 * (1 + abs(a)) and "table-eval" not in reported:
                            reported.add("table-eval")
                            chk.violation("distributed-table-vs-evaluation: returned table differs from on-demand evaluation",
                                          "two-site model, quad %r (%s) triple %r (resonance pattern %s): compute(false, freqs, comm) on %d ranks returns the "
                                          "table entry %s on rank 0, on-demand evaluation on the same rank afterwards gives %s"
                                          % (q, idxpat(q), t, respat(t), P, b, a), dict(conf, quad=list(q), triple=list(t), rank=0))


def generate(chk, variant, families, nq, ntr):
    out = []
    for famfn in families:
        fam, text, M, info = famfn(chk.rng)
        nq_, ntr_ = nq, ntr
        if "symm ignore" in text and M >= 4:
            # one 16-dimensional block with dense eigenvectors: the full-space oracle costs 6 * 16^4 kernel evaluations per triple
            nq_, ntr_ = min(nq, 4), min(ntr, 5)
        quads = quads_for(chk.rng, M, nq_)
        k = max(3, ntr_ // 2)
        triples = chk.rng.sample(SPECIAL, k) + scen.matsubara_triples(chk.rng, ntr_ - k)
        off = []
        for _ in range(2):
            off += [complex(chk.rng.choice([0.25, -0.5, 0.75]), chk.rng.choice([0.5, 1.25, -0.75])),
                    complex(chk.rng.choice([-0.25, 0.5, 0.125]), chk.rng.choice([0.375, -1.5, 2.0])),
                    complex(chk.rng.choice([0.375, -0.125, 1.0]), chk.rng.choice([0.625, 1.75, -0.25]))]
        # one off-axis triple with z1 + z2 = 0 exactly (the resonance test away from the Matsubara axis)
        off += [complex(0.25, 0.5), complex(-0.25, -0.5), complex(0.5, 0.75)]
        out.append(Scn(fam, text, M, info, quads, triples, off, variant))
    return out


def run(chk):
    quick = chk.tier == "quick"
    ok, log = chk.prove(["extract/Extract_C02.vo", "extract/Extract_ED.vo"], extra_props=["Properties_C02_source.v"])
    chk.trusted += ["translator/gen_c02.py and translator/cexpr.py",
                    "translator/gen_lehmann.py with translator/cstmt.py (statement splitter + shape recognition): reads, one generated file per C++ function, "
                    "the control structure of chaseIndices, TwoParticleGFPart::compute (loop nest, index list, innermost body), addMultiterm, the two "
                    "operator+=, TermList::add_term / operator(), TwoParticleGFPart::operator(), TwoParticleGF::operator(), TwoParticleGF::compute and "
                    "ComputeAndClearWrap::run (coq/gen/Gen_Leh*.v in the vocabulary coq/theories/LehmannShapes.v, interpreted by coq/theories/LehmannInterp.v "
                    "and the slice-walk interpreter of coq/theories/LehmannGenChi.v); Properties_C02_source.v = the agreement with coq/theories/Chi.v and the "
                    "theorems about the interpreted source. TwoParticleGF::compute is tied as a description (order, guards, broadcast roots) and through the "
                    "two switches of Chi.gf_compute_gen only: the MPI distribution itself is not interpreted",
                    "extraction: ExtrOcamlBasic, ExtrOcamlNatInt, ExtrOCamlFloats; no Extract Constant of our own",
                    "ocaml/driver_c02.ml (parsing, building the model input from the dump, printing, tolerance scales), harness/h_c02.cpp, harness/ed_common.h",
                    "the oracle: coq/theories/EDSpec.v (chi, phi) extracted to ED_model.ml, ocaml/driver_ed.ml, tools/edlib.py",
                    "the derivation of the kernel phi from the triple imaginary-time integral (Hafermann et al., EPL 85 27007): phi_is_integral is not proved",
                    "g++ 12 / Eigen / Boost / Open MPI as used by the library build; binary64 exp of the C library"]
    chk.assume += ["single rank, OMP_NUM_THREADS=1, except in the distributed slice (2..7 ranks, one model; rank/thread independence at large is C06)",
                   "scenario amplitudes are dyadic except in the diag-straddle family, whose level spacings (6e-9, 1.2e-8, 3e-8) are chosen around the 1e-8 thresholds",
                   "comparison tolerance = 1e-11*S0 + 1e-16*S2 + (3e-8 in the diag-straddle family, else 1e-13)*S1 with S0 = sum of the magnitudes of all pieces of all "
                   "multiterms (weights entering a difference counted as a sum), S1 = the same weighted by sum 1/|denominator|, S2 = sum of the inverse denominator products"]
    h = pv.build_harness("h_c02", "real")
    d = pv.build_driver("driver_c02", ["C02_model"], floats=True)
    edlib.binaries("real")
    first = {}
    # corpus first
    probe_vanishing(chk, h, d)
    probe_near_degenerate(chk, h, d)
    probe_empty_ubsan(chk)
    scs = generate(chk, "real", QUICK_FAMILIES if quick else QUICK_FAMILIES + THOROUGH_EXTRA, 6 if quick else 10, 8 if quick else 14)
    if not quick:
        hc = pv.build_harness("h_c02", "complex")
        edlib.binaries("complex")
        scs += generate(chk, "complex", [complex_two_site, complex_two_site, scen.two_site, scen.free_degenerate, diag_straddle, half_filled_atom], 8, 10)
    scs = scs[:2] + low_temperature(chk.tier) + scs[2:]
    for s in scs:
        hh = h if s.variant == "real" else hc
        s.run(hh, d)
        check_scenario(chk, s, hh, d, first)
        if "lowT" in s.info:
            sp = dict(getattr(s, "spectrum", {}), family=s.fam, scenario=" | ".join(s.text.strip().split("\n")), intended=s.info["lowT"])
            chk.extra.setdefault("low_temperature", []).append(sp)
            if not s.crash and not s.error and (sp.get("error") or not 0.6 * s.info["lowT"] <= sp.get("beta*gap", 0) <= 1.6 * s.info["lowT"]
                                                 or (s.info["lowT"] >= 800 and not sp.get("weights_exactly_zero"))):
                chk.tie_broken("low-temperature bookkeeping", "%s: beta*gap is not where the scenario is meant to be: %r" % (s.fam, sp))
    report(chk, first, h, d)
    distributed_slice(chk, quick)
    chk.rule = ("scenarios from the shared families (Hubbard atom incl. half filling, free degenerate, atomic limit, two-site, Anderson; thorough: Kanamori, exchange, "
                "complex hoppings on the complex build) plus a diagonal family with level spacings 6e-9 / 1.2e-8 / 3e-8; per scenario 6-10 index quadruples covering the "
                "patterns direct, exchange, i=j, k=l, all equal, all distinct, random; per quadruple the fixed triples hitting n1=n3, n2=n3, n1+n2=-1 and their "
                "coincidences plus random ones, two to three complex off-axis triples (one with z1+z2=0), purge off and on, one empty frequency list; "
                "deterministic low-temperature scenarios in every tier (atoms with empty / doubly occupied / spin-degenerate / polarised ground state, dimers; "
                "beta*gap ~ 300, ~800..1000, ~3000, so that excited-state weights are exactly 0.0; 6-8 quadruples incl. uuuu, udud, uddu, inter-site, vanishing; "
                "all 9 resonance patterns + 3 non-resonant triples; on-demand, both table paths, term lists against the model, values against the oracle); "
                "a distributed slice (2-3, thorough up to 7 MPI ranks, one two-site model, 3-6 quadruples, 5 triples: every rank's on-demand values and "
                "rank 0's table against the single-rank run and the definition); "
                "a case is distinct by (scenario text, quadruple, triple, purge) and non-trivial when the component vanishes by symmetry or the exact value is "
                "not numerically zero; term-list cases are non-trivial when the part has terms")
    chk.extra["scenarios"] = len(scs)
    chk.extra["source_shape"] = source_shape(d)


def replay(chk, path):
    r = json.load(open(path))
    rp = r.get("replay", {})
    print(json.dumps({k: r[k] for k in ("property", "key", "what") if k in r}, indent=1))
    variant = rp.get("variant", "real") if isinstance(rp, dict) else "real"
    if isinstance(rp, dict) and rp.get("harness") == "h_c06":
        import C06
        rc, ranks, err = C06.launch(pv.build_harness("h_c06"), rp["P"], rp["commands"], threads=rp.get("threads", 1), timeout=120, model=rp.get("model"))
        print("exit", rc, err)
        for k in ranks:
            for t in ranks[k]:
                if t[0] in ("CHITABLE", "CHIEVAL", "DONE", "THROWS"):
                    print("rank", k, " ".join(t)[:400])
        distributed_slice(chk, chk.tier == "quick")
        return chk.finish()
    if isinstance(rp, dict) and "input" in rp:
        h = pv.build_harness("h_c02", variant)
        rc, out, err = pv.run_harness(h, rp["input"], timeout=600)
        print("exit code", rc)
        print("\n".join(l for l in out.split("\n") if l.split(" ")[0] in ("CHI", "AFTER", "CHIZ", "THROWS", "ERROR")))
        print(err[:1500])
    elif isinstance(rp, dict) and "scenario" in rp and "quad" in rp:
        h = pv.build_harness("h_c02", variant)
        d = pv.build_driver("driver_c02", ["C02_model"], floats=True)
        qd = tuple(rp["quad"])
        tr = rp.get("triple", [0, 0, 0])
        tr = ("z",) + tuple(complex(x) for x in tr[1:]) if tr and tr[0] == "z" else tuple(int(x) for x in tr)
        s = Scn(rp.get("family", "?"), rp["scenario"], 0, {"straddle": 1} if rp.get("family") == "diag-straddle" else {}, [qd], [], [], variant)
        print("impl, oracle, tolerance:", single_value(s, qd, tr, h, d))
    run(chk)
    return chk.finish()


def setup():
    pv.build_driver("driver_c02", ["C02_model"], floats=True)
    pv.build_harness("h_c02", "real")
    pv.build_harness("h_c02", "asan")
    pv.build_harness("h_c06")
    edlib.binaries("real")
