"""C12 -- Wick's theorem: quadratic models give the free propagator and a vanishing vertex.

Proof (partial): props/Properties_C12.v (22 theorems) -- for DIAGONAL h and EVERY number of modes M the executable specification
PV.EDSpec gives G = delta_ij/(z - eps_i) (free_gf_diag_allM) and chi = documented chi0, i.e. the generated Vertex4::value = 0
(free_chi_is_documented_chi0_diag_allM, free_vertex_zero_diag_allM: all index quadruples, all frequency triples in every resonance
pattern, all levels incl. degenerate / opposite / zero, at every regular point; generic field + instances over C for all real levels,
all beta > 0, all Matsubara numbers; the older *_partial theorems are the M <= 3 / M = 2 instances).  For ARBITRARY h, in matrix form
(mathcomp): resolvent_of_rotated_diagonal and lehmann_is_resolvent_any_h (the Lehmann double sum is (z - h)^-1, given the CAR, H
diagonal in the eigenbasis, normalised weights).
NOT proved: that EDSpec.gf itself equals that Lehmann sum for non-diagonal h (representation gap between the list-level
specification and the mathcomp statement), and the vanishing vertex for non-diagonal h.  That part, and the
correspondence between the specification and the library on free models, is what this module checks on the real library:

  random quadratic models written as raw `term 2 h_ab 1 <a> 0 <b>` lines with explicit Hermitian conjugates (real symmetric h
  on 2..5 modes; diagonal, degenerate, zero, block-diagonal h; complex Hermitian h in the complex build, thorough tier),
  default and ignored symmetries;
  degenerate NON-diagonal h on 3..5 modes -- uniform ring, star with equal leaves, complete graph (tetrahedron) -- with exact
  degeneracies (different eigenstates of one block whose computed energies agree only to a few ulp) and with levels split by
  1e-9 .. 1e-13 (inside the library's resonance tolerance 1e-8, far outside 1e-16), always evaluated at frequency triples of
  all three resonance kinds (n1 = n3, n2 = n3, n1 + n2 = -1 and their combinations) and 8 index quadruples;
  (1) G(z) against the EXACT inverse (z - h)^{-1} computed with python fractions (Gaussian elimination over complex rationals)
      at dyadic z off the real axis, and at the (binary64-rounded) Matsubara points;
  (2) for sampled index quadruples (all index patterns) and frequency triples from scen.matsubara_triples (n1 = n3, n2 = n3,
      n1 + n2 = -1 and their combinations): chi minus the Wick part built from the library's own G values must vanish, and the
      library's Vertex4::value must vanish, relative to beta*|G|^2.

Assertion-enabled build: TwoParticleGFPart::compute() ends with assert(NonResonantTerms.check_terms()) /
assert(ResonantTerms.check_terms()).  The variants real/complex/asan are built with NDEBUG; a plain `cmake /repo` is not, and
there the unrepaired check_terms() (which demanded non-negligibility w.r.t. the FINAL list size, not an invariant of add_term)
aborted on degenerate free models (4-site ring, two equal dimers) although the values were right: repaired in /repo
(7d733ea).  Stage `assertion_stage` runs those models through the variant `assert` (no NDEBUG) on every run: an abort is a
violation.  The harness still evaluates check_terms() itself (`checkterms`) and records the result as an observation.

Harness: harness/h_c12.cpp (scenario interpreter of ed_common.h; real GreensFunction, TwoParticleGF, Vertex4 objects).
"""
import cmath
import json
import math
from fractions import Fraction

import pv
import scen

DROP = 1e-8
ZS = [(0.5, 1.25), (-1.5, 0.75), (0.25, -2.0), (3.0, 0.5), (0.0, 0.375), (-0.125, -0.25)]
NS = [0, 1, 3, -1, -2]
VALS = [-2, -1.5, -1, -0.75, -0.5, -0.25, 0.25, 0.5, 0.75, 1, 1.5, 2]

DEGFAMS = ("ring", "star", "complete", "dimers")
# fixed inputs on which the unmodified library's check_terms() is false (an assertion-enabled build aborts in TwoParticleGFPart::compute);
# the values must nevertheless satisfy the property: (name, h, beta, index quadruples that are always included)
FIXED_DEG = [("ring-fixed", [[-0.05, 0.25, 0, 0.25], [0.25, -0.05, 0.25, 0], [0, 0.25, -0.05, 0.25], [0.25, 0, 0.25, -0.05]], 5, [(0, 0, 1, 1), (0, 0, 1, 2)]),
             ("dimers-fixed", [[0.5, 0.25, 0, 0], [0.25, 0.5, 0, 0], [0, 0, 0.5, 0.25], [0, 0, 0.25, 0.5]], 2, [(0, 3, 3, 0), (1, 2, 1, 2)])]
NEAR = [1e-9, 1e-10, 1e-11, 1e-12, 1e-13]
# every resonance kind and every combination of two (all three at once is impossible), plus generic ones
RES_TRIPLES = [(0, 0, 0), (-1, -1, -1), (1, 0, 1), (0, 1, 1), (0, -1, 2), (1, -2, 0), (0, -1, 0), (-1, 0, -1), (1, -2, -2), (-1, 0, 0),
               (0, 1, 2)]

LAYOUTS = {
    2: [("site A 1 2\n", [("A", 0, 0), ("A", 0, 1)], False)],
    3: [("site A 3 1\n", [("A", 0, 0), ("A", 1, 0), ("A", 2, 0)], True)],          # spinless: symmetries must be ignored
    4: [("site A 1 2\nsite B 1 2\n", [("A", 0, 0), ("A", 0, 1), ("B", 0, 0), ("B", 0, 1)], False),
        ("site A 2 2\n", [("A", 0, 0), ("A", 0, 1), ("A", 1, 0), ("A", 1, 1)], False)],
    5: [("site A 2 2\nsite B 1 1\n", [("A", 0, 0), ("A", 0, 1), ("A", 1, 0), ("A", 1, 1), ("B", 0, 0)], True)],
}


def f(x):
    return scen.f(x)


# ---------------------------------------------------------------------------
# exact complex rational arithmetic (pairs of Fractions)

def cfr(x):
    if isinstance(x, complex):
        return (Fraction(x.real), Fraction(x.imag))
    return (Fraction(x), Fraction(0))


def cmul(a, b):
    return (a[0] * b[0] - a[1] * b[1], a[0] * b[1] + a[1] * b[0])


def csub(a, b):
    return (a[0] - b[0], a[1] - b[1])


def cdiv(a, b):
    d = b[0] * b[0] + b[1] * b[1]
    return ((a[0] * b[0] + a[1] * b[1]) / d, (a[1] * b[0] - a[0] * b[1]) / d)


def exact_inverse(h, z):
    """(z - h)^{-1} by Gauss-Jordan elimination over Q(i); h: MxM list of complex with dyadic parts, z: (re, im) floats"""
    M = len(h)
    zf = (Fraction(z[0]), Fraction(z[1]))
    A = [[csub(zf if r == c else (Fraction(0), Fraction(0)), cfr(h[r][c])) for c in range(M)] +
         [((Fraction(1), Fraction(0)) if r == c else (Fraction(0), Fraction(0))) for c in range(M)] for r in range(M)]
    for col in range(M):
        piv = next(r for r in range(col, M) if A[r][col] != (0, 0))
        A[col], A[piv] = A[piv], A[col]
        p = A[col][col]
        A[col] = [cdiv(x, p) for x in A[col]]
        for r in range(M):
            if r != col and A[r][col] != (0, 0):
                fct = A[r][col]
                A[r] = [csub(x, cmul(fct, y)) for x, y in zip(A[r], A[col])]
    return [[complex(float(A[r][M + c][0]), float(A[r][M + c][1])) for c in range(M)] for r in range(M)]


def charpoly(h):
    """characteristic polynomial of a Hermitian matrix with dyadic entries, exactly (Faddeev-LeVerrier over Q(i));
    coefficients are real rationals; returned highest degree first"""
    M = len(h)
    A = [[cfr(h[r][c]) for c in range(M)] for r in range(M)]
    zero, one = (Fraction(0), Fraction(0)), (Fraction(1), Fraction(0))
    Mk = [[zero] * M for _ in range(M)]
    coeffs = [Fraction(1)]
    c = Fraction(1)
    for k in range(1, M + 1):
        # M_k = A M_{k-1} + c_{k-1} I
        AM = [[(sum((cmul(A[r][t], Mk[t][cc])[0] for t in range(M)), Fraction(0)), sum((cmul(A[r][t], Mk[t][cc])[1] for t in range(M)), Fraction(0)))
               for cc in range(M)] for r in range(M)]
        Mk = [[(AM[r][cc][0] + (c if r == cc else 0), AM[r][cc][1]) for cc in range(M)] for r in range(M)]
        AMk = [[(sum((cmul(A[r][t], Mk[t][cc])[0] for t in range(M)), Fraction(0)), sum((cmul(A[r][t], Mk[t][cc])[1] for t in range(M)), Fraction(0)))
                for cc in range(M)] for r in range(M)]
        tr = sum((AMk[r][r][0] for r in range(M)), Fraction(0))
        c = -tr / k
        coeffs.append(c)
    return coeffs


def pgcd_deg(p, q):
    """degree of gcd of two polynomials over Q (coefficient lists, highest degree first)"""
    def trim(x):
        x = list(x)
        while x and x[0] == 0:
            x.pop(0)
        return x
    p, q = trim(p), trim(q)
    while q:
        # p mod q
        r = list(p)
        while len(r) >= len(q) and r:
            fct = r[0] / q[0]
            for k in range(len(q)):
                r[k] -= fct * q[k]
            r = trim(r[1:]) if r[0] == 0 else trim(r)
            if not r:
                break
        p, q = q, trim(r)
    return len(p) - 1


def levelpat(h):
    """exact: repeated eigenvalue (gcd(p, p') non-constant), a pair of opposite eigenvalues or a zero one (gcd(p(x), p(-x)) non-constant)"""
    p = charpoly(h)
    M = len(p) - 1
    dp = [p[k] * (M - k) for k in range(M)]
    pm = [p[k] * ((-1) ** (M - k)) for k in range(M + 1)]
    deg = pgcd_deg(p, dp) > 0
    opp = pgcd_deg(p, pm) > 0
    return ("deg" if deg else "nondeg") + ("+opp" if opp else "")


def levelpat_near(h):
    """levelpat, with "neardeg" when the levels are distinct but coincide once the entries are rounded to the grid 2^-20
    (splittings of 1e-9 .. 1e-13 on top of small dyadic entries)"""
    lp = levelpat(h)
    if lp.startswith("nondeg"):
        def rnd(x):
            if isinstance(x, complex):
                return complex(round(x.real * 2 ** 20) / 2 ** 20, round(x.imag * 2 ** 20) / 2 ** 20)
            return round(x * 2 ** 20) / 2 ** 20
        hr = [[rnd(x) for x in row] for row in h]
        if hr != [list(row) for row in h] and levelpat(hr).startswith("deg"):
            return "neardeg" + lp[len("nondeg"):]
    return lp


# ---------------------------------------------------------------------------
# model generation: h on the modes of a layout

def gen_h(rng, M, kind, cplx):
    """M x M Hermitian matrix with small dyadic entries"""
    h = [[0.0] * M for _ in range(M)]

    def off():
        v = rng.choice([0.25, 0.5, -0.5, 0.75, 1, -1])
        if cplx:
            return complex(v, rng.choice([0.25, -0.5, 0.5, 0.75]))
        return v
    if kind == "zero":
        pass
    elif kind == "diagonal":
        for a in range(M):
            h[a][a] = rng.choice(VALS)
    elif kind == "diag-degenerate":
        e = rng.choice(VALS)
        for a in range(M):
            h[a][a] = rng.choice([e, e, -e])          # equal and opposite levels
    elif kind == "degenerate":
        # identical blocks / uniform hopping ring: repeated eigenvalues with non-trivial eigenvectors
        e = rng.choice([0, 0.5, -0.5])
        t = off()
        for a in range(M):
            h[a][a] = e
        for a in range(0, M - 1, 2):
            h[a][a + 1] = t
            h[a + 1][a] = t.conjugate() if cplx else t
    elif kind == "block":
        # two decoupled blocks (even modes | odd modes)
        for a in range(M):
            h[a][a] = rng.choice(VALS)
            for b in range(a + 2, M, 2):
                if rng.random() < 0.8:
                    v = off()
                    h[a][b] = v
                    h[b][a] = v.conjugate() if cplx else v
    elif kind == "ph-symmetric":
        # spectrum symmetric about zero (levels +e, -e coupled): E_i = E_k resonances for the pair channel
        for a in range(0, M - 1, 2):
            e = rng.choice([0.5, 1, 0.25])
            t = off()
            h[a][a], h[a + 1][a + 1] = e, -e
            h[a][a + 1] = t
            h[a + 1][a] = t.conjugate() if cplx else t
    elif kind.split("-")[0] in DEGFAMS:
        # degenerate levels of DIFFERENT eigenstates with non-trivial eigenvectors (the eigensolver returns them a few ulp apart):
        #   ring      e on the diagonal, t between neighbours (M >= 3): cos(2 pi k / M) pairs
        #   star      centre level ec, M-1 equal leaves el coupled to the centre only: M-2 fold level el
        #   complete  e on the diagonal, t between all pairs: (M-1)-fold level e - t
        #   dimers    decoupled identical pairs (0,1), (2,3), ...: every level twice
        # "-near": one level / one bond moved by 1e-9 .. 1e-13 (resonant for the library's 1e-8, not for 1e-16)
        base = kind.split("-")[0]
        e = rng.choice([0, 0.25, -0.25, 0.5, -0.5])
        t = rng.choice([0.25, 0.5, -0.5, 0.75, -0.75, 1])
        if base == "ring":
            for a in range(M):
                h[a][a] = e
                b = (a + 1) % M
                h[a][b] = t
                h[b][a] = t
        elif base == "dimers":
            for a in range(M):
                h[a][a] = e
            for a in range(0, M - 1, 2):
                h[a][a + 1] = t
                h[a + 1][a] = t
        elif base == "star":
            h[0][0] = rng.choice(VALS)
            for a in range(1, M):
                h[a][a] = e
                h[0][a] = t
                h[a][0] = t
        else:
            for a in range(M):
                for b in range(M):
                    h[a][b] = e if a == b else t
        if "near" in kind:
            d = rng.choice(NEAR) * rng.choice([1, -1])
            a = rng.randrange(1, M)
            if rng.random() < 0.5:
                h[a][a] += d
            else:
                b = 0 if base == "star" else ((a ^ 1) if base == "dimers" and (a ^ 1) < M else (a + 1) % M)
                h[a][b] += d
                h[b][a] = h[a][b]
        if cplx:
            # gauge transformation h_ab -> d_a conj(d_b) h_ab with d in {1, i, -1, -i}: same spectrum, complex Hermitian entries
            ph = [rng.choice([1, 1j, -1, -1j]) for _ in range(M)]
            h = [[complex(ph[a] * complex(h[a][b]) * ph[b].conjugate()) if a != b else h[a][b] for b in range(M)] for a in range(M)]
    else:   # random
        for a in range(M):
            h[a][a] = rng.choice(VALS + [0])
            for b in range(a + 1, M):
                if rng.random() < 0.75:
                    v = off()
                    h[a][b] = v
                    h[b][a] = v.conjugate() if cplx else v
    return h


def melem(v):
    if isinstance(v, complex):
        return "%s,%s" % (f(v.real), f(v.imag))
    return f(v)


def model_text(layout, modes, h, symm, beta):
    s = layout
    M = len(modes)
    for a in range(M):
        for b in range(M):
            v = h[a][b]
            if v == 0:
                continue
            la, oa, sa = modes[a]
            lb, ob, sb = modes[b]
            s += "term 2 %s 1 %s %d %d 0 %s %d %d\n" % (melem(v), la, oa, sa, lb, ob, sb)
    return s + "symm %s\nbeta %s\n" % (symm, f(beta))


def assertion_stage(chk):
    """The library's own assert()s are active in a build without a build type (what a plain `cmake /repo` produces).  The fixed
    degenerate free models -- on which the unrepaired TermList::check_terms made TwoParticleGFPart::compute abort (repaired
    in 7d733ea) -- plus two generic ones are run through the assertion-enabled variant: an abort is a violation (no value is
    returned for a quadratic model), with the scenario and the query as replay."""
    hbin = pv.build_harness("h_c12", "assert")
    layout, modes, _ = LAYOUTS[4][0]
    jobs = [(name, model_text(layout, modes, h, symm, beta), fq + [(0, 1, 0, 1), (1, 1, 1, 1)])
            for name, h, beta, fq in FIXED_DEG for symm in ("default", "ignore")]
    l2, m2, _ = LAYOUTS[2][0]
    jobs.append(("atom-free", model_text(l2, m2, [[0.25, 0], [0, 0.25]], "default", 4), [(0, 1, 0, 1), (0, 0, 0, 0)]))
    for name, text, quads in jobs:
        for qd in quads:
            q = "vertex %d %d %d %d %d %s" % (qd + (3, "0 0 0 1 -2 1 0 -1 0"))
            inp = "model\n%s\nend\n%s\n" % (text.strip(), q)
            rc, out, err = pv.run_harness(hbin, inp, timeout=600)
            chk.case("assert|%s|%s" % (text, q), "assertion-enabled build %s" % name, True, None)
            if rc != 0 and ("Assertion" in err or rc in (134, -6)):
                m = [l for l in err.split("\n") if "Assertion" in l]
                chk.violation("assertion-abort: %s quad=%s" % (name, "".join(map(str, qd))),
                              "an assertion-enabled build (no CMAKE_BUILD_TYPE) aborts on the quadratic model %s, chi_%s: %s"
                              % (name, "".join(map(str, qd)), (m[0] if m else err[-200:])[:300]),
                              {"harness": "h_c12 (assert variant: -O1, no NDEBUG)", "input": inp, "variant": "assert"})
                break


def quadruples(rng, M, nq):
    out = []
    a, b = rng.sample(range(M), 2)
    out += [(a, b, a, b), (a, b, b, a), (a, a, a, a), (b, a, a, b)]
    while len(out) < nq:
        q = tuple(rng.randrange(M) for _ in range(4))
        if q not in out:
            out.append(q)
    return out[:nq]


def idxpat(q):
    i, j, k, l = q
    if i == j == k == l:
        return "iiii"
    if i == k and j == l:
        return "ijij"
    if i == l and j == k:
        return "ijji"
    if len(set(q)) == 4:
        return "ijkl"
    return "other"


def respat(t):
    n1, n2, n3 = t
    p = []
    if n1 == n3:
        p.append("n1=n3")
    if n2 == n3:
        p.append("n2=n3")
    if n1 + n2 == -1:
        p.append("n1+n2=-1")
    return "&".join(p) if p else "generic"


# ---------------------------------------------------------------------------

def evaluate(text, modes, h, variant, quads, triples, hbin=None, checkterms=False):
    """returns (fails, cases, info)"""
    hbin = hbin or pv.build_harness("h_c12", variant)
    M = len(modes)
    beta = None
    for l in text.split("\n"):
        if l.startswith("beta "):
            beta = float(l.split()[1])
    q = ["info"]
    pairs = [(i, j) for i in range(M) for j in range(M)]
    for (i, j) in pairs:
        q.append("gf %d %d %d %s" % (i, j, len(ZS), " ".join("%s %s" % (float(a).hex(), float(b).hex()) for a, b in ZS)))
        q.append("gfn %d %d %s" % (i, j, " ".join(str(n) for n in NS)))
    for qd in quads:
        q.append("vertex %d %d %d %d %d %s" % (qd + (len(triples), " ".join("%d %d %d" % t for t in triples))))
    if checkterms:
        for qd in quads:
            q.append("checkterms %d %d %d %d" % qd)
    inp = "model\n%s\nend\n%s\n" % (text.strip(), "\n".join(q))
    rc, out, err = pv.run_harness(hbin, inp, timeout=900)
    info = {"rc": rc, "error": None}
    fails, cases = [], []
    recs = [l.split() for l in out.split("\n") if l.strip()]
    for t in recs:
        if t[0] == "ERROR":
            info["error"] = " ".join(t[1:])
        if t[0] == "THROWS":
            info.setdefault("throws", []).append(" ".join(t))
    if rc != 0:
        info["error"] = "harness exit code %d: %s" % (rc, err[-300:])
    if info["error"]:
        return fails, cases, info
    # the conditions asserted at the end of TwoParticleGFPart::compute(), evaluated by the harness (observation only)
    info["check_terms"] = [{"quad": [int(x) for x in t[1:5]], "parts": int(t[5]), "nonresonant_lists_failing": int(t[6]), "resonant_lists_failing": int(t[7]),
                            "stored_terms_negligible_for_final_size": int(t[8]), "order_violations": int(t[9]),
                            "smallest_such_coefficient": pv.hexf(t[10]), "its_threshold": pv.hexf(t[11]), "list_size": int(t[12])}
                           for t in recs if t[0] == "CT"]
    # single-particle index of each mode
    idx = {}
    for t in recs:
        if t[0] == "INFO" and t[2] != "NULL":
            idx[(t[2], int(t[3]), int(t[4]))] = int(t[1])
    perm = [idx[m] for m in modes]                  # mode a of h  ->  library index perm[a]
    inv = {perm[a]: a for a in range(M)}
    lp = levelpat_near(h)
    info["levels"] = lp
    nd = M * 2 ** (M - 1)                           # number of non-zero matrix elements of a field operator, at most

    def fail(kind, sig, what, **detail):
        fails.append({"kind": kind, "sig": sig, "what": what, "detail": detail})

    G = {}
    GN = {}
    for t in recs:
        if t[0] == "G":
            G[(int(t[1]), int(t[2]))] = [complex(pv.hexf(t[4 + 2 * k]), pv.hexf(t[5 + 2 * k])) for k in range(len(ZS))]
        elif t[0] == "GN":
            GN[(int(t[1]), int(t[2]))] = {int(t[3 + 3 * k]): complex(pv.hexf(t[4 + 3 * k]), pv.hexf(t[5 + 3 * k])) for k in range((len(t) - 3) // 3)}
    # (1) G = (z - h)^{-1}
    for k, z in enumerate(ZS):
        ex = exact_inverse(h, z)
        for (i, j) in pairs:
            if (i, j) not in G:
                continue
            a, b = inv[i], inv[j]
            dist = abs(z[1])
            tol = 1e-10 / dist + nd * DROP / dist + DROP / dist ** 2
            if abs(G[(i, j)][k] - ex[a][b]) > tol:
                fail("gf-inverse", "diag" if i == j else "offdiag",
                     "G_%d%d(z = %s%+sj) = %s but ((z - h)^-1)_%d%d = %s exactly (tolerance %.3g)" % (i, j, f(z[0]), f(z[1]), G[(i, j)][k], a, b, ex[a][b], tol),
                     pair=[i, j], z=list(z))
                break
    for n in NS:
        z = 1j * ((2 * n + 1) * math.pi / beta)
        fi = exact_inverse(h, (0.0, z.imag))       # exact inverse at the (rounded) Matsubara point
        for (i, j) in pairs:
            if (i, j) not in GN:
                continue
            a, b = inv[i], inv[j]
            dist = abs(z.imag)
            tol = 1e-10 / dist + nd * DROP / dist + DROP / dist ** 2
            if abs(GN[(i, j)][n] - fi[a][b]) > tol:
                fail("gf-inverse-matsubara", "diag" if i == j else "offdiag",
                     "G_%d%d(i w_%d) = %s but ((i w - h)^-1)_%d%d = %s (tolerance %.3g)" % (i, j, n, GN[(i, j)][n], a, b, complex(fi[a][b]), tol),
                     pair=[i, j], n=n)
                break
    cases.append(("gf", "gf-inverse M=%d %s" % (M, lp), True))
    # (2) vertex
    for t in recs:
        if t[0] != "VX":
            continue
        qd = tuple(int(x) for x in t[1:5])
        p = 6
        for _ in range(len(triples)):
            n1, n2, n3 = int(t[p]), int(t[p + 1]), int(t[p + 2])
            v = [complex(pv.hexf(t[p + 3 + 2 * k]), pv.hexf(t[p + 4 + 2 * k])) for k in range(6)]
            p += 15
            chi, g13, g24, g14, g23, val = v
            n4 = n1 + n2 - n3
            chi0 = beta * (n1 == n4) * (n2 == n3) * g14 * g23 - beta * (n1 == n3) * (n2 == n4) * g13 * g24
            w1, w2 = abs((2 * n1 + 1) * math.pi / beta), abs((2 * n2 + 1) * math.pi / beta)
            scale = abs(chi) + beta * (abs(g13 * g24) + abs(g14 * g23)) + 1e-3 * beta / (w1 * w2)
            trunc = beta * (abs(g13) + abs(g24) + abs(g14) + abs(g23) + 2 / min(w1, w2)) * nd * DROP / min(w1, w2)
            tol = 1e-9 * scale + trunc
            sig = "%s %s %s" % (idxpat(qd), respat((n1, n2, n3)), lp)
            if not all(math.isfinite(x.real) and math.isfinite(x.imag) for x in v):
                fail("vertex-finite", sig, "non-finite value in chi / G / Vertex4::value for quadruple %r, triple %r" % (qd, (n1, n2, n3)), quad=list(qd), triple=[n1, n2, n3])
            elif abs(chi - chi0) > tol:
                fail("chi-minus-wick", sig, "quadruple %r, frequencies %r (%s): chi = %s but the Wick part built from the library's G is %s "
                     "(|difference| %.3g, tolerance %.3g, beta|G|^2 scale %.3g)" % (qd, (n1, n2, n3), respat((n1, n2, n3)), chi, chi0, abs(chi - chi0), tol, scale),
                     quad=list(qd), triple=[n1, n2, n3])
            elif abs(val) > tol:
                fail("vertex-value", sig, "quadruple %r, frequencies %r (%s): Vertex4::value = %s does not vanish although chi - chi0 = %s does "
                     "(tolerance %.3g)" % (qd, (n1, n2, n3), respat((n1, n2, n3)), val, chi - chi0, tol), quad=list(qd), triple=[n1, n2, n3])
            cases.append(("vx %r %r" % (qd, (n1, n2, n3)), "vertex M=%d %s" % (M, sig), abs(chi0) > 0 or abs(chi) > 1e-12))
    return fails, cases, info


def shrink(text, modes, h, variant, fl, hbin):
    """keep the failing quadruple / triple only, then zero entries of h while the failure persists"""
    kind = fl["kind"]
    d = fl["detail"]
    quads = [tuple(d["quad"])] if "quad" in d else []
    triples = [tuple(d["triple"])] if "triple" in d else [(0, 0, 0)]
    symm = [l for l in text.split("\n") if l.startswith("symm ")][0].split()[1]
    beta = float([l for l in text.split("\n") if l.startswith("beta ")][0].split()[1])
    layout = "".join(l + "\n" for l in text.split("\n") if l.startswith("site "))

    def first_fail(hh):
        tx = model_text(layout, modes, hh, symm, beta)
        try:
            fls, _, info = evaluate(tx, modes, hh, variant, quads, triples, hbin)
        except Exception:
            return None, tx
        for x in fls:
            if x["kind"] == kind:
                return x, tx
        return None, tx
    best, btext = first_fail(h)
    if best is None:
        return text, h, fl
    M = len(h)
    hh = [row[:] for row in h]
    changed = True
    while changed:
        changed = False
        for a in range(M):
            for b in range(a, M):
                if hh[a][b] == 0:
                    continue
                cand = [row[:] for row in hh]
                cand[a][b] = 0
                cand[b][a] = 0
                x, tx = first_fail(cand)
                if x is not None:
                    hh, best, btext, changed = cand, x, tx, True
    return btext, hh, best


# cases proved in Coq (diagonal h; two modes: Properties_C12.free_vertex_zero_C_partial, any M: free_vertex_zero_diag_allM_C), observed on the library: every index quadruple that
# does not vanish trivially plus two that do, one frequency triple per resonance pattern
PROVED_QUADS = [(0, 1, 0, 1), (0, 1, 1, 0), (1, 0, 1, 0), (1, 0, 0, 1), (0, 0, 0, 0), (1, 1, 1, 1), (0, 0, 0, 1), (0, 0, 1, 1)]
PROVED_TRIPLES = [(0, 1, 2), (1, 0, 1), (0, 1, 1), (0, -1, 2), (0, -1, 0), (0, -1, -1), (1, 1, 1), (-2, 1, -2), (2, -3, -3)]
PROVED_MODELS = [("proved-diag-generic", [[0.5, 0], [0, -0.25]]), ("proved-diag-degenerate", [[0.5, 0], [0, 0.5]]),
                 ("proved-diag-opposite", [[0.75, 0], [0, -0.75]]), ("proved-diag-zero", [[0, 0], [0, 0]])]


def models(chk, quick):
    rng = chk.rng
    out = []
    layout, modes, _ = LAYOUTS[2][0]
    for k, (name, h) in enumerate(PROVED_MODELS):
        for symm in (["default", "ignore"] if not quick else [["default", "ignore"][k % 2]]):
            out.append((name, "real", layout, modes, h, symm, [2, 1, 4, 2][k]))
    kinds = ["random", "diagonal", "diag-degenerate", "degenerate", "zero", "block", "ph-symmetric"]
    sizes = [2, 3, 4] if quick else [2, 2, 3, 3, 4, 4, 4, 5]
    for M in sizes:
        for kind in kinds:
            if quick and M == 3 and kind in ("block", "zero"):
                continue
            layout, modes, must_ignore = rng.choice(LAYOUTS[M])
            symms = ["ignore"] if must_ignore else (["default", "ignore"] if (kind in ("random", "degenerate") or not quick) else [rng.choice(["default", "ignore"])])
            for symm in symms:
                h = gen_h(rng, M, kind, False)
                beta = rng.choice([0.5, 1, 2, 4, 10] if M <= 4 else [1, 2])
                if kind == "zero" and beta > 4:
                    beta = 2
                out.append((kind, "real", layout, modes, h, symm, beta))
    # degenerate non-diagonal h (ring / star / complete graph), exact and nearly degenerate
    layout, modes, _ = LAYOUTS[4][0]
    for name, h, beta, _ in FIXED_DEG:
        for symm in ("default", "ignore"):
            out.append((name, "real", layout, modes, h, symm, beta))
    degplan = [(3, "ring"), (3, "ring-near"), (4, "ring"), (4, "star"), (4, "complete"), (4, "dimers"), (4, "ring-near"), (4, "star-near"), (4, "complete-near"),
               (4, "dimers-near")]
    if not quick:
        degplan += [(3, "complete"), (3, "complete-near"), (4, "ring"), (4, "star"), (4, "complete"), (5, "ring"), (5, "star-near"), (5, "complete")]
    for M, kind in degplan:
        layout, modes, must_ignore = rng.choice(LAYOUTS[M])
        symms = ["ignore"] if must_ignore else (["default", "ignore"] if ("near" not in kind or not quick) else [rng.choice(["default", "ignore"])])
        h = gen_h(rng, M, kind, False)
        beta = rng.choice([1, 2, 4, 5, 10] if M <= 4 else [1, 2])
        for symm in symms:
            out.append((kind, "real", layout, modes, h, symm, beta))
    if not quick:
        for M, kind in [(3, "ring"), (4, "ring"), (4, "star"), (4, "complete"), (4, "complete-near"), (4, "ring-near")]:
            layout, modes, must_ignore = rng.choice(LAYOUTS[M])
            h = gen_h(rng, M, kind, True)
            for symm in (["ignore"] if must_ignore else ["default", "ignore"]):
                out.append((kind + "-complex", "complex", layout, modes, h, symm, rng.choice([1, 2, 4])))
    if not quick:
        for M in (2, 2, 4, 4, 4):
            for kind in ("random", "degenerate", "block", "ph-symmetric", "diag-degenerate"):
                layout, modes, must_ignore = rng.choice(LAYOUTS[M])
                for symm in (["ignore"] if must_ignore else ["default", "ignore"]):
                    out.append((kind + "-complex", "complex", layout, modes, gen_h(rng, M, kind, True), symm, rng.choice([1, 2, 4])))
    return out


def run(chk):
    quick = chk.tier == "quick"
    ok, log = chk.prove()
    chk.trusted += ["translator/translate.py (gen_vertex4): Vertex4::value -> PVgen.Gen_Vertex4, used by the Coq statement",
                    "harness/h_c12.cpp, harness/ed_common.h; python fractions (exact inverse), exact characteristic polynomial for the level-pattern signatures",
                    "the reduction from arbitrary Hermitian h to diagonal h is formalised for G in matrix form only (lehmann_is_resolvent_any_h, "
                    "resolvent_of_rotated_diagonal), not for EDSpec.gf itself and not for chi / the vertex: those are covered by the numerical comparison only",
                    "exact zero tests in the Coq setting (tol -> 0+ idealisation of the library's 1e-8 resonance thresholds)"]
    chk.assume += ["h entries are small dyadic rationals (exactly representable); z on a dyadic grid off the real axis",
                   "documented truncation: residues <= 1e-8 dropped in G (at most M*2^(M-1) terms), coefficients <= 1e-16 dropped in chi; "
                   "vertex compared with 0 to 1e-9*(|chi| + beta(|G13 G24| + |G14 G23|)) plus that bound"]
    chk.level = "proof"
    chk.extra["claim"] = ("partial: diagonal h proved for every M (G, chi = chi0, generated Vertex4::value = 0); arbitrary h: Lehmann sum = (z - h)^-1 proved in "
                          "matrix form (mathcomp) only; EDSpec.gf for non-diagonal h and the vertex for non-diagonal h by the correspondence check only")
    variants = ["real"] if quick else ["real", "complex"]
    hb = {v: pv.build_harness("h_c12", v) for v in variants}
    first = {}
    famhist = {}
    nmod = 0
    for (kind, variant, layout, modes, h, symm, beta) in models(chk, quick):
        M = len(modes)
        text = model_text(layout, modes, h, symm, beta)
        nq = 5 if quick else 8
        degfam = kind.split("-")[0] in DEGFAMS
        if kind.startswith("proved-"):
            quads, triples = PROVED_QUADS, PROVED_TRIPLES
        elif degfam:
            # always every resonance kind: the degenerate levels matter only where a bosonic frequency combination vanishes
            quads = quadruples(chk.rng, M, 8 if M <= 4 else 5)
            for name, _, _, fq in FIXED_DEG:
                if kind == name:
                    quads = fq + [q for q in quads if q not in fq][:8 - len(fq)]
            triples = RES_TRIPLES + scen.matsubara_triples(chk.rng, 3 if quick else 6, span=2)
        else:
            quads = quadruples(chk.rng, M, nq if M <= 4 else 4)
            triples = scen.matsubara_triples(chk.rng, 10 if quick else 16, span=2) + [(0, 0, 0), (0, -1, 0), (1, -2, -2)]
        fails, cases, info = evaluate(text, modes, h, variant, quads, triples, hb[variant], checkterms=degfam or kind.startswith("degenerate"))
        nmod += 1
        ct = info.get("check_terms") or []
        if ct:
            obs = chk.extra.setdefault("check_terms_observation", {
                "what": "TwoParticleGFPart::compute() ends with assert(NonResonantTerms.check_terms()); assert(ResonantTerms.check_terms()); "
                        "(compiled out: the library variants are built with NDEBUG). Evaluated by the harness on freshly computed objects; "
                        "a false result means a build with assertions enabled aborts on this input although the computed values are right "
                        "(not a C12 violation; see proposed/fix-termlist-check-terms.diff)",
                "objects_examined": 0, "objects_where_check_terms_is_false": 0, "order_violations": 0, "examples": []})
            obs["objects_examined"] += len(ct)
            bad = [c for c in ct if c["nonresonant_lists_failing"] or c["resonant_lists_failing"]]
            obs["objects_where_check_terms_is_false"] += len(bad)
            obs["order_violations"] += sum(c["order_violations"] for c in ct)
            if bad and len(obs["examples"]) < 4:
                obs["examples"].append({"family": kind, "symm": symm, "variant": variant, "scenario": text, "first": bad[0], "objects_failing": len(bad), "of": len(ct)})
        if info.get("error"):
            chk.case("%s|%s" % (kind, text), "build-error %s M=%d %s" % (kind, M, symm), nontrivial=False)
            chk.notes.append("model %s M=%d symm=%s did not build: %s" % (kind, M, symm, info["error"]))
            if "build_errors" not in chk.extra:
                chk.extra["build_errors"] = []
            chk.extra["build_errors"].append({"kind": kind, "M": M, "symm": symm, "error": info["error"], "scenario": text})
            continue
        famhist["%s/M=%d/%s/%s" % (kind, M, symm, variant)] = len(cases)
        for (canon, sig, nt) in cases:
            if sig.startswith("vertex"):
                w = sig.split()
                for nm, val in (("index_pattern", w[2]), ("resonance_pattern", w[3]), ("level_pattern", w[4])):
                    hh = chk.extra.setdefault("histogram_" + nm, {})
                    hh[val] = hh.get(val, 0) + 1
        for (canon, sig, nt) in cases:
            chk.case("%s|%s|%s" % (variant, text, canon), "%s [%s,%s]" % (sig, symm, variant), nontrivial=nt,
                     sample={"family": kind, "M": M, "symm": symm, "variant": variant, "case": canon, "levels": info.get("levels"), "scenario": text}
                     if (canon.startswith("vx") and "n1=n3" in sig and nmod % 5 == 1) else None)
        for t in info.get("throws", []):
            key = "throws %s" % t.split()[1]
            first.setdefault(key, (kind, variant, layout, modes, h, symm, beta, text, {"kind": "throws", "sig": "", "what": "a query threw on a free model: " + t, "detail": {}}))
        for fl in fails:
            key = "%s %s" % (fl["kind"], fl["sig"])
            first.setdefault(key, (kind, variant, layout, modes, h, symm, beta, text, fl))
    # report: one violation per (kind, signature), at most a few per kind, each shrunk
    perkind = {}
    for key, (kind, variant, layout, modes, h, symm, beta, text, fl) in sorted(first.items()):
        perkind[fl["kind"]] = perkind.get(fl["kind"], 0) + 1
        if perkind[fl["kind"]] > 4:
            continue
        stext, sh, sfl = text, h, fl
        if fl["kind"] != "throws":
            try:
                stext, sh, sfl = shrink(text, modes, h, variant, fl, hb[variant])
            except Exception:
                pass
        chk.violation(key, "%s [model family %s, M=%d, symmetries %s, %s build]" % (sfl["what"], kind, len(modes), symm, variant),
                      {"harness": "h_c12", "variant": variant, "scenario": stext, "modes": [list(m) for m in modes],
                       "h": [[str(x) for x in row] for row in sh], "kind": fl["kind"], "detail": sfl["detail"], "unshrunk_scenario": text})
    chk.extra["models"] = nmod
    chk.extra["cases_by_family"] = famhist
    assertion_stage(chk)
    chk.rule = ("models: Hermitian h on M = 2..4 modes (5 in the thorough tier) of the kinds random / diagonal / diagonal with equal and opposite levels / "
                "degenerate with non-trivial eigenvectors / zero / block-diagonal / particle-hole symmetric spectrum / uniform ring, star with equal leaves, "
                "complete graph on 3..5 modes with exactly degenerate levels and with levels split by 1e-9..1e-13 (8 quadruples x the 10 resonant triples of "
                "RES_TRIPLES + 1 generic + 3-6 random), written as raw quadratic terms, default "
                "and ignored symmetries (complex Hermitian h in the complex build: thorough tier). Per model: every ordered pair (i,j) at 6 dyadic z and 5 Matsubara "
                "points against the exact / float inverse of (z - h); 5-8 index quadruples (patterns ijij, ijji, iiii and random) x 13-19 frequency triples aimed at "
                "n1=n3, n2=n3, n1+n2=-1: chi - chi0 and Vertex4::value against 0. distinct = distinct (model text, quadruple, triple); non-trivial = chi or chi0 "
                "non-zero for that entry")


def replay(chk, path):
    r = json.load(open(path))
    rp = r.get("replay", {})
    print(json.dumps({k: rp.get(k) for k in ("kind", "variant", "scenario", "h", "detail")}, indent=1))
    if isinstance(rp, dict) and "scenario" in rp and "modes" in rp:
        modes = [tuple(m) for m in rp["modes"]]
        h = [[complex(x) if ("j" in x) else float(x) for x in row] for row in rp["h"]]
        h = [[(x.real if isinstance(x, complex) and x.imag == 0 else x) for x in row] for row in h]
        d = rp.get("detail", {})
        quads = [tuple(d["quad"])] if "quad" in d else [(0, 1, 0, 1), (0, 1, 1, 0), (0, 0, 0, 0)]
        triples = [tuple(d["triple"])] if "triple" in d else [(0, 0, 0), (0, -1, 0), (0, 1, 1)]
        fails, cases, info = evaluate(rp["scenario"], modes, h, rp.get("variant", "real"), quads, triples)
        print("build:", info.get("error") or "ok")
        for fl in fails:
            print("FAILS %s %s: %s" % (fl["kind"], fl["sig"], fl["what"]))
            chk.violation("%s %s" % (fl["kind"], fl["sig"]), fl["what"], rp)
        if not fails:
            print("nothing fails on this model now")
        for (canon, sig, nt) in cases:
            chk.case(canon, sig, nontrivial=nt)
        chk.prove()
        return chk.finish()
    run(chk)
    return chk.finish()


def setup():
    pv.build_harness("h_c12", "real")
    pv.build_harness("h_c12", "assert")
