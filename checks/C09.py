"""C09 -- Density matrix is the normalised Gibbs state; averages are its traces.

Proof: props/Properties_C09.v about PV.Thermal (hand model of DensityMatrix / DensityMatrixPart /
Hamiltonian::computeGroundEnergy / EnsembleAverage, loop for loop) instantiated at R: weights positive, sum 1,
ratio exp(-beta dE), unnormalised weights in (0,1] and 1 <= Z <= #states for beta >= 0, offset invariance,
averages = Tr(rho O) on the full Fock space.
Tie: correspondence.  The real library (harness h_ed) is run on scenarios of every family of tools/scen.py at
beta = 1e-3 .. 1e3, with and without huge offsets (a constant 2^20 added to H; a chemical-potential-like level
-+2^20 on every site), and its dump (EIG, VEC, BLOCK) is fed to the extracted model (driver_c09, binary64):
ground energy, weights, averages, per-state lookups and <c^+_i c_j> for ALL index pairs must agree to 1e-12.
Independently of the model the property is evaluated on the implementation's own output (finite, >= 0, sum 1,
ratio form from the dumped energies, ground = min, offset invariance) and against the full-space oracle
(driver_ed: Tr(rho O) with Jordan-Wigner matrices rotated by the assembled eigenvectors).
EnsembleAverage objects are value objects with a user-written copy constructor: for every index pair the result is read from
the object itself (AVG), after a second prepare() (AVGAGAIN), from a copy of the prepared object (AVGCOPY), from a copy of that
copy after prepare() (AVGCOPY2) and from a copy taken before prepare() and prepared afterwards (AVGCOPY0); all five are held to
the trace.
"""
import math
import concurrent.futures as cf
import pv
import edlib
import scen

BETAS = [1e-3, 1e-2, 1e-1, 1.0, 1e1, 1e2, 1e3]
BIG = 1048576          # 2^20: dyadic, so the offset itself is exact
EPSM = 2.220446049250313e-16
STATS = {"model_comparisons": 0, "oracle_comparisons": 0, "offset_comparisons": 0, "max_offset_deviation_over_beta_offset_eps": 0.0,
         "certificate_too_large": 0, "avg_pairs_compared": 0, "avg_copies_compared": 0}
# records of the h_ed `avg` query that are read from COPIES of EnsembleAverage objects (same layout as AVG / AVGAGAIN)
COPY_RECORDS = [("AVGCOPY", "a copy of a prepared EnsembleAverage object (copy constructor, no further call)"),
                ("AVGCOPY2", "a copy of a copy of a prepared EnsembleAverage object after prepare() on it"),
                ("AVGCOPY0", "a copy taken of an EnsembleAverage object before prepare(), prepared afterwards")]


def fmt(x):
    return repr(float(x)) if float(x) != int(x) else str(int(x))


def families():
    """(generator, symm) pairs: all families of tools/scen.py; the two that break N / have spinless sites need symm ignore"""
    return [(f, "default") for f in scen.FAMILIES] + [(scen.pairing, "ignore"), (scen.three_orbital_small, "ignore")]


def strip_beta(text):
    return "\n".join(l for l in text.strip().split("\n") if not l.startswith("beta") and not l.startswith("trunc")) + "\n"


def sites_of(text):
    return [l.split()[1] for l in text.split("\n") if l.startswith("site ")]


def with_offset(text, kind):
    """kind: none | const+ | const- | mu+ | mu-.
    const: the pair c c^+ + c^+ c = 1 on the first mode of the first site, times -+2^20: H -> H + c (a true overall offset).
    mu: addLevel -+2^20 on EVERY site: H -> H + c N (whole spectrum moves by multiples of 2^20; enormous beta * bandwidth)."""
    lines = text.strip().split("\n")
    body = [l for l in lines if not l.startswith("symm")]
    tail = [l for l in lines if l.startswith("symm")]
    s0 = sites_of(text)[0]
    if kind.startswith("const"):
        v = BIG if kind.endswith("+") else -BIG
        body += ["term 2 %d 0 %s 0 0 1 %s 0 0" % (v, s0, s0), "term 2 %d 1 %s 0 0 0 %s 0 0" % (v, s0, s0)]
    elif kind.startswith("mu"):
        v = BIG if kind.endswith("+") else -BIG
        body += ["addLevel %s %d" % (s, v) for s in sites_of(text)]
    return "\n".join(body + tail) + "\n"


def isbad(x):
    return math.isnan(x) or math.isinf(x)


def close(a, b, rel, floor=1e-290):
    """relative agreement with an absolute floor for numbers that underflow"""
    if isbad(a) or isbad(b):
        return False
    return abs(a - b) <= rel * max(abs(a), abs(b)) + floor


def model_input(r, trunc=None, extra_tags=("OPMAP", "OPMAT")):
    tags = ("N", "NBLOCKS", "BLOCK", "VEC", "EIG", "BETA") + tuple(extra_tags)
    s = "BUILT\n" + "\n".join(" ".join(t) for t in r.dump if t[0] in tags and not (t[0] in ("OPMAP", "OPMAT") and t[1] == "quad"))
    if trunc is not None:
        s += "\nTRUNC %s" % float(trunc).hex()
    s += "\nENDDUMP\n"
    s += "\n".join(" ".join(t) for t in r.dump if t[0] in ("OPMAP", "OPMAT") and t[1] == "quad") + "\n"
    return s


def run_model(r, queries, trunc=None):
    drv = pv.build_driver("driver_c09", ["C09_model"], floats=True)
    rc, out, err = pv.sh([drv], input=model_input(r, trunc) + "\n".join(queries) + "\n", timeout=300)
    recs = [l.split() for l in out.split("\n") if l.strip()]
    return rc, recs, err


def one_run(job):
    """job = (family, text, n, beta, kind, variant); returns (job, Run, model records)"""
    fam, text, n, beta, kind, variant = job
    sc = with_offset(text, kind) + "beta %s\n" % repr(beta)
    q = ["dm"]
    for i in range(n):
        for j in range(n):
            q += ["quad %d %d" % (i, j), "avg %d %d" % (i, j)]
    r = edlib.run(sc, q, variant=variant)
    r.scenario = sc
    mq = ["dm"] + ["avg %d %d" % (i, j) for i in range(n) for j in range(n)]
    if r.error or r.crash or not r.dumprec("VEC"):
        return job, r, (1, [], "")
    return job, r, run_model(r, mq)


def first(recs, tag):
    for t in recs:
        if t[0] == tag:
            return t
    return None


def vals(t, start=1):
    out = []
    for x in t[start:]:
        try:
            out.append(float.fromhex(x))
        except ValueError:
            out.append(float("nan"))
    return out


def analyse(chk, job, r, model, base_weights):
    """all checks on one run; returns list of (key_suffix, what) problems with the implementation and records ties"""
    fam, text, n, beta, kind, variant = job
    tag = "family=%s beta=%g offset=%s" % (fam, beta, kind)
    problems = []
    if r.crash:
        problems.append(("crash", "harness crashed (rc %s): %s" % (r.crash[0], r.crash[1][-200:])))
        return problems
    if r.error:
        problems.append(("error", "workflow threw: " + r.error))
        return problems
    W, E, blocks = r.weights(), r.eigs(), r.blocks()
    nb = len(blocks)
    dim = sum(len(b) for b in blocks.values())
    ground = float.fromhex(r.dumprec("GROUND")[0][1])
    allw = [w for b in range(nb) for w in W[b]]
    alle = [e for b in range(nb) for e in E[b]]
    escale = max(1.0, max(abs(e) for e in alle))
    # ---- the property on the implementation's own output ----
    if any(isbad(w) for w in allw):
        problems.append(("nonfinite", "a statistical weight is inf or nan (ground energy %r, beta %g)" % (ground, beta)))
        return problems
    if any(w < 0 for w in allw):
        problems.append(("negative", "a statistical weight is negative: %r" % min(allw)))
    if abs(sum(allw) - 1.0) > 1e-12 * dim:
        problems.append(("sum", "weights sum to %r" % sum(allw)))
    if ground != min(alle):
        problems.append(("ground", "ground energy %r is not the minimum eigenvalue %r" % (ground, min(alle))))
    # ratio form, every state against the ground state (offsets cancel) and random pairs
    gi = alle.index(min(alle))
    pairs = [(a, gi) for a in range(dim)] + [(chk.rng.randrange(dim), chk.rng.randrange(dim)) for _ in range(8)]
    for a, b in pairs:
        arg = -beta * (alle[a] - alle[b])
        if allw[b] == 0.0 or arg > 700:
            continue                      # the reference weight underflowed: nothing to compare with
        expect = (math.exp(arg) if arg > -745 else 0.0) * allw[b]
        rel = 1e-12 * (1 + abs(beta * (alle[a] - ground)) + abs(beta * (alle[b] - ground)))
        if not close(allw[a], expect, rel, floor=1e-290):
            problems.append(("ratio", "w_a = %r but w_b exp(-beta (E_a - E_b)) = %r (E_a=%r E_b=%r w_b=%r)" % (allw[a], expect, alle[a], alle[b], allw[b])))
            break
    # per-state lookups (these two belong to C03; cheap here)
    dmq = first(r.impl, "DM")
    ws, es, ea = first(r.impl, "WSTATE"), first(r.impl, "ESTATE"), first(r.impl, "EALL")
    if ws and es and ea:
        wsv, esv, eav = vals(ws), vals(es), vals(ea)
        for b in range(nb):
            for pos, st in enumerate(blocks[b]):
                if esv[st] != E[b][pos]:
                    problems.append(("estate", "Hamiltonian::getEigenValue(state %d) = %r but block %d position %d has %r" % (st, esv[st], b, pos, E[b][pos])))
                if wsv[st] != W[b][pos]:
                    problems.append(("wstate", "DensityMatrix::getWeight(state %d) = %r but block %d position %d has %r" % (st, wsv[st], b, pos, W[b][pos])))
        if eav != alle:
            problems.append(("eall", "Hamiltonian::getEigenValues() is not the concatenation of the block eigenvalues"))
    else:
        problems.append(("dm-missing", "the dm query returned no records: %r" % [t[:3] for t in r.impl[:3]]))
    # offset invariance: a constant added to H must not change the weights beyond the rounding of the eigenvalues
    if kind.startswith("const") and base_weights is not None:
        tol = 1e-9 + 32 * beta * BIG * EPSM
        STATS["offset_comparisons"] += 1
        for b in range(nb):
            for x, y in zip(sorted(W[b]), sorted(base_weights.get(b, []))):
                if max(x, y) > 1e-200:
                    STATS["max_offset_deviation_over_beta_offset_eps"] = max(STATS["max_offset_deviation_over_beta_offset_eps"],
                                                                              abs(x - y) / max(x, y) / (beta * BIG * EPSM))
                if not close(x, y, tol):
                    problems.append(("offset", "weights change under a constant offset %s: %r vs %r (tolerance %g relative)" % (kind, x, y, tol)))
                    break
    # ---- model vs implementation (the tie) ----
    rc, mrec, merr = model
    tie = []
    if rc != 0 or not mrec or any(t[0] == "MODEL-ERROR" for t in mrec):
        chk.tie_broken("driver_c09", "%s: rc=%s %s %s" % (tag, rc, [t for t in mrec if t[0] == "MODEL-ERROR"][:2], merr[-200:]))
    else:
        STATS["model_comparisons"] += 1
        mg = first(mrec, "MGROUND")
        if mg[1] in ("OOB", "Throws1", "OutOfFuel", "Uninit") or float.fromhex(mg[1]) != ground:
            tie.append("ground energy: model %s impl %r" % (mg[1], ground))
        for t in mrec:
            if t[0] == "MW":
                b = int(t[1])
                mv = vals(t, 2)
                if len(mv) != len(W[b]) or not all(close(x, y, 1e-12) for x, y in zip(mv, W[b])):
                    tie.append("weights of block %d: model %s impl %s" % (b, mv[:4], W[b][:4]))
        for tagq in ("DM", "DOCC", "WSTATE", "ESTATE", "EALL"):
            a, b = first(mrec, tagq), first(r.impl, tagq)
            if a is None or b is None:
                tie.append("%s missing" % tagq)
                continue
            av, bv = vals(a), vals(b)
            sc_ = escale if tagq in ("DM", "ESTATE", "EALL") else 1.0
            if len(av) != len(bv) or not all(abs(x - y) <= 1e-12 * max(abs(x), abs(y)) + (1e-13 * sc_ if tagq in ("DM", "DOCC") else 1e-290) for x, y in zip(av, bv)):
                tie.append("%s: model %s impl %s" % (tagq, av[:6], bv[:6]))
        mavg = {(int(t[1]), int(t[2])): t for t in mrec if t[0] == "AVG"}
        for t in r.get("impl", "AVG"):
            k = (int(t[1]), int(t[2]))
            m = mavg.get(k)
            if m is None or len(m) < 5:
                tie.append("AVG %s: model gave %s" % (k, m))
                continue
            zi, zm = complex(float.fromhex(t[3]), float.fromhex(t[4])), complex(float.fromhex(m[3]), float.fromhex(m[4]))
            if abs(zi - zm) > 1e-12 * max(1.0, abs(zi)):
                tie.append("AVG %s: model %r impl %r" % (k, zm, zi))
    # ---- implementation vs the full-space oracle (the trace statements) ----
    spec = []
    cert_ok = r.cert is not None and r.cert[0] <= 1e-9 * escale and r.cert[1] <= 1e-9
    if r.oracle and cert_ok:
        STATS["oracle_comparisons"] += 1
        STATS["avg_pairs_compared"] += len(r.get("impl", "AVG"))
        if r.wspec is not None:
            for x, y in zip(r.wspec, allw):
                if not close(x, y, 1e-11 * (1 + beta * 0)):
                    spec.append("weight %r, full-space specification %r" % (y, x))
                    break
        o, i_ = first(r.oracle, "DM"), first(r.impl, "DM")
        if o and i_:
            ov, iv = vals(o), vals(i_)
            lab = ["<H>", "<N>"] + ["<n_%d>" % k for k in range(n)]
            for k, (x, y) in enumerate(zip(ov, iv)):
                tol = 1e-9 * (escale if k == 0 else 1.0)
                if isbad(y) or abs(x - y) > tol:
                    spec.append("%s = %r but Tr(rho O) on the full space = %r" % (lab[k] if k < len(lab) else k, y, x))
        o, i_ = first(r.oracle, "DOCC"), first(r.impl, "DOCC")
        if o and i_:
            for k, (x, y) in enumerate(zip(vals(o), vals(i_))):
                if isbad(y) or abs(x - y) > 1e-9:
                    spec.append("<n_%d n_%d> = %r but Tr(rho n n) = %r" % (k // n, k % n, y, x))
        oavg = {(int(t[1]), int(t[2])): complex(float.fromhex(t[3]), float.fromhex(t[4])) for t in r.get("oracle", "AVG")}
        for t in r.get("impl", "AVG"):
            k = (int(t[1]), int(t[2]))
            zi = complex(float.fromhex(t[3]), float.fromhex(t[4]))
            if k in oavg and (isbad(zi.real) or abs(zi - oavg[k]) > 1e-9):
                spec.append("<c^+_%d c_%d> = %r but Tr(rho c^+ c) = %r" % (k[0], k[1], zi, oavg[k]))
        for t in r.get("impl", "AVGAGAIN"):
            k = (int(t[1]), int(t[2]))
            zi = complex(float.fromhex(t[3]), float.fromhex(t[4]))
            if k in oavg and (isbad(zi.real) or abs(zi - oavg[k]) > 1e-9):
                spec.append("<c^+_%d c_%d> read from an EnsembleAverage object after a second prepare() = %r but Tr(rho c^+ c) = %r" % (k[0], k[1], zi, oavg[k]))
        # copies of EnsembleAverage objects (the class has a user-written copy constructor; std::vector<EnsembleAverage> and pass by
        # value go through it): the value read from a copy is held to the trace exactly as the original's is
        ncopy = {}
        for rtag, how in COPY_RECORDS:
            for t in r.get("impl", rtag):
                k = (int(t[1]), int(t[2]))
                zi = complex(float.fromhex(t[3]), float.fromhex(t[4]))
                ncopy[rtag] = ncopy.get(rtag, 0) + 1
                if k in oavg and (isbad(zi.real) or isbad(zi.imag) or abs(zi - oavg[k]) > 1e-9):
                    spec.append("<c^+_%d c_%d> read from %s = %r but Tr(rho c^+ c) = %r" % (k[0], k[1], how, zi, oavg[k]))
        navg = len(r.get("impl", "AVG"))
        STATS["avg_copies_compared"] += sum(ncopy.values())
        for rtag, how in COPY_RECORDS:
            if navg and ncopy.get(rtag, 0) != navg:
                chk.tie_broken("h_ed avg query", "%s: %d AVG records but %d %s records" % (tag, navg, ncopy.get(rtag, 0), rtag))
    elif not cert_ok:
        STATS["certificate_too_large"] += 1
        chk.notes.append("%s: eigen-decomposition certificate %r too large for the oracle comparison" % (tag, r.cert))
    for s in spec[:1]:
        problems.append(("trace", s))
    if tie and not problems:
        # the model disagrees but the property, evaluated on the implementation's own output and against the
        # full-space oracle, holds: the model (or the driver) is wrong for this input
        chk.tie_broken("Thermal model vs DensityMatrix", "%s: %s" % (tag, "; ".join(tie[:3])))
    elif tie:
        problems.append(("model", "differs from the proved model: " + "; ".join(tie[:2])))
    return problems


def shrink(chk, job, kinds_of_problem):
    """drop scenario lines while one of the same kinds of problem persists"""
    fam, text, n, beta, kind, variant = job
    lines = text.strip().split("\n")
    changed = True
    while changed:
        changed = False
        for k in range(len(lines)):
            if lines[k].startswith("site") or lines[k].startswith("symm"):
                continue
            cand = lines[:k] + lines[k + 1:]
            j2 = (fam, "\n".join(cand) + "\n", n, beta, kind, variant)
            try:
                _, r, m = one_run(j2)
                bw = None
                if kind.startswith("const"):
                    _, rb, _ = one_run((fam, j2[1], n, beta, "none", variant))
                    bw = rb.weights() if not (rb.error or rb.crash) else None
                savedt, savedn = list(chk.broken), list(chk.notes)
                pr = analyse(chk, j2, r, m, bw)
                chk.broken[:], chk.notes[:] = savedt, savedn
            except Exception:
                continue
            if any(p[0] in kinds_of_problem for p in pr):
                lines = cand
                changed = True
                break
    return "\n".join(lines) + "\n"


PRIORITY = ["crash", "error", "nonfinite", "negative", "sum", "ground", "ratio", "offset", "trace", "estate", "wstate", "eall", "dm-missing", "model"]


def run(chk):
    quick = chk.tier == "quick"
    ok, log = chk.prove(["extract/Extract_C09.vo", "extract/Extract_ED.vo", "theories/ThermalExamples.vo"],
                        extra_props=["Properties_C09_source.v", "Properties_C09_copy.v"])
    chk.trusted += ["translator/gen_copy.py (~150 lines: regular expressions over the copy constructor's initialiser list and body) and the meaning coq/theories/CopyShapes.v gives to such a constructor (field-wise state, base classes Thermal = {beta}, ComputableObject = {Status}); a constructor outside the recognised shape falls back to the snapshot and copies are then judged by the runs only",
                    "hand-written model coq/theories/Thermal.v: tied by correspondence, and for the Boltzmann factor, the occupancy summands (index order of the "
                    "eigenvector matrix) and the tests of EnsembleAverage::prepare by translator/gen_thermal.py (+ translator/cexpr.py): pattern recognition of "
                    "those C++ statements, whose output the theorems of Properties_C09_source.v are stated about; everything else of the model (ground energy, "
                    "normalisation, loop structure, getAverageEnergy, state lookup) by correspondence only",
                    "extraction: ExtrOcamlBasic, ExtrOcamlNatInt, ExtrOCamlFloats (PrimFloat -> Float64 of coq-core.kernel); exp = OCaml Stdlib.exp",
                    "ocaml/driver_c09.ml, ocaml/driver_ed.ml (parsing, assembling U), harness/h_ed.cpp + ed_common.h, tools/edlib.py, tools/scen.py",
                    "full-space oracle coq/theories/EDSpec.v at binary64 (Jordan-Wigner matrices, rotation, Tr rho O)",
                    "Eigen's self-adjoint solver: certified per run (CERT: max|HU-UE|, max|U^+U-1|), which are the eigen_equation / eigenvectors_normalised hypotheses of avg_energy_is_trace"]
    chk.assume += ["floating-point rounding is outside the theorems (exact reals); comparisons use 1e-12 relative (model), 1e-9 (full-space oracle), and for offset invariance 1e-9 + 32 beta |offset| 2^-52 (rounding of eigenvalues of size |offset|)",
                   "trace theorems are proved over R (default build) and over C (complex build, ..._complex); the weight theorems are over R (RealType in both builds)",
                   "operator data of EnsembleAverage (QuadraticOperator parts) are inputs of the model; their correctness is C10/C07 (hypotheses rotated, bimap_complete)"]
    edlib.binaries("real")
    edlib.binaries("complex")
    pv.build_driver("driver_c09", ["C09_model"], floats=True)

    jobs = []
    reps = 1 if quick else 4
    for gen, symm in families():
        for _ in range(reps):
            fam, text, n, info = gen(chk.rng, symm)
            text = strip_beta(text)
            for beta in BETAS:
                jobs.append((fam, text, n, beta, "none", "real"))
            for kind in ("const+", "const-", "mu+", "mu-"):
                for beta in ([1e-3, 1.0, 1e3] if quick else BETAS):
                    jobs.append((fam, text, n, beta, kind, "real"))
    # the complex build (POMEROL_COMPLEX_MATRIX_ELEMENTS): complex same-spin and spin-flip hopping, so that eigenvectors
    # are genuinely complex and |v|^2 = |v*v| matters
    for _ in range(1 if quick else 3):
        t1, t2 = chk.rng.choice(["0.5,0.25", "0.25,-0.5", "1,0.5"]), chk.rng.choice(["0.25,-0.5", "0.5,0.5", "0.25,0.75"])
        U = chk.rng.choice([1, 2, 4])
        text = ("site A 1 2\nsite B 1 2\naddCoulombS A %d %s\naddLevel B %s\naddHopping4 A B %s\naddHopping8 A B %s 0 0 0 1\nsymm default\n"
                % (U, fmt(-U / 2 + chk.rng.choice([0, 0.25])), fmt(chk.rng.choice(scen.DY)), t1, t2))
        for beta in ([1e-2, 1.0, 1e2] if quick else BETAS):
            jobs.append(("complex-two-site", text, 4, beta, "none", "complex"))
            jobs.append(("complex-two-site", text, 4, beta, "const+", "complex"))
    with cf.ThreadPoolExecutor(max_workers=min(8, pv.NPROC)) as ex:
        results = list(ex.map(one_run, jobs))
    base = {}
    for job, r, m in results:
        if job[4] == "none" and not (r.error or r.crash):
            base[(job[0], job[1], job[3], job[5])] = r.weights()
    nviol = 0
    for job, r, m in results:
        fam, text, n, beta, kind, variant = job
        bw = base.get((fam, text, beta, variant))
        problems = analyse(chk, job, r, m, bw)
        nb = len(r.blocks()) if not (r.error or r.crash) else 0
        sig = "%s beta=1e%+d offset=%s" % (fam, round(math.log10(beta)), kind)
        chk.case(r.scenario, sig, nontrivial=nb > 1,
                 sample={"family": fam, "beta": beta, "offset": kind, "blocks": nb, "ground": r.dumprec("GROUND")[0][1] if nb else None,
                         "sum_w": sum(w for b in r.weights().values() for w in b) if nb else None} if (kind != "none" and beta == 1e3) else None)
        if problems and nviol < 3:
            nviol += 1
            kinds = set(p[0] for p in problems)
            small = shrink(chk, job, kinds) if chk.tier != "replay" else text
            what = "; ".join(p[1] for p in problems[:2])
            kind0 = ([k for k in PRIORITY if k in kinds] + sorted(kinds))[0]
            key = "%s beta=%g offset=%s %s | %s" % (kind0, beta, kind, fam, small.replace("\n", ";"))
            chk.violation(key, "DensityMatrix (%s, beta=%g, offset %s): %s" % (fam, beta, kind, what),
                          {"scenario": with_offset(small, kind) + "beta %s\n" % repr(beta), "family": fam, "beta": beta, "offset": kind, "variant": variant,
                           "problems": problems, "harness": "h_ed", "queries": ["dm", "avg i j for all pairs"]})
    chk.rule = ("one random instance per family of tools/scen.py (9 families incl. pairing and spinless with symmetries ignored; 4 in the thorough tier), "
                "each at beta = 1e-3..1e3 without offset and at beta in {1e-3, 1, 1e3} (all seven in the thorough tier) with a constant +-2^20 added to H "
                "and with a level -+2^20 on every site; per run: dm query, <c^+_i c_j> for all index pairs, each read from the object, after a second "
                "prepare(), from a copy of the prepared object, from a prepared copy of that copy and from a copy made before prepare(); distinct = distinct scenario text; "
                "non-trivial = more than one block")
    chk.extra["runs"] = len(jobs)
    chk.extra["comparisons"] = dict(STATS)
    chk.extra["notes"] = chk.notes[:10]


def replay(chk, path):
    import json
    rp = json.load(open(path))
    chk.tier = "replay"
    sc = rp["replay"].get("scenario") if isinstance(rp.get("replay"), dict) else None
    if not sc:
        run(chk)
        return chk.finish()
    chk.prove(["extract/Extract_C09.vo", "extract/Extract_ED.vo"], extra_props=["Properties_C09_source.v", "Properties_C09_copy.v"])
    edlib.binaries("real")
    fam, beta, kind = rp["replay"]["family"], rp["replay"]["beta"], rp["replay"]["offset"]
    text = strip_beta(sc)
    n = int(edlib.run(sc, [], oracle=False, variant=rp["replay"].get("variant", "real")).n())
    variant = rp["replay"].get("variant", "real")
    job = (fam, text, n, beta, "none", variant)      # the offset lines are already part of the stored scenario
    _, r, m = one_run(job)
    problems = analyse(chk, (fam, text, n, beta, kind if not kind.startswith("const") else "none", variant), r, m, None)
    chk.case(sc, "replay", True, sample={"problems": problems})
    if problems:
        chk.violation(rp["key"], rp["what"], rp["replay"])
    return chk.finish()


def setup():
    edlib.binaries("real")
    edlib.binaries("complex")
    pv.build_driver("driver_c09", ["C09_model"], floats=True)
