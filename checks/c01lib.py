"""Shared by checks/C01.py and checks/C14.py: scenario selection, the model driver (driver_c01 around the extracted
PV.GFPart / PV.SuscPart / PV.TruncSpec), the raw harness (h_c01), parsing, shrinking."""
import re

import pv
import edlib
import scen

hx = float.fromhex

MATS_QUICK = [-20, -3, -1, 0, 1, 7, 20]
MATS_THOROUGH = [-20, -11, -5, -2, -1, 0, 1, 2, 4, 9, 20]
OFFAXIS = [(0.3, 0.7), (-1.1, 0.05), (2.0, 2.0)]


def with_beta(text, beta):
    return re.sub(r'(?m)^beta .*$', "beta %s" % scen.f(beta), text)


def with_symm(text, symm):
    return re.sub(r'(?m)^symm .*$', "symm %s" % symm, text)


def complexify(text, rng):
    """give every hopping a complex amplitude t -> t,im (the complex build adds the Hermitian conjugate itself)"""
    def rep(m):
        return "%s %s,%s%s" % (m.group(1), m.group(2), scen.f(rng.choice([0.25, -0.5, 0.125])), m.group(3))
    return re.sub(r'(?m)^(addHopping\d \S+ \S+) (\S+?)((?: .*)?)$', rep, text)


def scenarios(rng, tier, want_complex=True):
    """[(family, scenario text, n modes, symmetry mode, build variant)]"""
    out = []
    fams = list(scen.FAMILIES)
    reps = 1 if tier == "quick" else 3
    for symm in ("default", "ignore"):
        for fam in fams:
            for _ in range(reps):
                name, text, n, info = fam(rng, symm)
                out.append((name, text, n, symm, "real"))
    # families that need symm ignore
    for fam in (scen.pairing, scen.three_orbital_small):
        for _ in range(reps):
            name, text, n, info = fam(rng, "ignore")
            out.append((name, text, n, "ignore", "real"))
    if tier != "quick":
        # wide range of inverse temperatures
        for beta in (0.5, 50, 100, 200):
            for fam in (scen.two_site, scen.hubbard_atom, scen.anderson, scen.free_degenerate):
                name, text, n, info = fam(rng, rng.choice(["default", "ignore"]))
                symm = re.search(r'(?m)^symm (\S+)', text).group(1)
                out.append((name + "-beta%s" % scen.f(beta), with_beta(text, beta), n, symm, "real"))
        if want_complex:
            for symm in ("default", "ignore"):
                for fam in (scen.two_site, scen.anderson, scen.free_degenerate, scen.exchange, scen.hubbard_atom, scen.kanamori):
                    name, text, n, info = fam(rng, symm)
                    out.append((name + "-cplx", complexify(text, rng), n, symm, "complex"))
    return out


def index_pairs(rng, n, tier):
    diag = [(i, i) for i in range(n)]
    off = [(i, j) for i in range(n) for j in range(n) if i != j]
    if tier == "quick":
        rng.shuffle(off)
        return diag[:2] + [diag[-1]] + off[:4] if n > 2 else diag + off
    return diag + off


# ---------------------------------------------------------------------------
# drivers

_bins = {}


def driver():
    if "drv" not in _bins:
        _bins["drv"] = pv.build_driver("driver_c01", ["C01_model"], floats=True)
    return _bins["drv"]


def raw_harness(variant="real"):
    k = "h_c01-" + variant
    if k not in _bins:
        _bins[k] = pv.build_harness("h_c01", variant)
    return _bins[k]


def oracle_bounds(run, queries):
    """run: edlib.Run with a dump; queries: list of `gfbound ...` / `suscbound ...` lines -> list of token lists"""
    oin = "BUILT\n" + "\n".join(" ".join(t) for t in run.dump if t[0] in ("N", "HPOLY", "NBLOCKS", "BLOCK", "VEC", "EIG", "BETA", "W")) \
          + "\nENDDUMP\n" + "\n".join(queries) + "\n"
    rc, out, err = pv.sh([driver()], input=oin, timeout=900)
    if rc != 0:
        raise RuntimeError("driver_c01 failed: rc=%d %s" % (rc, err[-300:]))
    return [l.split() for l in out.split("\n") if l.strip()]


class Raw:
    """one gfraw / suscraw query: what the library did and what the model says"""

    def __init__(self):
        self.impl = []       # records of the harness for this query
        self.model = []      # records of the driver
        self.crash = None


def run_raw(scenario, rawqueries, variant="real", timeout=600):
    """rawqueries: list of (harness query line, model query line). Returns (list of Raw, build error text or None, harness crash)."""
    h = raw_harness(variant)
    inp = "model\n%s\nend\n%s\n" % (scenario.strip(), "\n".join(q for q, _ in rawqueries))
    rc, out, err = pv.run_harness(h, inp, timeout=timeout)
    lines = [l for l in out.split("\n") if l.strip()]
    # split the output per query and append the model query after each block
    blocks, cur, head = [], None, []
    for l in lines:
        tag = l.split(" ", 1)[0]
        if tag in ("GFRAW", "SUSCRAW"):
            cur = [l]
            blocks.append(cur)
        elif cur is None:
            head.append(l)
        else:
            cur.append(l)
    din = list(head)
    for b, (_, mq) in zip(blocks, rawqueries):
        din += b + [mq, "ENDQ"]
    rc2, mout, merr = pv.sh([driver()], input="\n".join(din) + "\n", timeout=timeout)
    res = []
    mlines = [l.split() for l in mout.split("\n") if l.strip()]
    # model output per query: split at WF records (first record of every answer)
    mblocks, curm = [], None
    for t in mlines:
        if t[0] == "WF":
            curm = [t]
            mblocks.append(curm)
        elif curm is not None:
            curm.append(t)
    for k, b in enumerate(blocks):
        r = Raw()
        r.impl = [l.split() for l in b]
        r.model = mblocks[k] if k < len(mblocks) else []
        res.append(r)
    crash = (rc, err[:6000] + ("\n...\n" + err[-1500:] if len(err) > 7500 else err[6000:])) if rc != 0 else None
    return res, (None if rc2 == 0 else merr[-500:]), crash, head


def recs(lst, tag):
    return [t for t in lst if t[0] == tag]


def cplx(t, k):
    return complex(hx(t[k]), hx(t[k + 1]))


def terms_of(t):
    """TERMS / MTERMS record -> (outer, inner, [(residue complex, pole float)])"""
    n = int(t[3])
    return int(t[1]), int(t[2]), [(cplx(t, 4 + 3 * k), hx(t[6 + 3 * k])) for k in range(n)]


def compare_terms(impl_terms, model_terms, rel=1e-12):
    """None if equal (count, poles, residues to rel), else a description"""
    if len(impl_terms) != len(model_terms):
        return "count %d vs %d" % (len(impl_terms), len(model_terms))
    for k, ((ri, pi), (rm, pm)) in enumerate(zip(impl_terms, model_terms)):
        if abs(pi - pm) > rel * max(1.0, abs(pi)):
            return "pole %d: %r vs %r" % (k, pi, pm)
        if abs(ri - rm) > rel * max(abs(ri), abs(rm), 1e-300) and abs(ri - rm) > 1e-22:
            return "residue %d: %r vs %r" % (k, ri, rm)
    return None


def shrink_lines(lines, still_fails, protect=("site", "symm", "beta")):
    """greedy removal of scenario lines while the failure persists"""
    cur = list(lines)
    changed = True
    while changed:
        changed = False
        for k in range(len(cur)):
            if cur[k].split()[0] in protect:
                continue
            cand = cur[:k] + cur[k + 1:]
            try:
                if still_fails(cand):
                    cur = cand
                    changed = True
                    break
            except Exception:
                pass
    return cur


def canon(text):
    return " ; ".join(l.strip() for l in text.strip().split("\n") if l.strip())


def asan_tie(chk, cases, function, prefix):
    """The C17 demonstration: the model's lenient access trace vs AddressSanitizer on the same matrices.
    cases: [(scenario text, [(harness raw query, model query, label)])]; function: the C++ function expected in the report.
    A run of the loops as written that leaves the arrays (lenient OOB at a position >= the allocated size of that index array)
    must be reported by the sanitizer as heap-buffer-overflow, and vice versa.  Returns findings (key, what, replay):
    memory-safety findings for C17, NOT violations of the calling property (proved result-neutral: gf_fixed_agrees)."""
    findings = []
    agree = disagree = 0
    guarded = None
    for text, queries in cases:
        for (rawq, modelq, label) in queries:
            res, derr, crash, head = run_raw(text, [(rawq, modelq)], variant="asan")
            if derr or not res:
                chk.tie_broken("asan tie", "driver failed on %s" % canon(text))
                continue
            r = res[0]
            for t in recs(r.model, "GUARDED"):
                guarded = t[1] == "1"
            alloc = {}
            for t in recs(r.impl, "CS"):
                alloc[(t[1], int(t[2]))] = (int(t[9]), int(t[8]))      # (allocated, nnz)
            predicted, where = False, None
            for t in recs(r.model, "RUN"):
                if t[1] == "source" and t[4] == "OOB":
                    a = alloc.get((t[5], int(t[2])))
                    if a and int(t[6]) >= a[0]:
                        predicted, where = True, t
            sanitizer = bool(crash and "AddressSanitizer" in crash[1] and "heap-buffer-overflow" in crash[1])
            in_function = bool(crash and function in crash[1])
            if predicted == sanitizer and (not sanitizer or in_function):
                agree += 1
            else:
                disagree += 1
                chk.tie_broken("asan vs model access trace", "%s of %s: model predicts %s, sanitizer %s (in %s: %s)" % (
                    label, canon(text), predicted, sanitizer, function, in_function))
            if sanitizer:
                findings.append(("chase-oob: %s | %s" % (canon(text), label),
                                 "heap-buffer-overflow in %s (the chase loop reads index() past the last inner vector; model: %s)" % (
                                     function, " ".join(where or [])),
                                 {"harness": "h_c01", "variant": "asan", "scenario": text, "query": rawq, "model_query": modelq,
                                  "stderr_head": crash[1][:1500]}))
            chk.case("%s-asan %s | %s" % (prefix, canon(text), label), "asan|predicted=%s|sanitizer=%s" % (predicted, sanitizer), nontrivial=True)
    # replay files for the C17 owner (written only for the unmodified repository; scratch runs keep theirs private)
    import hashlib, json, os
    rdir = os.path.join(pv.ROOT if pv.COQ == pv.COQ_SRC else pv.BUILD, "replays")
    os.makedirs(rdir, exist_ok=True)
    for (k, w, rp) in findings:
        path = os.path.join(rdir, "C17-%s.json" % hashlib.sha1(("C17" + k).encode()).hexdigest()[:10])
        json.dump({"property": "C17", "kind": "input", "key": k, "what": w, "replay": rp, "found_by": prefix,
                   "how_to_run": "./check %s --replay %s" % (prefix, path)}, open(path, "w"), indent=1)
        rp["replay_file"] = path
    chk.extra["c17_loops"] = {"asan_model_agreements": agree, "disagreements": disagree,
                              "source_loops_test_iterator_first": guarded,
                              "findings": [{"key": k, "what": w, "replay": rp.get("replay_file")} for (k, w, rp) in findings]}
    return findings
