"""C10, LARGE-BLOCK stage (called from checks/C10.py).

TESTING WITH AN INDEPENDENT NUMPY REFERENCE -- not the extracted model, not the oracle: both work on the full Fock space with
extracted floating-point code and are too slow at 1024 states.  The scenarios of the main C10 loop have blocks of dimension <= 36;
code paths of FieldOperatorPart::compute that depend on the block size or on the number of OpenMP threads (the library is built
with -fopenmp, POMEROL_USE_OPENMP defined) are not reached by them.  Here: 5-site Hubbard chains (10 modes, 36 blocks, the largest of
dimension 100) run through harness/h_c10 with OMP_NUM_THREADS = 8, 4 and 1 (thorough: also 2, 16, repeated runs, a ring, order_spins,
the complex build with complex hoppings): every c^+_i and c_i through the container, some one by one.  checks/c10_npref.py (numpy,
interpreter python3-vt) then evaluates the property text block by block on the dumped records: U_to * stored * U_from^+ == Jordan-Wigner
block computed by bit operations from the dumped BLOCK state lists, no image outside the stored block pairs, c == (c^+)^+,
one-by-one == container, and {c_i, c^+_j} = delta_ij, {c_i, c_j} = 0 assembled over all blocks for a sample of pairs.

Calibration of the reference, every run: small models (2- and 3-site chains) whose records the main analysis of C10 (extracted model +
specification) verifies in the same run are given to the numpy reference as well; both must accept them.  The Jordan-Wigner sign
convention of the reference (parity of the occupied modes below i) is thereby compared with the oracle's on every run.
"""
import json
import os
import shutil
import tempfile
import time
import pv
import hpartlib as hl

NPREF = os.path.join(os.path.dirname(os.path.abspath(__file__)), "c10_npref.py")
PY_NUMPY = "python3-vt"            # the interpreter that has numpy (as in checks/C03.py numpy_sanity)
LABEL = ("TESTING with an independent numpy reference (checks/c10_npref.py): the extracted model and the oracle are too slow at 1024 "
         "Fock states; calibrated per run against the oracle-verified small models")
NAMES = "ABCDEF"


def f(x):
    return repr(float(x))


def chain(rng, nsites, ring=False, order_spins=0, cplx=False):
    """Hubbard chain with site-dependent dyadic parameters (so that the spectrum is not accidentally symmetric)"""
    L = ["site %s 1 2" % NAMES[s] for s in range(nsites)]
    for s in range(nsites):
        L.append("addCoulombS %s %s %s" % (NAMES[s], f(rng.choice([1, 1.25, 1.5, 2, 2.5, 3])), f(rng.choice([-0.5, -0.625, -0.75, -1, -1.125, -1.5]))))
    bonds = [(s, s + 1) for s in range(nsites - 1)] + ([(nsites - 1, 0)] if ring else [])
    for a, b in bonds:
        t = f(rng.choice([-1, -0.875, -0.75, -0.5, 0.5, 0.75, 1]))
        if cplx:
            t += "," + f(rng.choice([0.25, 0.5, -0.25, 0.75]))
        L.append("addHopping4 %s %s %s" % (NAMES[a], NAMES[b], t))
    if order_spins:
        L.append("order_spins 1")
    L += ["symm default", "beta 1"]
    return "\n".join(L) + "\n"


def run_harness(variant, text, threads, container, singles, path):
    """container: list of indices for prepareAll ([] = all); singles: indices computed one by one ([] = none).
    Returns error string or None; the records are in `path`."""
    hb = pv.build_harness("h_c10", variant)
    cmds = ["threads", "history P %s C" % " ".join(str(i) for i in container)]
    if singles:
        cmds.append("single " + " ".join(str(i) for i in singles))
    inp = "model\n%s\nend\n%s\n" % (text.strip(), "\n".join(cmds))
    rc, out, err = pv.run_harness(hb, inp, timeout=600, env={"OMP_NUM_THREADS": str(threads)}, args=("--out", path))
    if rc != 0:
        return "harness exit code %d: %s" % (rc, (pv.sanitizer_digest(err) or err)[-400:])
    with open(path) as fh:
        head = fh.readline().split()
        if not head or head[0] != "BUILT":
            return "build: " + " ".join(head or ["no output"])
        for line in fh:
            if line.startswith("THROWS") or line.startswith("UNKNOWN"):
                return "a command failed: " + line.strip()
    return None


def npref(path, car_pairs):
    """-> (facts, failures) of checks/c10_npref.py, or (None, error text)"""
    rc, out, err = pv.sh([PY_NUMPY, NPREF, path, json.dumps({"car_pairs": car_pairs})], timeout=900)
    try:
        d = json.loads(out.strip().split("\n")[-1])
        return d["facts"], d["failures"]
    except (ValueError, IndexError, KeyError):
        return None, "rc=%d %s" % (rc, (err or out)[-400:])


def opname(fl):
    kind = fl["op"]
    if kind in ("cdag", "c", "cdag1", "c1"):
        return "%s_%d (%s)" % ("c^+" if kind.startswith("cdag") else "c", fl["index"], "one by one" if kind.endswith("1") else "container")
    return "%s, index %d" % (kind, fl["index"])


def describe_failure(fl):
    blk = ""
    if fl.get("block"):
        l, r = fl["block"]
        shp = fl.get("shape") or [None, None]
        blk = " block %s<-%s (%sx%s)" % (l, r, shp[0], shp[1])
    return "%s%s: %s" % (opname(fl), blk, fl["detail"])


def one_run(chk, name, variant, text, threads, container, singles, car_pairs, tmpdir, stats, repeat=0):
    """one harness run + numpy analysis; reports violations; returns the failures (list) or None when the run could not be made"""
    path = os.path.join(tmpdir, "dump-%d.txt" % stats["runs"])
    stats["runs"] += 1
    err = run_harness(variant, text, threads, container, singles, path)
    canon = hl.canon(text)
    if err:
        stats["skipped"].append({"model": name, "threads": threads, "why": err})
        if not err.startswith("build:"):
            chk.violation("large-block|crash|%s|threads=%d|%s" % (variant, threads, canon),
                          "LARGE-BLOCK stage: model %s [%s], OMP_NUM_THREADS=%d, %s build: %s" % (name, canon, threads, variant, err),
                          {"check": "C10", "kind": "large-block", "variant": variant, "scenario": text, "threads": threads, "container": container,
                           "singles": singles, "car_pairs": car_pairs, "model": name, "detail": err})
        return None
    facts, fails = npref(path, car_pairs)
    os.remove(path)
    if facts is None:
        chk.tie_broken("numpy reference (c10_npref.py)", "could not be evaluated on model %s, threads=%d: %s" % (name, threads, fails))
        return None
    stats["results"].append({"model": name, "variant": variant, "threads_requested": threads, "threads_in_effect": facts.get("threads"), "repeat": repeat,
                             "largest_block": facts.get("largest_block"), "largest_source_block_of_a_stored_part": facts.get("largest_source_block_of_a_stored_part"),
                             "parts": facts.get("parts"), "operators": len(facts.get("operators", [])), "car_pairs": facts.get("car_pairs_evaluated"),
                             "max_dev": facts.get("max_dev"), "failures": len(fails)})
    if facts.get("threads") != threads:
        chk.tie_broken("OMP_NUM_THREADS", "asked for %d OpenMP threads, omp_get_max_threads() = %r" % (threads, facts.get("threads")))
    for op in facts.get("operators", []):
        kind = op.split("_")[0]
        chk.case("large|%s|%s|threads=%d|%s" % (variant, canon, threads, op),        # a repeated run of the same input is not a distinct case
                 "large-block|%s|threads=%d|largest-block=%s|%s|%s" % (name.split(" #")[0], threads, facts.get("largest_block"), "one-by-one" if kind.endswith("1") else "container", variant),
                 nontrivial=(facts.get("largest_block") or 0) >= 64)
    seen = {}
    for fl in fails:
        seen.setdefault(fl["kind"], []).append(fl)
    for n, (kind, fls) in enumerate(sorted(seen.items(), key=lambda kv: ("rotation", "adjoint", "container-vs-single", "missing", "car").index(kv[0])
                                           if kv[0] in ("rotation", "adjoint", "container-vs-single", "missing", "car") else 9)):
        stats["failures_by_kind"]["%s|threads=%d" % (kind, threads)] = stats["failures_by_kind"].get("%s|threads=%d" % (kind, threads), 0) + len(fls)
        if n >= 2:
            continue           # two kinds per run are reported; the counts stay in the evidence
        fl = fls[0]
        what = ("LARGE-BLOCK stage (numpy reference): model %s, %s build, OMP_NUM_THREADS=%d: %s  [%d parts/pairs fail this way in this run; "
                "largest block %s; scenario: %s]" % (name, variant, threads, describe_failure(fl), len(fls), facts.get("largest_block"), canon))
        chk.violation("large-block|%s|%s|threads=%d|%s" % (kind, variant, threads, canon), what,
                      {"check": "C10", "kind": "large-block", "failure_kind": kind, "variant": variant, "scenario": text, "threads": threads,
                       "container": container, "singles": singles, "car_pairs": car_pairs, "model": name, "first_failure": fl,
                       "all_failing_parts": ["%s %s" % (opname(x), x.get("block")) for x in fls[:40]], "detail": describe_failure(fl)})
    return fails


def calibrate(chk, analyse_dump, tmpdir, stats):
    """small models: the oracle-backed analysis of C10 and the numpy reference on the same records.  Returns True when the reference may be used."""
    ok = True
    for name, text in (("2-site chain", chain(chk.rng, 2)), ("3-site chain, order_spins", chain(chk.rng, 3, order_spins=1))):
        path = os.path.join(tmpdir, "calib.txt")
        err = run_harness("real", text, 1, [], list(range(2 * (2 if name.startswith("2") else 3))), path)
        if err:
            stats["calibration"].append({"model": name, "skipped": err})
            continue
        recs = [l.split() for l in open(path) if l.strip()]
        recs = [t for t in recs if t[0] in ("N", "HPOLY", "NBLOCKS", "BLOCK", "VEC", "EIG", "OPMAP", "OPMAT", "COLROWDIFF")]
        n = int(next(t[1] for t in recs if t[0] == "N"))
        ofails, ofacts = analyse_dump(recs)
        facts, nfails = npref(path, [[i, j] for i in range(n) for j in range(n)])
        os.remove(path)
        if facts is None:
            chk.tie_broken("numpy reference (c10_npref.py)", "not available: %s" % nfails)
            return False
        o_impl = [x for x in ofails if x[1]]
        stats["calibration"].append({"model": name, "scenario": hl.canon(text), "oracle_failures": len(ofails), "numpy_failures": len(nfails),
                                     "parts": facts.get("parts"), "numpy_max_dev": facts.get("max_dev"), "oracle_rotate_back_max": ofacts.get("back_max")})
        chk.case("large-calibration|" + hl.canon(text), "large-block|calibration of the numpy reference against the oracle", nontrivial=True)
        if any(x[0] == "driver" for x in ofails):
            chk.tie_broken("driver_c03", "calibration of the numpy reference: %r" % (ofails[:1],))
            ok = False
        elif bool(o_impl) != bool(nfails):
            # the two references disagree about the same records: one of them is wrong (not the library)
            chk.tie_broken("numpy reference vs oracle", "model %s [%s]: oracle-backed analysis %s, numpy reference %s" % (
                name, hl.canon(text), [x[2][:200] for x in o_impl[:2]] or "accepts", [describe_failure(x)[:200] for x in nfails[:2]] or "accepts"))
            ok = False
    return ok


def stage(chk, quick, analyse_dump):
    rng = chk.rng
    stats = {"label": LABEL, "runs": 0, "results": [], "skipped": [], "calibration": [], "failures_by_kind": {}}
    chk.extra["large_block_stage"] = stats
    tmpdir = tempfile.mkdtemp(prefix="c10large-", dir=pv.BUILD)
    t0 = time.time()
    try:
        if not calibrate(chk, analyse_dump, tmpdir, stats):
            stats["note"] = "numpy reference not usable in this run: stage skipped"
            return
        n = 10
        text = chain(rng, 5)
        allidx = list(range(n))
        two = sorted(rng.sample(allidx, 2))
        plan = []          # (name, variant, text, threads, container, singles, number of off-diagonal CAR pairs, repeats)
        if quick:
            sub = sorted(rng.sample(allidx, 3))
            plan.append(("hubbard-chain-5", "real", text, 8, [], two, 6, 1))
            plan.append(("hubbard-chain-5", "real", text, 4, sub, sub[:1], 0, 1))
            plan.append(("hubbard-chain-5", "real", text, 1, sub, sub[:1], 0, 1))
        else:
            plan.append(("hubbard-chain-5", "real", text, 8, [], two, 90, 3))
            for th in (2, 4, 16):
                plan.append(("hubbard-chain-5", "real", text, th, [], two, 10, 1))
            plan.append(("hubbard-chain-5", "real", text, 1, [], two, 10, 1))
            ring = chain(rng, 5, ring=True, order_spins=1)
            plan.append(("hubbard-ring-5, order_spins", "real", ring, 8, [], sorted(rng.sample(allidx, 2)), 10, 2))
            plan.append(("hubbard-ring-5, order_spins", "real", ring, 1, [], [], 10, 1))
            ctext = chain(rng, 5, cplx=True)
            plan.append(("hubbard-chain-5, complex hoppings", "complex", ctext, 8, [], sorted(rng.sample(allidx, 2)), 10, 2))
            plan.append(("hubbard-chain-5, complex hoppings", "complex", ctext, 1, [], [], 10, 1))
        for name, variant, txt, threads, container, singles, noff, reps in plan:
            idx = container or allidx
            pairs = [[i, i] for i in idx]
            off = [[i, j] for i in idx for j in idx if i != j]
            rng.shuffle(off)
            pairs += off[:noff]
            for rep in range(reps):
                fails = one_run(chk, name, variant, txt, threads, container, singles, pairs, tmpdir, stats, repeat=rep)
                if fails:
                    break          # reported; further repeats of the same input add nothing
        big = [r for r in stats["results"] if (r.get("largest_source_block_of_a_stored_part") or 0) >= 64 and (r.get("threads_in_effect") or 0) > 1]
        if not big:
            chk.tie_broken("large-block stage", "no run with a source block of dimension >= 64 and more than one OpenMP thread was analysed: %r" % (stats["skipped"][:2],))
    finally:
        stats["wall_s"] = round(time.time() - t0, 1)
        shutil.rmtree(tmpdir, ignore_errors=True)


def replay(chk, rep, analyse_dump):
    """re-run one reported large-block input (three times when several threads are involved: the outcome may depend on scheduling)"""
    stats = {"label": LABEL, "runs": 0, "results": [], "skipped": [], "calibration": [], "failures_by_kind": {}}
    chk.extra["large_block_stage"] = stats
    tmpdir = tempfile.mkdtemp(prefix="c10large-", dir=pv.BUILD)
    try:
        for k in range(3 if rep.get("threads", 1) > 1 else 1):
            fails = one_run(chk, rep.get("model", "replayed model"), rep.get("variant", "real"), rep["scenario"], int(rep.get("threads", 1)),
                            rep.get("container", []), rep.get("singles", []), rep.get("car_pairs", []), tmpdir, stats, repeat=k)
            print("run %d with OMP_NUM_THREADS=%s: %s" % (k + 1, rep.get("threads"), "could not be made" if fails is None else
                                                            ("%d failing parts/pairs" % len(fails)) + ("; first: " + describe_failure(fails[0]) if fails else "")))
            if fails:
                break
    finally:
        shutil.rmtree(tmpdir, ignore_errors=True)
