"""C07 -- Symmetry analysis yields a sound partition of Fock space for every lattice.

Proof: props/Properties_C07.v about PV.Symm (hand model of Symmetrizer.cpp, StatesClassification.cpp, FieldOperator.cpp::mapsTo/
prepare on top of the operator-algebra model PV.Poly).
Tie: correspondence.  The same scenarios (lattice, Hamiltonian, default / ignored / custom candidates) are run through the real
library (harness h_c07) and through the extracted model at exact rationals (driver_c07, fed with the Hamiltonian polynomial and
candidate polynomials printed by the harness); accept flags, accepted operators, blocks, inner indices, quantum numbers of every
state, mapsTo of every block and the complete prepare() state (parts, both part maps, bimap) of every c_i, c^+_i, c^+_i c_j are
diffed exactly.  The two modelled repairs (fixed_sz, shiftfix) are parameters of the model: probe scenarios establish which
variant the code under /repo is.
Independently of the model, the property is evaluated on the implementation's output with a Jordan-Wigner action written in
Python: every state in exactly one block and recovered from its address; <t|H|s> != 0 only inside a block; every c, c^+, c^+c maps
a block into at most one block (and the bimap holds exactly the pairs that occur); no exception for any lattice.
Candidates: besides linear forms, constants, n_i n_j, N^2, ... the systematic non-linear family of checks/diagfam.py -- products of
two and three linear forms in the n_i with coefficients of both signs (4 S^z_A S^z_B, (N_A - N_B) 2S^z, (n_a - n_b)(n_c - n_d),
N_up N_down, (N-1)^2, N(N-1)(N-2), n_a n_b n_c, projectors on the filled state / the vacuum, parity, random products incl. `balanced`
ones whose increments are state-dependent only in the middle of the Fock space, and products that are linear in disguise) -- in
generic scenarios and, above all, in models where they are really conserved (diagonal Hamiltonians, Heisenberg / Ising exchange
without hopping, decoupled clusters, spin-conserving hopping: gen_nonlinear, nonlinear_fixed), so that the acceptance decision is
made by the uniform-shift test alone and a wrong acceptance shows both as a difference of the accept flags against the model and as
a block that some c_i / c^+_i maps into two blocks.
"""
import itertools
from fractions import Fraction
import pv
import diagfam

# ---------------------------------------------------------------------------------------------------------
# scenarios

DY = [Fraction(k, 4) for k in (-8, -6, -4, -3, -2, -1, 1, 2, 3, 4, 6, 8)]


def fs(x):
    x = Fraction(x)
    return str(x.numerator) if x.denominator == 1 else repr(float(x))


class Scen:
    """sites: [(label, orbitals, spins)]; lines: lattice-building lines (presets / raw terms); mode; ioms: list of polynomials
    [(coef, [(dag, idx), ...]), ...] over global indices; tags: generator bookkeeping for the signature"""

    def __init__(self, sites, lines, mode="default", ioms=None, tags=None):
        self.sites, self.lines, self.mode = list(sites), list(lines), mode
        self.ioms = [list(q) for q in (ioms or [])]
        self.tags = dict(tags or {})

    def index_map(self):
        """(label, orbital, spin) -> global index for order_spins = 0: sites in label order, orbital, spin fastest"""
        m, k = {}, 0
        for (l, o, s) in sorted(self.sites):
            for orb in range(o):
                for sp in range(s):
                    m[(l, orb, sp)] = k
                    k += 1
        return m

    def n(self):
        return sum(o * s for (_, o, s) in self.sites)

    def spins(self):
        im = self.index_map()
        return [k[2] for k, _ in sorted(im.items(), key=lambda kv: kv[1])]

    def text(self):
        t = ["site %s %d %d" % s for s in self.sites] + self.lines + (["order_spins 1"] if self.tags.get("order_spins") else []) + ["symm " + self.mode]
        if self.mode == "custom":
            for q in self.ioms:
                t.append("iom %d " % len(q) + " ".join("%s %d %s" % (fs(c), len(m), " ".join("%d %d" % (d, i) for (d, i) in m)) for (c, m) in q))
        return "\n".join(t)

    def canon(self):
        return " | ".join(self.text().split("\n"))

    def copy(self):
        return Scen(self.sites, self.lines, self.mode, self.ioms, self.tags)


def shape_class(sites):
    sp = sorted(set(s for (_, _, s) in sites))
    orb = max(o for (_, o, _) in sites)
    if sp == [2]:
        c = "2spin"
    elif sp == [1]:
        c = "spinless"
    elif 3 in sp:
        c = "has-3spin" if len(sp) == 1 else "mixed-with-3spin"
    else:
        c = "mixed-1-2"
    return "%s/%s/%dsite" % (c, "multiorb" if orb > 1 else "1orb", len(sites))


def term_line(value, ops):
    """ops: [(dag, label, orb, spin)]"""
    return "term %d %s " % (len(ops), fs(value)) + " ".join("%d %s %d %d" % o for o in ops)


def herm_pair(value, ops):
    """term + hermitian conjugate (real amplitude); a self-conjugate term is added once"""
    conj = [(1 - d, l, o, s) for (d, l, o, s) in reversed(ops)]
    if conj == list(ops):
        return [term_line(value, ops)]
    return [term_line(value, ops), term_line(value, conj)]


def gen_lattice(rng, kind=None):
    kind = kind or rng.choice(["2spin", "2spin", "spinless", "mixed", "mixed", "3spin", "multi", "any", "any"])
    labels = ["A", "B", "C"]
    while True:
        ns = rng.choice([1, 2, 2, 3])
        sites = []
        for k in range(ns):
            if kind == "2spin":
                o, s = rng.choice([1, 1, 2]), 2
            elif kind == "spinless":
                o, s = rng.choice([1, 2, 3]), 1
            elif kind == "mixed":
                o, s = rng.choice([1, 1, 2]), rng.choice([1, 2])
            elif kind == "3spin":
                o, s = 1, rng.choice([3, 3, 2, 1])
            elif kind == "multi":
                o, s = rng.choice([2, 3]), rng.choice([1, 2])
            else:
                o, s = rng.choice([1, 2, 3]), rng.choice([1, 2, 3])
            sites.append((labels[k], o, s))
        n = sum(o * s for (_, o, s) in sites)
        if kind == "mixed" and len(set(s for (_, _, s) in sites)) < 2 and rng.random() < 0.8:
            continue
        if 1 <= n <= 6:
            return sites


def gen_hamiltonian(rng, sc, want):
    """want: set of conservation laws to respect ('N', 'Sz'); everything else may be broken on purpose"""
    im = sc.index_map()
    modes = sorted(im.keys(), key=lambda k: im[k])
    lines = []
    # levels (always conserving)
    for (l, o, s) in sc.sites:
        if rng.random() < 0.7:
            lines.append("addLevel %s %s" % (l, fs(rng.choice(DY))))
    for m in modes:
        if rng.random() < 0.25:
            lines += herm_pair(rng.choice(DY), [(1,) + m, (0,) + m])
    # presets on 2-spin sites
    for (l, o, s) in sc.sites:
        if s == 2 and o == 1 and rng.random() < 0.5:
            lines.append("addCoulombS %s %s %s" % (l, fs(rng.choice([1, 2, 4])), fs(rng.choice(DY))))
        if s == 2 and o >= 2 and rng.random() < 0.4:
            lines.append("addCoulombP3 %s %s %s %s" % (l, fs(rng.choice([2, 3])), fs(rng.choice([Fraction(1, 4), Fraction(1, 2)])), fs(rng.choice(DY))))
        if s == 2 and rng.random() < 0.2:
            lines.append("addMagnetization %s %s" % (l, fs(rng.choice([Fraction(1, 4), Fraction(-1, 2)]))))
    two = [x for x in sc.sites if x[2] == 2]
    for a, b in itertools.combinations(two, 2):
        if a[1] == b[1] and rng.random() < 0.5:
            lines.append("addHopping4 %s %s %s" % (a[0], b[0], fs(rng.choice([Fraction(1, 2), 1, Fraction(-1, 4)]))))
        if a[1] == b[1] and rng.random() < 0.15:
            lines.append("addSS %s %s %s" % (a[0], b[0], fs(rng.choice([Fraction(1, 2), -1]))))
    # density-density between random modes
    for _ in range(rng.randint(0, 2)):
        if len(modes) >= 2:
            a, b = rng.sample(modes, 2)
            lines += herm_pair(rng.choice(DY), [(1,) + a, (1,) + b, (0,) + b, (0,) + a])
    # hopping that keeps the spin label
    for _ in range(rng.randint(0, 3)):
        cands = [(a, b) for a in modes for b in modes if a < b and a[2] == b[2]]
        if cands:
            a, b = rng.choice(cands)
            lines += herm_pair(rng.choice(DY), [(1,) + a, (0,) + b])
    if "Sz" not in want:
        # spin-flip hopping / on-site spin mixing: keeps N, breaks S_z
        cands = [(a, b) for a in modes for b in modes if a < b and a[2] != b[2]]
        for _ in range(rng.randint(1, 2)):
            if cands:
                a, b = rng.choice(cands)
                lines += herm_pair(rng.choice(DY), [(1,) + a, (0,) + b])
    if "N" not in want:
        # pair creation: breaks N (keeps S_z when the two spin labels are 0 and 1)
        pairs = [(a, b) for a in modes for b in modes if a < b]
        if "Sz" in want:
            pairs = [(a, b) for (a, b) in pairs if {a[2], b[2]} == {0, 1}] or pairs
        for _ in range(rng.randint(1, 2)):
            if pairs:
                a, b = rng.choice(pairs)
                lines += herm_pair(rng.choice(DY), [(1,) + a, (1,) + b])
    if rng.random() < 0.25 and len(modes) >= 4:
        # pair hopping / exchange-like quartic term (conserves N)
        a, b, c, d = rng.sample(modes, 4)
        lines += herm_pair(rng.choice(DY), [(1,) + a, (1,) + b, (0,) + c, (0,) + d])
    return lines


def n_op(i, c=1):
    return (Fraction(c), [(1, i), (0, i)])


def gen_candidates(rng, sc):
    """list of (kind, polynomial)"""
    im = sc.index_map()
    n = sc.n()
    spins = sc.spins()
    out = []
    kinds = ["N", "Sz", "site-charge", "orbital-charge", "spin-charge", "linear", "product", "product3", "docc", "hop-operator",
             "single-n", "constant", "empty", "N-squared", "pair-operator", "shifted-N", "family", "family"]
    for _ in range(rng.randint(1, 4)):
        k = rng.choice(kinds)
        if k == "family":
            # a member of the systematic non-linear family (products of linear forms of both signs, squares, projectors, ...)
            nm, f = diagfam.family(rng, diagfam.index_info(sc.sites), 1)[0]
            out.append((nm, diagfam.to_poly(f)))
            continue
        if k == "N":
            q = [n_op(i) for i in range(n)]
        elif k == "Sz":
            q = [n_op(i, Fraction(1, 2) if spins[i] == 1 else Fraction(-1, 2)) for i in range(n) if spins[i] in (0, 1)]
        elif k == "site-charge":
            l = rng.choice(sc.sites)[0]
            q = [n_op(i) for (key, i) in sorted(im.items(), key=lambda kv: kv[1]) if key[0] == l]
        elif k == "orbital-charge":
            l, o, s = rng.choice(sc.sites)
            orb = rng.randrange(o)
            q = [n_op(i) for (key, i) in sorted(im.items(), key=lambda kv: kv[1]) if key[0] == l and key[1] == orb]
        elif k == "spin-charge":
            sp = rng.choice(sorted(set(spins)))
            q = [n_op(i) for i in range(n) if spins[i] == sp]
        elif k == "linear":
            q = [n_op(i, rng.choice(DY)) for i in range(n) if rng.random() < 0.7]
            if rng.random() < 0.3:
                q.append((rng.choice(DY), []))
        elif k == "product" and n >= 2:
            i, j = sorted(rng.sample(range(n), 2))
            q = [(Fraction(1), [(1, i), (0, i), (1, j), (0, j)])]
        elif k == "product3" and n >= 3:
            i, j, l = sorted(rng.sample(range(n), 3))
            q = [(Fraction(1), [(1, i), (0, i), (1, j), (0, j), (1, l), (0, l)])]
        elif k == "docc":
            q = []
            for (l, o, s) in sc.sites:
                if s == 2:
                    for orb in range(o):
                        i, j = im[(l, orb, 0)], im[(l, orb, 1)]
                        q.append((Fraction(1), [(1, i), (0, i), (1, j), (0, j)]))
        elif k == "hop-operator" and n >= 2:
            i, j = rng.sample(range(n), 2)
            q = [(Fraction(1), [(1, i), (0, j)]), (Fraction(1), [(1, j), (0, i)])]
        elif k == "pair-operator" and n >= 2:
            i, j = rng.sample(range(n), 2)
            q = [(Fraction(1), [(1, i), (1, j)]), (Fraction(1), [(0, j), (0, i)])]
        elif k == "single-n":
            q = [n_op(rng.randrange(n))]
        elif k == "constant":
            q = [(rng.choice(DY), [])]
        elif k == "empty":
            q = []
        elif k == "N-squared":
            # N^2 = N + sum_{i != j} n_i n_j: same partition as N although it does not shift uniformly
            q = [n_op(i) for i in range(n)] + [(Fraction(1), [(1, i), (0, i), (1, j), (0, j)]) for i in range(n) for j in range(n) if i != j]
        elif k == "shifted-N":
            q = [n_op(i) for i in range(n)] + [(Fraction(-1), [])]
        else:
            continue
        out.append((k, q))
    return out


def gen_symmetric_hop(rng):
    """two equivalent sites coupled by hopping; candidate: the hopping operator itself (or the site-exchange-like bond operator),
    which commutes with H but not with the n_i -- must be rejected by the second half of checkSymmetry"""
    spins = rng.choice([1, 2])
    sc = Scen([("A", 1, spins), ("B", 1, spins)], [])
    eps, t = rng.choice(DY), rng.choice(DY)
    sc.lines = ["addLevel A %s" % fs(eps), "addLevel B %s" % fs(eps)]
    for sp in range(spins):
        sc.lines += herm_pair(t, [(1, "A", 0, sp), (0, "B", 0, sp)])
    im = sc.index_map()
    q = []
    for sp in range(spins):
        a, b = im[("A", 0, sp)], im[("B", 0, sp)]
        q += [(Fraction(1), [(1, a), (0, b)]), (Fraction(1), [(1, b), (0, a)])]
    sc.mode = "custom"
    cs = [("hop-symmetry", q)]
    if rng.random() < 0.5:
        cs.append(("N", [n_op(i) for i in range(sc.n())]))
    if rng.random() < 0.3:
        cs.insert(0, ("site-charge", [n_op(i) for (key, i) in sorted(im.items(), key=lambda kv: kv[1]) if key[0] == "A"]))
    sc.ioms = [c[1] for c in cs]
    sc.tags["cand_kinds"] = [c[0] for c in cs]
    sc.tags["want"] = "N+Sz"
    return sc


def h_itself(ea, eb, t, spins=1, extra=()):
    """two sites with different levels and hopping; candidate: the Hamiltonian itself -- commutes with H, is not diagonal, and its
    diagonal part (the level term) is not conserved: must be rejected by the n_i half of checkSymmetry"""
    sc = Scen([("A", 1, spins), ("B", 1, spins)], ["addLevel A %s" % fs(ea), "addLevel B %s" % fs(eb)])
    im = sc.index_map()
    q = []
    for sp in range(spins):
        sc.lines += herm_pair(t, [(1, "A", 0, sp), (0, "B", 0, sp)])
        a, b = im[("A", 0, sp)], im[("B", 0, sp)]
        q += [(Fraction(ea), [(1, a), (0, a)]), (Fraction(eb), [(1, b), (0, b)]), (Fraction(t), [(1, a), (0, b)]), (Fraction(t), [(1, b), (0, a)])]
    sc.mode = "custom"
    cs = [("H-itself", q)] + list(extra)
    sc.ioms = [c[1] for c in cs]
    sc.tags["cand_kinds"] = [c[0] for c in cs]
    return sc


def gen_h_itself(rng):
    ea, eb = rng.sample(DY, 2)
    spins = rng.choice([1, 2])
    extra = [("N", [n_op(i) for i in range(2 * spins)])] if rng.random() < 0.5 else []
    return h_itself(ea, eb, rng.choice(DY), spins, extra)


def linear_companions(rng, info):
    """named linear candidates that go with the non-linear ones"""
    fm = diagfam.forms(info)
    return [(k, diagfam.to_poly(f)) for k, f in sorted(fm.items())]


def gen_nonlinear(rng, kind=None):
    """a model in which many non-linear diagonal operators are conserved (diagonal H; Heisenberg exchange without hopping; decoupled
    clusters; spin-conserving hopping) with 1-3 candidates of the non-linear family (checks/diagfam.py), alone or next to linear ones:
    here the acceptance decision is made by the uniform-shift part of checkSymmetry alone"""
    kind, sites, lines = diagfam.commuting_model(rng, kind)
    sc = Scen(sites, lines, "custom")
    info = diagfam.index_info(sites)
    cs = [(nm, diagfam.to_poly(f)) for (nm, f) in diagfam.family(rng, info, rng.choice([1, 1, 2, 3]))]
    r = rng.random()
    if r < 0.45:
        lc = linear_companions(rng, info)
        for c in rng.sample(lc, min(len(lc), rng.choice([1, 2]))):
            cs.insert(rng.randint(0, len(cs)), c)
    sc.ioms = [q for (_, q) in cs]
    sc.tags["cand_kinds"] = [k for (k, _) in cs]
    sc.tags["want"] = "commuting:" + kind
    return sc


def nonlinear_fixed():
    """deterministic minimal scenarios of the non-linear family: the operator commutes with H and does not shift uniformly, so it must be
    rejected; were it accepted, some c^+_i would map a block into two blocks"""
    AB = [("A", 1, 2), ("B", 1, 2)]
    ABC = AB + [("C", 1, 2)]
    L, M = diagfam.lin, diagfam.mul
    info = diagfam.index_info(AB)
    fm = diagfam.forms(info)
    szsz = M(fm["2Sz_A"], fm["2Sz_B"])
    out = []

    def S(sites, lines, cands):
        out.append(Scen(sites, lines, "custom", [diagfam.to_poly(f) for (_, f) in cands],
                        tags={"fixed": "nl%d" % (len(out) + 1), "cand_kinds": [k for (k, _) in cands]}))
    S(AB, ["addSS A B 1"], [("4Sz_A*Sz_B", szsz)])
    S(AB, ["addCoulombS A 2 -1", "addCoulombS B 1 -0.25", "addSS A B 0.5", "addSzSz A B -1"], [("N", fm["N"]), ("2Sz", fm["2Sz"]), ("4Sz_A*Sz_B", szsz)])
    S(AB, ["addSS A B 1"], [("N_A", fm["N_A"]), ("N_B", fm["N_B"]), ("N+4Sz_A*Sz_B", diagfam.add(fm["N"], szsz))])
    S(AB, ["addLevel A 0.5", "addLevel B -0.25"], [("(n-n)*(n-n)", M(L([(0, 1), (3, -1)]), L([(1, 1), (2, -1)])))])
    S(AB, ["addLevel A 0.5", "addLevel B -0.25"], [("(N_A-N_B)*2Sz", M(diagfam.add(fm["N_A"], fm["N_B"], -1), fm["2Sz"]))])
    S(AB, ["addHopping4 A B 1"], [("Nup*Ndn", M(fm["Nspin0"], fm["Nspin1"])), ("N", fm["N"])])
    S(AB, ["addHopping4 A B 1"], [("(N-1)^2", M(L([(i, 1) for i in range(4)], -1), L([(i, 1) for i in range(4)], -1)))])
    S(AB, ["addHopping4 A B 1"], [("filled-projector", M(*[L([(i, 1)]) for i in range(4)]))])
    S(AB, ["addHopping4 A B 1"], [("filled+vacuum", diagfam.add(M(*[L([(i, 1)]) for i in range(4)]), M(*[L([(i, -1)], 1) for i in range(4)])))])
    S(AB, ["addHopping4 A B 1"], [("N(N-1)(N-2)", M(*[L([(i, 1) for i in range(4)], -k) for k in range(3)]))])
    S([("A", 1, 1), ("B", 1, 1), ("C", 1, 1)], ["addLevel A 0.5"], [("n*n*n", M(L([(0, 1)]), L([(1, 1)]), L([(2, 1)])))])
    S([("A", 1, 1), ("B", 1, 1), ("C", 1, 1)], ["addLevel A 0.5"], [("n*(n-n)", M(L([(0, 1)]), L([(1, 1), (2, -1)])))])
    S(ABC, ["addSS A B 1"], [("(n-n)*(n-n)*(n-n)", M(L([(0, 1), (1, -1)]), L([(2, 1), (3, -1)]), L([(4, 1), (5, -1)])))])
    S(AB, ["addLevel A 0.5"], [("disguised n*(n+1)", M(L([(0, 1)]), L([(0, 1)], 1))), ("(2Sz_A)^2", M(fm["2Sz_A"], fm["2Sz_A"]))])
    return out


def gen_scenario(rng):
    x = rng.random()
    if x < 0.06:
        return gen_symmetric_hop(rng)
    if x < 0.12:
        return gen_h_itself(rng)
    sites = gen_lattice(rng)
    sc = Scen(sites, [])
    want = rng.choice([{"N", "Sz"}, {"N", "Sz"}, {"N"}, {"Sz"}, set()])
    sc.lines = gen_hamiltonian(rng, sc, want)
    r = rng.random()
    if r < 0.5 and rng.random() < 0.3:
        sc.tags["order_spins"] = 1       # spin-major index order (default / ignore only: custom candidates are written for site-major order)
    if r < 0.4:
        sc.mode = "default"
    elif r < 0.5:
        sc.mode = "ignore"
    else:
        sc.mode = "custom"
        cs = gen_candidates(rng, sc)
        sc.ioms = [q for (_, q) in cs]
        sc.tags["cand_kinds"] = [k for (k, _) in cs]
    sc.tags["want"] = "+".join(sorted(want)) or "none"
    return sc


# the canonical witnesses of the refuted theorems (Properties_C07: analysis_total_refuted, single_target_refuted) and the
# smallest lattices of every shape class
def probe_sz():
    return Scen([("A", 1, 1)], [], "default", tags={"probe": "spinless-site"})


def probe_sz2():
    return Scen([("A", 1, 1), ("B", 1, 1)], herm_pair(Fraction(1, 2), [(1, "A", 0, 0), (0, "B", 0, 0)]), "default", tags={"probe": "two-spinless-sites"})


def probe_mixed():
    return Scen([("A", 1, 2), ("B", 1, 1)], ["addLevel A 0.5", "addLevel B 0.25"], "default", tags={"probe": "mixed-spin"})


def probe_shift():
    return Scen([("A", 1, 2)], [], "custom", [[(Fraction(1), [(1, 0), (0, 0), (1, 1), (0, 1)])]], tags={"probe": "n0n1", "cand_kinds": ["product"]})


def probe_shift_hubbard():
    return Scen([("A", 1, 2)], ["addCoulombS A 2 -1"], "custom", [[(Fraction(1), [(1, 0), (0, 0), (1, 1), (0, 1)])]],
                tags={"probe": "hubbard-n0n1", "cand_kinds": ["product"]})


def fixed_scenarios():
    """tiny deterministic scenarios, run before the random ones: a failure is keyed by the first of these that shows it"""
    hop = herm_pair(Fraction(1), [(1, "A", 0, 0), (0, "B", 0, 0)])
    N2 = [n_op(0), n_op(1)]
    return [
        Scen([("A", 1, 2)], [], "default", tags={"fixed": 1}),
        Scen([("A", 1, 2)], ["addCoulombS A 2 -1"], "default", tags={"fixed": 2}),
        Scen([("A", 1, 2), ("B", 1, 2)], ["addHopping4 A B 1"], "default", tags={"fixed": 3}),
        Scen([("A", 1, 2), ("B", 1, 2)], ["addCoulombS A 2 -1", "addLevel B 0.5", "addHopping4 A B 0.5"], "default", tags={"fixed": 4}),
        Scen([("A", 1, 1), ("B", 1, 1)], hop, "custom", [N2], tags={"fixed": 5, "cand_kinds": ["N"]}),
        Scen([("A", 1, 1), ("B", 1, 1)], hop + ["addLevel A 0.5", "addLevel B 0.5"], "custom",
             [[(Fraction(1), [(1, 0), (0, 1)]), (Fraction(1), [(1, 1), (0, 0)])]], tags={"fixed": 6, "cand_kinds": ["hop-symmetry"]}),
        Scen([("A", 1, 1), ("B", 1, 1)], hop + ["addLevel A 0.5", "addLevel B 0.5"], "custom",
             [[(Fraction(1), [(1, 0), (0, 1)]), (Fraction(1), [(1, 1), (0, 0)])], N2], tags={"fixed": 7, "cand_kinds": ["hop-symmetry", "N"]}),
        Scen([("A", 1, 2)], [], "custom", [[n_op(0)], [n_op(1)]], tags={"fixed": 8, "cand_kinds": ["single-n", "single-n"]}),
        Scen([("A", 1, 2), ("B", 1, 2)], ["addHopping4 A B 1"], "ignore", tags={"fixed": 9}),
        Scen([("A", 1, 3)], ["addLevel A 0.5"], "default", tags={"fixed": 10}),
        Scen([("A", 2, 2)], ["addCoulombP3 A 2 0.5 -1"], "default", tags={"fixed": 11}),
        Scen([("A", 1, 2), ("B", 1, 2)], ["addHopping4 A B 1", "addHopping8 A B 0.5 0 0 0 1"], "default", tags={"fixed": 12}),
        Scen([("A", 1, 2)], ["addCoulombS A 1 -0.5"] + herm_pair(Fraction(1, 4), [(1, "A", 0, 0), (1, "A", 0, 1)]), "default", tags={"fixed": 13}),
        h_itself(Fraction(1, 2), Fraction(-1, 2), Fraction(1)),
    ] + nonlinear_fixed()


# ---------------------------------------------------------------------------------------------------------
# parsing

def hexfrac(tok):
    return Fraction(*float.fromhex(tok).as_integer_ratio())


def qfrac(tok):
    a, b = tok.split("/")
    return Fraction(int(a), int(b))


def parse_poly(t, p, impl):
    """returns (poly, next position); poly = [(coef, ((dag, idx), ...)), ...] in the order printed"""
    nt = int(t[p])
    p += 1
    out = []
    for _ in range(nt):
        if impl:
            c = hexfrac(t[p])
            if hexfrac(t[p + 1]) != 0:
                raise ValueError("complex coefficient")
            p += 2
        else:
            c = qfrac(t[p])
            p += 1
        ln = int(t[p])
        p += 1
        m = tuple((int(t[p + 2 * k]), int(t[p + 2 * k + 1])) for k in range(ln))
        p += 2 * ln
        out.append((c, m))
    return out, p


def nums(t, impl):
    if impl:
        for k in range(1, len(t), 2):
            if hexfrac(t[k]) != 0:
                raise ValueError("complex quantum number")
        return [hexfrac(t[k]) for k in range(0, len(t), 2)]
    return [qfrac(x) for x in t]


def parse_records(out, impl):
    """output of h_c07 (impl=True) or driver_c07 (impl=False) -> {case id: record}"""
    recs, cur = {}, None
    for line in out.split("\n"):
        t = line.split()
        if not t:
            continue
        tag = t[0]
        if tag == "CASE":
            cur = {"cands": [], "candthrow": [], "opers": [], "blocks": {}, "qn": {}, "states": {}, "ops": {}, "mapsto": {}, "throws": [],
                   "symm": None, "ended": False}
            recs[t[1]] = cur
        elif tag == "DIED":
            recs.setdefault(t[1], {"throws": []})["died"] = t[2]
        elif cur is None:
            continue
        elif tag == "ENDCASE":
            cur["ended"] = True
            cur = None
        elif tag == "ERROR":
            cur["error"] = " ".join(t[1:])
        elif tag == "N":
            cur["N"] = int(t[1])
        elif tag == "SPINS":
            cur["spins"] = [int(x) for x in t[1:]]
        elif tag == "HPOLY":
            cur["hpoly"] = parse_poly(t, 1, impl)[0]
        elif tag == "CAND":
            if impl:
                cur["cands"].append((int(t[1]), t[2], int(t[3]), parse_poly(t, 4, True)[0]))
            else:
                cur["cands"].append((int(t[1]), None, int(t[2]), None))
        elif tag == "CANDTHROW":
            cur["candthrow"].append(t[3])
        elif tag == "SYMM":
            cur["symm"] = (t[1], int(t[2]) if t[1] == "ok" else t[2])
        elif tag == "OPER":
            cur["opers"].append(parse_poly(t, 2, impl)[0])
        elif tag == "NBLOCKS":
            cur["nblocks"] = int(t[1])
        elif tag == "BLOCK":
            cur["blocks"][int(t[1])] = [int(x) for x in t[3:]]
        elif tag == "QN":
            if impl:
                cur["qn"][int(t[1])] = (int(t[2]), nums(t[3:], True))
            else:
                cur["qn"][int(t[1])] = (None, nums(t[2:], False))
        elif tag == "STATE":
            if len(t) > 2 and t[2].startswith("ERR"):
                cur["states"][int(t[1])] = t[2]
            else:
                cur["states"][int(t[1])] = (int(t[2]), int(t[3]), nums(t[4:], impl))
        elif tag == "HASH":
            cur["hash"] = " ".join(t[1:])
        elif tag == "ROUNDTRIP":
            cur["roundtrip"] = " ".join(t[1:])
        elif tag == "MAPSTO":
            cur["mapsto"][(t[1], int(t[2]), int(t[3]))] = dict((int(x.split(":")[0]), x.split(":")[1]) for x in t[4:])
        elif tag == "OP":
            key = (t[1], int(t[2]), int(t[3]))
            if t[4].startswith("ERR"):
                cur["ops"][key] = t[4]
                continue
            d, p = {}, 4
            while p < len(t):
                name, cnt = t[p], int(t[p + 1])
                d[name] = [(int(t[p + 2 + 2 * k]), int(t[p + 3 + 2 * k])) for k in range(cnt)]
                p += 2 + 2 * cnt
            cur["ops"][key] = d
        elif tag == "THROWS":
            cur["throws"].append(" ".join(t[1:]))
        elif tag == "DRIVERERR":
            cur["drivererr"] = " ".join(t[1:])
    return recs


def poly_tokens(poly):
    return "%d " % len(poly) + " ".join("%d/%d %d %s" % (c.numerator, c.denominator, len(m), " ".join("%d %d" % x for x in m)) for (c, m) in poly)


def driver_input(cid, rec, mode, fixed_sz, shiftfix):
    t = ["case %s %d %d %s" % (cid, fixed_sz, shiftfix, mode), "spins " + " ".join(map(str, rec["spins"])), "hpoly " + poly_tokens(rec["hpoly"])]
    if mode == "custom":
        for (_, kind, _, poly) in rec["cands"]:
            t.append("iom " + poly_tokens(poly))
    t.append("end")
    return "\n".join(t) + "\n"


# ---------------------------------------------------------------------------------------------------------
# the property, evaluated on the implementation's output with an independent Jordan-Wigner action

def act(mono, s):
    """mono: ((dag, idx), ...) applied right to left on the bit pattern s; returns (sign, t) or None"""
    sign = 1
    for (dag, i) in reversed(mono):
        occ = (s >> i) & 1
        if occ == dag:
            return None
        if bin(s & ((1 << i) - 1)).count("1") & 1:
            sign = -sign
        s ^= (1 << i)
    return sign, s


def matrix(poly, n):
    h = {}
    for (c, m) in poly:
        for s in range(1 << n):
            r = act(m, s)
            if r:
                h[(r[1], s)] = h.get((r[1], s), 0) + r[0] * c
    return {k: v for k, v in h.items() if v != 0}


def commute(a, b, n):
    def mul(x, y):
        r = {}
        bycol = {}
        for (i, k), v in x.items():
            bycol.setdefault(k, []).append((i, v))
        for (k, j), w in y.items():
            for (i, v) in bycol.get(k, []):
                r[(i, j)] = r.get((i, j), 0) + v * w
        return {k: v for k, v in r.items() if v != 0}
    return mul(a, b) == mul(b, a)


def property_failures(rec):
    """list of (kind, detail) for violations of the C07 statement visible in the implementation's own output"""
    f = []
    if rec.get("died"):
        return [("crash", "the analysis crashed (wait status %s)" % rec["died"])]
    if rec["symm"] and rec["symm"][0] == "throws":
        return [("analysis-throws", "Symmetrizer::compute threw %s" % rec["symm"][1])]
    if rec["throws"]:
        return [("analysis-throws", "exception escaped: %s" % rec["throws"][0])]
    n = rec["N"]
    size = 1 << n
    blocks = rec["blocks"]
    where = {}
    for b, st in blocks.items():
        for k, s in enumerate(st):
            if s in where:
                f.append(("partition", "state %d is in blocks %d and %d" % (s, where[s][0], b)))
            where[s] = (b, k)
    missing = [s for s in range(size) if s not in where]
    if missing or any(s >= size for s in where):
        f.append(("partition", "states %s are in no block" % missing[:5]))
    if f:
        return f
    for s in range(size):
        st = rec["states"].get(s)
        if not isinstance(st, tuple) or (st[0], st[1]) != where[s]:
            f.append(("address", "state %d: getBlockNumber/getInnerState = %s but it is stored at %s" % (s, st[:2] if isinstance(st, tuple) else st, where[s])))
            break
    if rec.get("roundtrip") != "ok":
        f.append(("address", "getFockState(getBlockNumber(s), getInnerState(s)) != s: " + str(rec.get("roundtrip"))))
    # H between blocks
    for (t, s), v in sorted(matrix(rec["hpoly"], n).items()):
        if where[t][0] != where[s][0]:
            f.append(("H-between-blocks", "<%d|H|%d> = %s but the states are in blocks %d and %d" % (t, s, v, where[t][0], where[s][0])))
            break
    # single target (over all operators first), then bimap content
    bim = None
    for key, op in sorted(rec["ops"].items()):
        kind, i, j = key
        mono = ((1, i),) if kind == "cdag" else ((0, i),) if kind == "c" else ((1, i), (0, j))
        pairs = {}
        for s in range(size):
            r = act(mono, s)
            if r:
                pairs.setdefault(where[s][0], set()).add(where[r[1]][0])
        multi = [(R, sorted(Ls)) for R, Ls in sorted(pairs.items()) if len(Ls) > 1]
        if multi:
            f.append(("multi-target", "%s maps block %d into blocks %s" % (opname(key), multi[0][0], multi[0][1])))
            return f
        if isinstance(op, dict) and bim is None:
            want = sorted((min(Ls), R) for R, Ls in pairs.items())
            if sorted(op["BM"]) != want:
                bim = ("bimap", "%s: block map is %s but the non-vanishing (left,right) pairs are %s" % (opname(key), sorted(op["BM"]), want))
    if bim:
        f.append(bim)
    return f


def opname(key):
    kind, i, j = key
    return "c^+_%d" % i if kind == "cdag" else "c_%d" % i if kind == "c" else "c^+_%d c_%d" % (i, j)


def compare(impl, model):
    """field-by-field differences between the implementation's record and the model's"""
    d = []
    if impl.get("died"):
        return ["implementation died (%s)" % impl["died"]]
    if model.get("drivererr"):
        return ["driver error " + model["drivererr"]]
    if impl["symm"] != model["symm"]:
        return ["SYMM impl %s model %s" % (impl["symm"], model["symm"])]
    if impl["symm"][0] == "throws":
        return d
    fi = [c[2] for c in impl["cands"]]
    fm = [c[2] for c in model["cands"]]
    if fi != fm:
        d.append("accept flags impl %s model %s" % (fi, fm))
    if [sorted(p) for p in impl["opers"]] != [sorted(p) for p in model["opers"]]:
        d.append("accepted operators differ")
    elif impl["opers"] != model["opers"]:
        d.append("monomial order of accepted operators differs")
    if impl["throws"] != model["throws"]:
        d.append("THROWS impl %s model %s" % (impl["throws"], model["throws"]))
    for fld in ("nblocks", "blocks", "states", "mapsto", "ops"):
        if impl.get(fld) != model.get(fld):
            a, b = impl.get(fld), model.get(fld)
            if isinstance(a, dict) and isinstance(b, dict):
                ks = [k for k in sorted(set(a) | set(b), key=str) if a.get(k) != b.get(k)]
                d.append("%s[%s]: impl %s model %s" % (fld, ks[0], a.get(ks[0]), b.get(ks[0])))
            else:
                d.append("%s: impl %s model %s" % (fld, a, b))
    if {b: q[1] for b, q in impl["qn"].items()} != {b: q[1] for b, q in model["qn"].items()}:
        d.append("block quantum numbers differ")
    return d


def hash_check(rec):
    """hash injectivity on the tuples that occur (assumption of the model), re-derived from the dump"""
    if rec.get("hash") != "ok":
        return "harness: HASH " + str(rec.get("hash"))
    byq = {}
    for s, st in rec["states"].items():
        if isinstance(st, tuple):
            byq.setdefault(tuple(st[2]), set()).add(st[0])
    if any(len(v) > 1 for v in byq.values()):
        return "states with equal quantum numbers lie in different blocks"
    hs = [q[0] for q in rec["qn"].values()]
    if len(set(hs)) != len(hs):
        return "two blocks share a hash"
    return None


# ---------------------------------------------------------------------------------------------------------

def run_impl(h, scens):
    inp = "".join("case %d\n%s\nend\n" % (k, sc.text()) for k, sc in enumerate(scens))
    rc, out, err = pv.run_harness(h, inp, timeout=900)
    return parse_records(out, True), rc, err


def history_groups(rng, scens, recs, quick):
    """groups of scenarios to be analysed one after the other in ONE process: the same lattice under ignore / default / its own
    candidate list in a random order, and two different lattices with the same number of modes alternating"""
    usable = [k for k, sc in enumerate(scens) if "error" not in recs[str(k)] and not recs[str(k)].get("died") and 2 <= recs[str(k)].get("N", 0) <= 5
              and recs[str(k)].get("nblocks", 0) > 1]
    byn = {}
    for k in usable:
        byn.setdefault(recs[str(k)]["N"], []).append(k)
    groups = []

    def variant(sc, mode):
        v = sc.copy()
        v.mode = mode
        return v
    pick = rng.sample(usable, min(len(usable), 14 if quick else 120))
    for k in pick:
        sc = scens[k]
        g = [sc] + [variant(sc, m) for m in ("ignore", "default") if m != sc.mode]
        rng.shuffle(g)
        groups.append(("same lattice, other analysis", g + [g[0]]))
    for n, ks in sorted(byn.items()):
        ks = list(ks)
        rng.shuffle(ks)
        for a, b in list(zip(ks[0::2], ks[1::2]))[:(5 if quick else 40)]:
            A, B = scens[a], scens[b]
            groups.append(("two lattices of the same size", [A, B, variant(A, "ignore"), variant(B, "ignore"), A]))
    return groups


def rec_first_diff(a, b):
    for key in sorted(set(a) | set(b), key=lambda k: (0 if k in ("nblocks", "blocks", "states") else 1, k)):
        x, y = a.get(key), b.get(key)
        if x == y:
            continue
        if isinstance(x, dict) and isinstance(y, dict):
            for k2 in sorted(set(x) | set(y), key=str):
                if x.get(k2) != y.get(k2):
                    return "%s[%s] = %s instead of %s" % (key, k2, str(x.get(k2))[:120], str(y.get(k2))[:120])
        return "%s = %s instead of %s" % (key, str(x)[:120], str(y)[:120])
    return None


def run_histories(h, groups):
    """-> [(kind, items, position of the first case whose records differ from its own-process run | None, text)]"""
    inp = ""
    for g, (kind, items) in enumerate(groups):
        for p_, sc in enumerate(items):
            inp += "case own_%d_%d\n%s\nend\n" % (g, p_, sc.text())
        inp += "seq %d\n" % g + "".join("case seq_%d_%d\n%s\nend\n" % (g, p_, sc.text()) for p_, sc in enumerate(items)) + "endseq\n"
    rc, out, err = pv.run_harness(h, inp, timeout=900)
    recs = parse_records(out, True)
    res = []
    for g, (kind, items) in enumerate(groups):
        bad = None
        for p_ in range(len(items)):
            own, sq = recs.get("own_%d_%d" % (g, p_)), recs.get("seq_%d_%d" % (g, p_))
            if own is None or own.get("died") or not own.get("ended"):
                break           # the case does not run on its own either: not a matter of histories
            if sq is None or not sq.get("ended"):
                bad = (p_, "the process died (wait status %s) while analysing this case" % recs.get("seq%d" % g, {}).get("died", "?"))
                break
            d = rec_first_diff(sq, own)
            if d:
                bad = (p_, d)
                break
        res.append((kind, items, bad))
    return res


def run_model(drv, scens, recs, fixed_sz, shiftfix):
    inp = ""
    for k, sc in enumerate(scens):
        r = recs.get(str(k))
        if r and "N" in r and "hpoly" in r:
            inp += driver_input(str(k), r, sc.mode, fixed_sz, shiftfix)
    rc, out, err = pv.sh([drv], input=inp, timeout=900)
    return parse_records(out, False), rc, err


def conservation(rec):
    """which of N / S_z the Hamiltonian conserves, from the polynomial itself"""
    n, sp = True, True
    valid = all(s in (0, 1) for s in rec["spins"])
    for (c, m) in rec["hpoly"]:
        dn = sum(1 if d else -1 for (d, _) in m)
        if dn != 0:
            n = False
        if valid:
            ds = sum((1 if d else -1) * (1 if rec["spins"][i] == 1 else -1) for (d, i) in m)
            if ds != 0:
                sp = False
    return "+".join(([("N")] if n else []) + (["Sz"] if (valid and sp) else [])) or "none"


def shrink(sc, still_fails):
    """greedy: drop lines, candidates, terms of candidates while the failure persists"""
    cur = sc.copy()
    changed = True
    while changed:
        changed = False
        for k in range(len(cur.lines)):
            t = cur.copy()
            del t.lines[k]
            if still_fails(t):
                cur, changed = t, True
                break
        if changed:
            continue
        for k in range(len(cur.ioms)):
            if len(cur.ioms) > 1:
                t = cur.copy()
                del t.ioms[k]
                if still_fails(t):
                    cur, changed = t, True
                    break
            for j in range(len(cur.ioms[k])):
                if len(cur.ioms[k]) > 1:
                    t = cur.copy()
                    del t.ioms[k][j]
                    if still_fails(t):
                        cur, changed = t, True
                        break
            if changed:
                break
        if changed:
            continue
        # drop a site that nothing refers to (custom candidates use global indices: only when there are none)
        if len(cur.sites) > 1 and cur.mode != "custom":
            for k in range(len(cur.sites)):
                lab = cur.sites[k][0]
                if any((" %s " % lab) in (l + " ") for l in cur.lines):
                    continue
                t = cur.copy()
                del t.sites[k]
                if still_fails(t):
                    cur, changed = t, True
                    break
    return cur


def setup():
    pv.build_driver("driver_c07", ["C07_model"])
    pv.build_harness("h_c07")


def detect_variant(h, drv):
    """which of the modelled repairs the code under /repo contains: probe scenarios on which the variants differ"""
    probes = [probe_sz(), probe_shift()]
    recs, rc, err = run_impl(h, probes)
    fixed_sz = 1 if (recs.get("0", {}).get("symm") or ("throws",))[0] == "ok" else 0
    r1 = recs.get("1", {})
    shiftfix = 1 if (r1.get("symm") == ("ok", 0)) else 0
    return fixed_sz, shiftfix


def generated_variant():
    """the variant of the model that the SOURCE TEXT selects: what translator/gen_symm.py read off Symmetrizer.cpp / Symmetrizer.h /
    FieldOperator.cpp into coq/gen/Gen_Symm*.v (the snapshot where a fragment was untranslatable), i.e. the configuration the
    theorems of props/Properties_C07_source.v are stated about, expressed in the two switches the probes establish"""
    import os
    import sys
    sys.path.insert(0, os.path.join(pv.ROOT, "translator"))
    try:
        import gen_symm
        f = gen_symm.python_facts(os.path.join(pv.COQ, "gen"))
        grid = [(u, n) for n in range(0, 9) for u in range(0, n + 1)]
        g = f["sz_guard"]
        if all(bool(g(u, n)) == (2 * u == n) for (u, n) in grid):
            fz = 1                          # S_z offered iff as many up as down indices: the repaired compute(bool)
        elif all(bool(g(u, n)) for (u, n) in grid):
            fz = 0                          # S_z constructed whenever all labels are up/down: the unrepaired one
        else:
            fz = "neither (guard differs from both modelled variants, first at (#up, IndexSize) = %s)" % (
                [(u, n) for (u, n) in grid if bool(g(u, n)) != (2 * u == n)][0],)
        return {"fixed_sz": fz, "shiftfix": 1 if "TestUniformShift" in f["tests"] else 0, "tests": f["tests"],
                "hash_is_ordered": f["hash_is_ordered"], "prepare_visits_all_blocks": f["prepare_visits_all_blocks"]}
    except Exception as ex:
        return {"error": repr(ex)}


def run(chk):
    quick = chk.tier == "quick"
    chk.prove(["extract/Extract_C07.vo"], extra_props=["Properties_C07_source.v", "Properties_C07_statics.v"])
    chk.trusted += ["extraction: ExtrOcamlBasic, ExtrOcamlNatInt (nat -> OCaml int; indices < 10, state labels < 2^8); Z and Q stay inductive",
                    "ocaml/driver_c07.ml, harness/h_c07.cpp + ed_common.h (scenario interpreter), Python comparison with exact fractions",
                    "the Hamiltonian polynomial and the candidate polynomials are taken from the harness (HPOLY / CAND records); that HPOLY is the "
                    "right polynomial for the lattice is property C04"]
    chk.assume += ["boost::hash of the quantum-number vector is injective on the tuples that occur (checked per run: HASH record and re-derived from the STATE records)",
                   "amplitudes and candidate coefficients are small dyadic rationals: the doubles are exact, the C++ threshold tests coincide with exact zero tests",
                   "real build; custom candidates are generated for the site-major index order (default / ignored analysis also in spin-major order)"]
    setup()
    h = pv.build_harness("h_c07")
    drv = pv.build_driver("driver_c07", ["C07_model"])
    fixed_sz, shiftfix = detect_variant(h, drv)
    chk.extra["code_variant"] = {"fixed_sz": fixed_sz, "shiftfix": shiftfix}
    # cross-check: the variant the probes establish must be the one the translator reads off the source text (the configuration
    # the theorems of Properties_C07_source.v are about); a disagreement means the proofs talk about another code than the one run
    gv = generated_variant()
    chk.extra["generated_variant"] = gv
    if gv.get("error"):
        chk.tie_broken("generated-vs-probed-variant", "the generated configuration (coq/gen/Gen_Symm*.v) could not be read: " + gv["error"])
    elif (gv["fixed_sz"], gv["shiftfix"]) != (fixed_sz, shiftfix):
        chk.tie_broken("generated-vs-probed-variant",
                       "probe scenarios establish fixed_sz=%d shiftfix=%d; the source text (translator/gen_symm.py -> coq/gen/Gen_Symm.v, Gen_SymmDefault.v; "
                       "translator status %s) selects fixed_sz=%s shiftfix=%s" % (
                           fixed_sz, shiftfix, {k: v for k, v in (chk.extra.get("translator") or {}).items() if k.startswith("Gen_Symm")},
                           gv["fixed_sz"], gv["shiftfix"]))

    probes = [probe_sz(), probe_sz2(), probe_mixed(), probe_shift(), probe_shift_hubbard()]
    fixed = fixed_scenarios()
    scens = list(probes) + fixed
    nfix = len(scens)
    ncases = 1200 if quick else 6000
    for _ in range(ncases):
        scens.append(gen_scenario(chk.rng))
    for _ in range(ncases // 4):
        scens.append(gen_nonlinear(chk.rng))
    recs, rc, err = run_impl(h, scens)
    if len([r for r in recs.values() if r.get("ended") or r.get("died")]) != len(scens):
        # the batch stopped: the first case without an answer is analysed in a process of its own; when the analysis of that lattice
        # crashes or hangs there as well, that lattice is the failing input ("the analysis completes without error for every lattice")
        first = next((k for k in range(len(scens)) if not (recs.get(str(k), {}).get("ended") or recs.get(str(k), {}).get("died"))), None)
        if first is not None:
            inp1 = "case 0\n%s\nend\n" % scens[first].text()
            rc1, out1, err1 = pv.run_harness(h, inp1, timeout=120)
            r1 = parse_records(out1, True).get("0", {})
            if rc1 != 0 or not (r1.get("ended") or r1.get("died")) or r1.get("died"):
                small = scens[first]
                chk.violation("analysis-crashes: " + small.canon(),
                              "the symmetry analysis / block construction of this lattice %s in a process of its own (exit code %s): %s"
                              % ("does not finish within 120 s" if rc1 == 124 else "crashes", rc1, (pv.sanitizer_digest(err1) or err1[-300:]).strip()[-300:]),
                              {"harness": "h_c07", "scenario": small.text()})
                return
        # nothing when run alone: memory corrupted by an earlier case only shows later.  The same batch under AddressSanitizer stops at
        # the first invalid access, i.e. inside the case that makes it
        try:
            ha = pv.build_harness("h_c07", "asan")
            inp = "".join("case %d\n%s\nend\n" % (k, sc.text()) for k, sc in enumerate(scens))
            rca, outa, erra = pv.run_harness(ha, inp, timeout=900)
            ra = parse_records(outa, True)
            # (the harness analyses every case in a forked child: under ASan the child that makes the access dies with a report)
            ka = next((k for k in range(len(scens)) if ra.get(str(k), {}).get("died") or not ra.get(str(k), {}).get("ended")), None)
            dig = pv.sanitizer_digest(erra)
            if ka is not None and dig:
                chk.violation("analysis-corrupts-memory: " + scens[ka].canon(),
                              "the symmetry analysis / block construction of this lattice makes an invalid memory access (AddressSanitizer build of the "
                              "same harness and batch; the plain build died %d cases later): %s" % ((first or 0) - ka, dig[:400]),
                              {"harness": "h_c07", "variant": "asan", "scenario": scens[ka].text()})
                return
        except pv.BuildError as ex:
            chk.notes.append("ASan build of h_c07 unavailable: %s" % str(ex)[:200])
        chk.tie_broken("h_c07", "harness answered %d of %d cases (rc=%d) %s" % (len(recs), len(scens), rc, err[-300:]))
        return
    mods, rc2, err2 = run_model(drv, scens, recs, fixed_sz, shiftfix)

    def fails_kind(kind):
        def f(t):
            r, _, _ = run_impl(h, [t])
            r = r.get("0")
            return bool(r) and "error" not in r and any(k == kind for (k, _) in property_failures(r))
        return f

    canonical = {}    # kind -> canonical key, when a canonical witness of a refuted theorem itself fails on this tree
    failures = {}     # kind -> [(index, scenario, detail)] not attributed to a canonical witness
    tie_fail = None
    for k, sc in enumerate(scens):
        r = recs[str(k)]
        if "error" in r:
            chk.case(sc.canon(), "lattice-stage-error", False)
            continue
        accepted = [c[2] for c in r["cands"]]
        kinds = sc.tags.get("cand_kinds") or ([c[1] for c in r["cands"]] + r["candthrow"] if sc.mode == "default" else [])
        sig = "%s | H conserves %s | %s%s" % (shape_class(sc.sites), conservation(r), sc.mode, " spin-major" if sc.tags.get("order_spins") else "")
        if sc.mode == "custom":
            sig += " " + ",".join("%s:%s" % (kd, "acc" if a else "rej") for kd, a in zip(kinds, accepted))
        elif sc.mode == "default":
            sig += " " + ",".join("%s:%s" % (c[1], "acc" if c[2] else "rej") for c in r["cands"]) + (",Sz:throws" if r["candthrow"] else "")
        pf = property_failures(r)
        nontrivial = r.get("nblocks", 0) > 1 or sc.mode == "ignore" or bool(pf)
        chk.case(sc.canon(), sig[:160], nontrivial,
                 {"scenario": sc.canon(), "blocks": r.get("nblocks"), "accepted": accepted} if k >= nfix and len(chk.samples) < 6 else None)
        hc = None if (r["symm"] and r["symm"][0] == "throws") or r.get("died") or pf else hash_check(r)
        if hc:
            chk.tie_broken("hash-injectivity", "%s: %s" % (sc.canon(), hc))
        # --- model vs implementation
        m = mods.get(str(k))
        if m is None:
            tie_fail = tie_fail or (sc, ["model driver produced no record: %s" % err2[-200:]])
        else:
            diff = compare(r, m)
            if diff and (tie_fail is None or len(sc.canon()) < len(tie_fail[0].canon())):
                tie_fail = (sc, diff)
        # --- the property itself
        for (kind, detail) in pf[:1]:
            if kind in ("multi-target", "bimap") and sc.mode == "custom":
                bad = [str(kd) for kd, (_, _, a, p) in zip(kinds, r["cands"]) if a and not uniform_shift(p, r["N"])]
                if bad:
                    detail += "; accepted candidate%s %s change%s by a state-dependent amount under some c^+_i" % (
                        "s" if len(bad) > 1 else "", ", ".join(bad), "" if len(bad) > 1 else "s")
            if k < len(probes):
                key = "%s: %s" % (kind, sc.canon())
                canonical.setdefault(kind, key)
                chk.violation(canonical[kind], detail + " (canonical witness of the refuted theorem, variant fixed_sz=%d shiftfix=%d)" % (fixed_sz, shiftfix),
                              {"harness": "h_c07", "scenario": sc.text(), "kind": kind, "detail": detail})
                continue
            known_cause = False
            if kind == "analysis-throws" and kind in canonical and not r["throws"]:
                ups = sum(1 for s in r["spins"] if s == 1)
                known_cause = sc.mode == "default" and all(s in (0, 1) for s in r["spins"]) and 2 * ups != r["N"]
            if kind in ("multi-target", "bimap") and ("multi-target" in canonical):
                # cause: an accepted candidate that does not shift uniformly
                if sc.mode == "custom" and any(a and not uniform_shift(p, r["N"]) for (_, _, a, p) in r["cands"]):
                    known_cause, kind = True, "multi-target"
            if known_cause:
                chk.violation(canonical[kind], detail, {"harness": "h_c07", "scenario": sc.text()})
            else:
                failures.setdefault(kind, []).append((k, sc, detail))
    # one violation per kind: the first fixed scenario that shows it, else the smallest random one, shrunk
    for kind, lst in sorted(failures.items()):
        fx = [x for x in lst if x[0] < nfix]
        if fx:
            k, sc, detail = fx[0]
            small = sc
        else:
            k, sc, detail = min(lst, key=lambda x: (len(x[1].canon()), x[1].canon()))
            small = shrink(sc, fails_kind(kind))
            rr, _, _ = run_impl(h, [small])
            d2 = [d for (kd, d) in property_failures(rr.get("0", {"symm": None, "throws": ["?"]})) if kd == kind] if rr.get("0") else []
            detail = d2[0] if d2 else detail
        chk.violation("%s: %s" % (kind, small.canon()), "%s (%d of %d cases fail this way)" % (detail, len(lst), len(scens)),
                      {"harness": "h_c07", "scenario": small.text(), "kind": kind, "detail": detail, "original": sc.text()})
    # --- histories: several analyses in ONE process must give what each gives in a process of its own (block numbers, inner
    #     indices, quantum numbers, operator maps: every record)
    groups = history_groups(chk.rng, scens, recs, quick)
    hres = run_histories(h, groups)
    hfail = {}
    for kind, items, bad in hres:
        chk.case("history " + " -> ".join(sc.canon() for sc in items), "history: %s | %d analyses in one process" % (kind, len(items)), True)
        if bad and (kind not in hfail or sum(len(sc.canon()) for sc in items) < sum(len(sc.canon()) for sc in hfail[kind][0])):
            hfail[kind] = (items, bad, sum(1 for (k2, _, b2) in hres if k2 == kind and b2))
    for kind, (items, (pos, detail), count) in sorted(hfail.items()):
        hist = items[:pos + 1]
        for j in range(pos):        # shrink to two analyses
            r2 = run_histories(h, [(kind, [items[j], items[pos]])])[0][2]
            if r2 and r2[0] == 1:
                hist, detail = [items[j], items[pos]], r2[1]
                break
        chk.violation("history-dependence: " + " -> ".join(sc.canon() for sc in hist),
                      "analysing %s AFTER %s in the same process gives %s (second value: the same analysis in a process of its own); "
                      "%d of %d histories of kind `%s` fail" % (hist[-1].canon(), " and ".join(sc.canon() for sc in hist[:-1]), detail, count,
                                                              sum(1 for (k2, _, _) in hres if k2 == kind), kind),
                      {"harness": "h_c07", "history": [sc.text() for sc in hist], "kind": "history-dependence", "detail": detail})
    if tie_fail:
        sc, diff = tie_fail
        chk.tie_broken("model-vs-implementation", "variant fixed_sz=%d shiftfix=%d; %s: %s" % (fixed_sz, shiftfix, sc.canon(), "; ".join(diff)[:600]))
    chk.rule = ("probes: the canonical witnesses (one spinless site; two spinless sites with hopping; a 2-spin and a spinless site; one 2-spin site with "
                "candidate n_0 n_1, with and without Hubbard terms). Random: 1-3 sites with 1-3 orbitals and 1-3 spins (<= 6 modes; homogeneous 2-spin, "
                "spinless, mixed, 3-spin, multi-orbital), Hamiltonians from presets (addLevel, addCoulombS/P, addMagnetization, addHopping, addSS) and raw "
                "hermitian term pairs (levels, density-density, spin-conserving hopping, spin-flip hopping, pair creation, quartic exchange), respecting or "
                "breaking N / S_z on purpose; symm default / ignore / custom with 1-4 candidates (N, S_z, site / orbital / spin charges, random linear forms, "
                "constants, the empty operator, n_i, products n_i n_j and n_i n_j n_k, double occupancy, N^2, hopping-like and pair-like non-diagonal "
                "operators, members of the non-linear family of checks/diagfam.py). Targeted (a quarter as many again): models in which non-linear "
                "diagonal operators are conserved (diagonal H; Heisenberg / Ising exchange without hopping on 2-3 sites; decoupled clusters; "
                "spin-conserving hopping) with 1-3 members of the family -- products of two / three linear forms of both signs, squares, polynomials "
                "of N, projectors, parity, `balanced` products, linear-in-disguise -- alone or between linear candidates; 14 deterministic minimal ones "
                "run first. Histories: 14-120 lattices analysed under ignore / default / their own candidate list one after the other in ONE process, "
                "and pairs of different lattices with the same number of modes alternating; every record compared with the analysis in a process "
                "of its own. Distinct = distinct scenario text; non-trivial = more than one block, or symmetries ignored, or a failure. Signature = lattice "
                "shape class | conservation class of H | mode and candidate kinds with accepted/rejected.")


def uniform_shift(poly, n):
    """does the (diagonal) operator change by a state-independent amount under every c^+_i ?"""
    m = matrix(poly, n)
    d = [m.get((s, s), 0) for s in range(1 << n)]
    for i in range(n):
        sh = set(d[s | (1 << i)] - d[s] for s in range(1 << n) if not (s >> i) & 1)
        if len(sh) > 1:
            return False
    return True


def replay(chk, path):
    import json
    r = json.load(open(path))
    rp = r.get("replay", {})
    if isinstance(rp, dict) and "history" in rp:
        h = pv.build_harness("h_c07")
        hist = rp["history"]
        inp = "case own\n%s\nend\n" % hist[-1] + "seq 0\n" + "".join("case seq%d\n%s\nend\n" % (k, t) for k, t in enumerate(hist)) + "endseq\n"
        rc, out, err = pv.run_harness(h, inp)
        recs = parse_records(out, True)
        print("last analysis of the history vs the same analysis in a process of its own:",
              rec_first_diff(recs.get("seq%d" % (len(hist) - 1), {}), recs.get("own", {})) or "no difference")
        return 0
    if isinstance(rp, dict) and "scenario" in rp:
        h = pv.build_harness("h_c07", rp.get("variant", "real"))
        rc, out, err = pv.run_harness(h, "case 0\n%s\nend\n" % rp["scenario"])
        print("implementation:\n" + out)
        if rp.get("variant") == "asan":
            print("exit code %s\n%s" % (rc, pv.sanitizer_digest(err)))
        rec = parse_records(out, True).get("0", {})
        if rec and "error" not in rec:
            for f in property_failures(rec):
                print("PROPERTY FAILS: %s: %s" % f)
        return 0
    run(chk)
    return chk.finish()
