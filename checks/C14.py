"""C14 -- the dynamical susceptibility equals its definition, including the static limit.

Proof: props/Properties_C14.v (walk complete; part = sum_{nm} A_nm B_mn (resonant ? [W=0] beta w_n : (w_m-w_n)/(z-P)) in exact
form; bosonic term integral incl. P = 0 = W giving beta w_n; subtraction differs by beta<A><B> exactly where the zero test fires
(= n = 0 on the Matsubara axis) and by <A><B> in imaginary time; the three ways of supplying <A>,<B> coincide; tau and frequency
forms of a term are Fourier-consistent; stripes complete), over models whose leaf expressions come from the source on every run
(coq/gen/Gen_C01.v).

Ties: (T) translator/gen_c01.py;  (C1) per-part term lists, ZeroPoleWeight, EnsembleAverage, values for all four subtraction
modes: harness/h_c01.cpp (raw compressed matrices of the quadratic operators) vs the extracted PV.SuscPart;  (C2) end-to-end:
Susceptibility::operator()(n), of_tau vs PV.EDSpec.susc / susc_tau on the full Fock space, tolerance 1e-11*scale + documented
truncation bound (PV.TruncSpec); (C3) relations checked on the library's own numbers: modes 1,2,3 identical; mode k - mode 0 =
-beta<A><B> at n = 0 and 0 elsewhere; of_tau(mode 1) - of_tau(mode 0) = -<A><B>.
Every tier includes the deterministic low-temperature family LOWTEMP (beta*|pole| ~ 1000 .. 3200, thorough: 80000; poles of both
signs with residues of order one) on a nine-point tau grid with both ends and points on either side of 709.78/|pole|; the
reference for chi(tau) there is PV.TruncSpec.susc_tau_safe (all exponents <= 0).
"""
import json
import re

import pv
import edlib
import scen
import c01lib as L

hx = float.fromhex
NOISE = 1e-11


def quadruples(rng, n, tier, spinless=False):
    """(a,b,c,d): A = c^+_a c_b, B = c^+_c c_d. Density-density, S_z-changing pairs (a,b,b,a), hopping-like, random."""
    qs = []
    qs += [(a, a, c, c) for a in range(n) for c in range(n)]                      # density-density
    qs += [(a, b, b, a) for a in range(n) for b in range(n) if a != b]            # A = c^+_a c_b, B = A^+ (changes S_z when a,b differ in spin)
    qs += [(a, b, a, b) for a in range(n) for b in range(n) if a != b]
    qs += [(rng.randrange(n), rng.randrange(n), rng.randrange(n), rng.randrange(n)) for _ in range(6)]
    if tier == "quick":
        dd = [q for q in qs if q[0] == q[1] and q[2] == q[3]]
        sf = [q for q in qs if q[0] != q[1] and (q[2], q[3]) == (q[1], q[0])]
        ot = [q for q in qs if q not in dd and q not in sf]
        rng.shuffle(dd), rng.shuffle(sf), rng.shuffle(ot)
        return dd[:3] + sf[:3] + ot[:2]
    out, seen = [], set()
    for q in qs:
        if q not in seen:
            seen.add(q)
            out.append(q)
    rng.shuffle(out)
    return out[:24]


def kind_of(q, nmodes):
    a, b, c, d = q
    if a == b and c == d:
        return "density"
    if (c, d) == (b, a):
        return "flip-conj"
    return "other"


def end_to_end(chk, fam, text, nmodes, symm, variant, quads, ns, taus, negl_of=None, record=True):
    tie_broken = chk.tie_broken if record else (lambda *a: None)     # candidates tried while shrinking raise no alarms
    qs = []
    for q in quads:
        for mode in (0, 1, 2, 3):
            qs.append("susc %d %d %d %d %d %s" % (q + (mode, " ".join(str(n) for n in ns))))
        for mode in (0, 1):
            qs.append("susctau %d %d %d %d %d %s" % (q + (mode, " ".join(repr(t) for t in taus))))
    r = edlib.run(text, qs, variant=variant)
    fails = []
    if r.crash or r.error:
        return [("crash", r.crash or r.error)], r
    if r.cert is None or max(r.cert) > 1e-9:
        tie_broken("eigen-certificate", "residuals %r for %s" % (r.cert, L.canon(text)))
        return [], r
    beta = r.beta()
    try:
        bq = []
        for q in quads:
            bq.append("suscbound %d %d %d %d %d %s" % (q + (len(ns), " ".join(str(n) for n in ns))))
            bq.append("susctaubound %d %d %d %d" % q)
            bq.append("susctauspec %d %d %d %d %s" % (q + (" ".join(repr(t) for t in taus),)))
        bl = L.oracle_bounds(r, bq)
        have_bounds = True
    except Exception as ex:
        tie_broken("driver_c01 (truncation bound)", repr(ex)[:300])
        bl, have_bounds = [], False
    bN = [t for t in bl if t[0] == "SUSCBOUNDN"]
    bT = [t for t in bl if t[0] == "SUSCTAUBOUND"]
    bS = {tuple(int(x) for x in t[1:5]): t for t in bl if t[0] == "SUSCTAUSPEC"}
    S = {}
    for t in r.get("impl", "SUSC"):
        S[(tuple(int(x) for x in t[1:5]), int(t[5]))] = t
    O = {}
    for t in r.get("oracle", "SUSC"):
        O[(tuple(int(x) for x in t[1:5]), int(t[5]))] = t
    ST = {(tuple(int(x) for x in t[1:5]), int(t[5])): t for t in r.get("impl", "SUSCTAU")}
    OT = {(tuple(int(x) for x in t[1:5]), int(t[5])): t for t in r.get("oracle", "SUSCTAU")}
    avg = r.get("impl", "SUSCAVG")
    oavg = r.get("oracle", "SUSCAVG")
    worst_res = 0.0
    for k, q in enumerate(quads):
        if any((q, m) not in S or (q, m) not in O for m in (0, 1, 2, 3)):
            tie_broken("missing record", "susc %s in %s" % (q, L.canon(text)))
            continue
        negl = negl_of(q) if negl_of else 0.0
        dropped_any = False
        nonzero = False
        zero_weight_seen = False
        aveA, aveB = L.cplx(avg[4 * k], 1), L.cplx(avg[4 * k], 3)
        oA, oB = L.cplx(oavg[4 * k], 1), L.cplx(oavg[4 * k], 3)
        if abs(aveA - oA) > 1e-12 * (1 + abs(oA)) or abs(aveB - oB) > 1e-12 * (1 + abs(oB)):
            fails.append((q, "average", "<A>,<B>", (aveA, aveB), (oA, oB), 1e-12))
        vals = {}
        for mode in (0, 1, 2, 3):
            ti, to = S[(q, mode)], O[(q, mode)]
            for p, n in enumerate(ns):
                vi, vo = L.cplx(ti, 8 + 3 * p), L.cplx(to, 7 + 3 * p)
                vals[(mode, n)] = vi
                if have_bounds:
                    b = bN[k]
                    drop, merge, reson, abssum = (hx(b[3 + 5 * p]), hx(b[4 + 5 * p]), hx(b[5 + 5 * p]), hx(b[6 + 5 * p]))
                else:
                    drop, merge, reson, abssum = 1e-6, 0.0, 0.0, abs(vo)
                worst_res = max(worst_res, reson)
                dropped_any = dropped_any or drop > 0
                nonzero = nonzero or abs(vo) > 1e-13
                allowed = NOISE * (1.0 + abs(vo) + abssum + beta * abs(oA * oB) + (beta if n == 0 else 0.0)) + drop + merge + negl
                if not (abs(vi - vo) <= allowed):
                    fails.append((q, "value", "mode=%d n=%d" % (mode, n), vi, vo, allowed))
        # copies (h_ed prints SUSCCOPY: a Susceptibility copy-constructed after subtractDisconnected, same layout as SUSC): a
        # copy handed around by value (std::vector reallocation, pass by value) must evaluate to what the original does
        SC = {(tuple(int(x) for x in t[1:5]), int(t[5])): t for t in r.get("impl", "SUSCCOPY")}
        for mode in (0, 1, 2, 3):
            tc = SC.get((q, mode))
            if tc is None:
                continue
            for p, n in enumerate(ns):
                vc = L.cplx(tc, 8 + 3 * p)
                if vc != vals[(mode, n)] and not (abs(vc - vals[(mode, n)]) <= 1e-14 * (1 + abs(vals[(mode, n)]))):
                    fails.append((q, "copy", "mode=%d n=%d (value read from a copy of the object)" % (mode, n), vc, vals[(mode, n)], 1e-14))
        # (C3) relations on the library's own numbers
        for n in ns:
            for mode in (2, 3):
                if vals[(mode, n)] != vals[(1, n)] and abs(vals[(mode, n)] - vals[(1, n)]) > 1e-14 * (1 + abs(vals[(1, n)])):
                    fails.append((q, "supply", "mode=%d n=%d" % (mode, n), vals[(mode, n)], vals[(1, n)], 1e-14))
            diff = vals[(1, n)] - vals[(0, n)]
            want = -beta * aveA * aveB if n == 0 else 0.0
            tol = 1e-13 * (1 + abs(vals[(0, n)]) + beta * abs(aveA * aveB))
            if abs(diff - want) > tol:
                fails.append((q, "subtract", "n=%d" % n, diff, want, tol))
        # imaginary time
        if (q, 0) in ST and (q, 0) in OT and (q, 1) in ST:
            tdrop, tmerge = (hx(bT[k][1]), hx(bT[k][2])) if have_bounds and k < len(bT) else (1e-6, 0.0)
            for p, tau in enumerate(taus):
                for mode in (0, 1):
                    vi, vo = L.cplx(ST[(q, mode)], 6 + 2 * p), L.cplx(OT[(q, mode)], 6 + 2 * p)
                    if q in bS:      # overflow-safe form of the same specification (large beta)
                        vo = L.cplx(bS[q], 5 + 2 * p) - (oA * oB if mode else 0.0)
                    elif vo != vo:
                        continue     # the binary64 oracle overflowed (inf * 0): no statement
                    allowed = NOISE * (1.0 + abs(vo) + abs(oA * oB)) * 10 + tdrop + tmerge + negl
                    if not (abs(vi - vo) <= allowed):
                        fails.append((q, "tau", "mode=%d tau=%r" % (mode, tau), vi, vo, allowed))
                d = L.cplx(ST[(q, 1)], 6 + 2 * p) - L.cplx(ST[(q, 0)], 6 + 2 * p)
                if abs(d + aveA * aveB) > 1e-13 * (1 + abs(aveA * aveB) + abs(L.cplx(ST[(q, 0)], 6 + 2 * p))):
                    fails.append((q, "subtract-tau", "tau=%r" % tau, d, -aveA * aveB, 1e-13))
        if record:
            static = abs(vals[(0, 0)]) > 1e-13
            sig = "%s|%s|symm=%s|%s|dropped=%s|%s" % (re.sub(r'-beta.*|-cplx', '', fam), kind_of(q, nmodes), symm, variant,
                                                      "yes" if dropped_any else "no", "nonzero" if nonzero else "vanishing")
            chk.case("C14 %s | susc %d %d %d %d" % ((L.canon(text),) + q), sig, nontrivial=nonzero,
                     sample={"scenario": L.canon(text), "quad": list(q), "chi(n=0)": str(vals[(0, 0)]), "chi(n=0) subtracted": str(vals[(1, 0)]),
                             "aveA": str(aveA), "aveB": str(aveB)} if (nonzero and kind_of(q, nmodes) == "flip-conj") else None)
    chk.extra["max_resonance_approximation"] = max(chk.extra.get("max_resonance_approximation", 0.0), worst_res)
    return fails, r


def term_correspondence(chk, fam, text, symm, variant, quads, ns, negl):
    nt = "n %d %s" % (len(ns), " ".join(str(n) for n in ns))
    rq = [("suscraw %d %d %d %d 1 0 0 %s" % (q + (nt,)), "suscmodel 1 0 0 %s" % nt) for q in quads]
    res, derr, crash, head = L.run_raw(text, rq, variant=variant)
    if derr:
        chk.tie_broken("driver_c01", derr)
        return
    if crash:
        chk.tie_broken("h_c01", "harness exit %s on %s: %s" % (crash[0], L.canon(text), crash[1][:300]))
    for q, r in zip(quads, res):
        if not r.model or L.recs(r.model, "MODELFAIL") or L.recs(r.model, "DRIVER-ERROR"):
            chk.tie_broken("model evaluation", "susc %s of %s: %s" % (q, L.canon(text), r.model[:2]))
            continue
        if L.recs(r.model, "WF")[0][1] != "1":
            chk.tie_broken("cs_wf", "a dumped matrix is not a well-formed compressed matrix: %s of %s" % (q, L.canon(text)))
        ip, mp = L.recs(r.impl, "PARTS"), L.recs(r.model, "MPARTS")
        if not ip or not mp or ip[0][1:] != mp[0][1:]:
            chk.tie_broken("stripe selection (Susceptibility::prepare vs PV.GFPart.gf_prepare)",
                           "susc %s of %s: library %s model %s" % (q, L.canon(text), ip[:1], mp[:1]))
            continue
        it = {(a, b): t for (a, b, t) in map(L.terms_of, L.recs(r.impl, "TERMS"))}
        mt = {(a, b): t for (a, b, t) in map(L.terms_of, L.recs(r.model, "MTERMS"))}
        for k in it:
            d = L.compare_terms(it[k], mt.get(k, []))
            if d:
                chk.tie_broken("term list (SusceptibilityPart::compute vs PV.SuscPart.susc_part_compute)",
                               "susc %s of %s part %s: %s" % (q, L.canon(text), k, d))
                break
        iz = {(int(t[1]), int(t[2])): L.cplx(t, 3) for t in L.recs(r.impl, "ZERO")}
        mz = {(int(t[1]), int(t[2])): L.cplx(t, 3) for t in L.recs(r.model, "MZERO")}
        for k in iz:
            if abs(iz[k] - mz.get(k, 1e300)) > 1e-13 * (1 + abs(iz[k])):
                chk.tie_broken("ZeroPoleWeight", "susc %s of %s part %s: %s vs %s" % (q, L.canon(text), k, iz[k], mz.get(k)))
        ia, ma = L.recs(r.impl, "AVG"), L.recs(r.model, "MAVG")
        ia2 = L.recs(r.impl, "AVG2")
        if ia and ma:
            for p in (1, 3):
                if abs(L.cplx(ia[0], p) - L.cplx(ma[0], p)) > 1e-13 * (1 + abs(L.cplx(ia[0], p))):
                    chk.tie_broken("EnsembleAverage", "susc %s of %s: %s vs %s" % (q, L.canon(text), ia[0], ma[0]))
            if ia2 and L.cplx(ia2[0], 1) != L.cplx(ia[0], 1):
                chk.violation("ensemble-average-accumulates: %s | %s" % (L.canon(text), q),
                              "a second EnsembleAverage::prepare() changed the result: %s -> %s" % (ia[0][1:3], ia2[0][1:3]),
                              {"harness": "h_c01", "scenario": text, "query": "suscraw %d %d %d %d 1 0 0" % q})
        for tag in ("S0", "S1", "S2", "S3"):
            iv = [t for t in L.recs(r.impl, "VALN") if t[1] == tag]
            mv = [t for t in L.recs(r.model, "MVALN") if t[1] == tag]
            if iv and mv:
                for p in range(len(ns)):
                    a, b = L.cplx(iv[0], 4 + 3 * p), L.cplx(mv[0], 4 + 3 * p)
                    if abs(a - b) > 1e-12 * (1 + abs(a)):
                        chk.tie_broken("evaluation %s" % tag, "susc %s of %s n=%d: %s vs %s" % (q, L.canon(text), ns[p], a, b))
        mb = L.recs(r.model, "MBOUNDN")
        ng = 0.0
        for t in mb:
            for p in range(int(t[1])):
                ng = max(ng, hx(t[3 + 4 * p + 2]))
        negl[q] = ng
        stat = L.recs(r.model, "MSTAT")
        runs = L.recs(r.model, "RUN")
        strict = sorted(set(t[4] for t in runs if t[1] == "strict"))
        lenient = sorted(set(t[4] for t in runs if t[1] == "lenient"))
        tot = [sum(int(t[k]) for t in stat) for k in range(3, 11)] if stat else [0] * 8
        sig = "terms|%s|symm=%s|%s|strict=%s|lenient=%s|zero-poles=%s|merged=%s|negl=%s|dropped=%s" % (
            kind_of(q, 0), symm, variant, "+".join(strict) or "-", "+".join(lenient) or "-", "yes" if tot[7] else "no",
            "yes" if tot[4] else "no", "yes" if tot[5] else "no", "yes" if tot[2] else "no")
        chk.case("C14-terms %s | susc %d %d %d %d" % ((L.canon(text),) + q), sig, nontrivial=tot[0] > 0,
                 sample={"scenario": L.canon(text), "quad": list(q), "matched/kept/dropped/new/merged/negl/refused/zero": tot,
                         "walk": {"strict": strict, "lenient": lenient}} if tot[7] and "PastEnd" in strict else None)
        if tot[6]:
            chk.tie_broken("term lost", "the model's add_term loop ran out of its bound (excluded by termlist_loop_terminates): %s" % L.canon(text))
        chain = max([int(t[3]) for t in L.recs(r.model, "MCHAIN")] or [0])
        if chain > 1:
            chk.tie_broken("merge chain", "an added term went through %d merges (termlist_invariant: at most one with the library's "
                           "comparator): %s" % (chain, L.canon(text)))


def report(chk, fam, text, nmodes, symm, variant, fail, ns, taus):
    q, kind, pt, a, b, allowed = fail
    lines = [l for l in text.strip().split("\n") if l.strip()]

    def still(cand, quad=q):
        f, _ = end_to_end(chk, fam, "\n".join(cand) + "\n", nmodes, symm, variant, [quad], ns, taus, record=False)
        return any(x[0] != "crash" and x[1] == kind for x in f)
    try:
        small = L.shrink_lines(lines, still)
        f, _ = end_to_end(chk, fam, "\n".join(small) + "\n", nmodes, symm, variant, [q], ns, taus, record=False)
        f = [x for x in f if x[0] != "crash" and x[1] == kind] or [fail]
        q, kind, pt, a, b, allowed = f[0]
        text = "\n".join(small) + "\n"
    except Exception:
        pass
    key = "%s: %s | susc %d %d %d %d | %s" % ((kind, L.canon(text)) + q + (variant,))
    what = {
        "value": "chi_AB (A=c^+_%d c_%d, B=c^+_%d c_%d) at %s: library %s, definition %s, difference exceeds truncation bound + rounding %.3e",
        "tau": "chi_AB(tau) (A=c^+_%d c_%d, B=c^+_%d c_%d) at %s: library %s, definition %s (allowed %.3e)",
        "supply": "the ways of supplying <A>,<B> differ (A=c^+_%d c_%d, B=c^+_%d c_%d) at %s: %s vs %s (allowed %.1e)",
        "subtract": "subtractDisconnected changes chi (A=c^+_%d c_%d, B=c^+_%d c_%d) at %s by %s, expected %s (allowed %.1e)",
        "subtract-tau": "subtractDisconnected changes chi(tau) (A=c^+_%d c_%d, B=c^+_%d c_%d) at %s by %s, expected %s (allowed %.1e)",
        "average": "<A>,<B> (A=c^+_%d c_%d, B=c^+_%d c_%d) %s: library %s, definition %s (allowed %.1e)",
        "copy": "a copy of the Susceptibility object (A=c^+_%d c_%d, B=c^+_%d c_%d) evaluates differently from the original at %s: copy %s, original %s (allowed %.1e)",
    }[kind] % (q + (pt, a, b, allowed))
    chk.violation(key, what, {"harness": "h_ed", "variant": variant, "scenario": text, "query": "susc %d %d %d %d" % q, "point": pt,
                              "expected": str(b), "observed": str(a), "kind": kind})


# regression seeds, always run first: off-diagonal quadruples in a single block (the chase loops run past the inner vector),
# S_z-changing operators under default symmetries, degenerate levels at W = 0
ATOM = "site A 1 2\naddCoulombS A 2 -1\nsymm ignore\nbeta 4\n"
HUB2 = "site A 1 2\nsite B 1 2\naddCoulombS A 2 -1\naddLevel B 0.25\naddHopping4 A B 0.5\nsymm ignore\nbeta 4\n"
ASAN_CASES = [(ATOM, [(1, 0, 1, 1), (0, 0, 1, 0), (0, 1, 1, 0)]), (HUB2, [(0, 0, 0, 3), (0, 1, 2, 3), (0, 2, 1, 3)])]

FIXED = [
    ("hubbard-atom", ATOM, 2, "ignore", "real", [(1, 0, 1, 1), (0, 0, 1, 0), (0, 1, 1, 0), (1, 1, 0, 1)]),
    ("two-site", HUB2, 4, "ignore", "real", [(0, 0, 0, 3), (0, 1, 2, 3)]),
    ("two-site", "site A 1 2\nsite B 1 2\naddCoulombS A 2 -1\naddLevel B 0.25\naddHopping4 A B 0.5\nsymm ignore\nbeta 4\n", 4, "ignore", "real",
     [(0, 2, 1, 3), (0, 1, 1, 0), (0, 0, 1, 1), (2, 0, 0, 2)]),
    ("atomic-limit", "site A 1 2\nsite B 1 2\naddCoulombS A 2 -1\naddCoulombS B 2 -1\nsymm default\nbeta 10\n", 4, "default", "real",
     [(0, 1, 1, 0), (0, 0, 0, 0), (0, 0, 2, 2), (0, 2, 2, 0)]),
]


# Low temperature times a large gap, deterministic, every tier: beta*|pole| far beyond 709.78 (= log of the largest binary64
# number), where exp(beta*|pole|) is no longer a number and the imaginary-time form of a term must be written so that every
# exponent is <= 0.  Poles of both signs with residues of order one (the lower state on either side of the transition):
# Hubbard dimers with U = 10 / 4 / 1 at beta = 100 / 400 / 1000 (charge-transfer poles +-U), an atom in a strong field
# (spin-flip poles +-8).  tau grid: both ends, points next to them, and points on both sides of 709.78/|pole|.
# Reference: PV.TruncSpec.susc_tau_safe (exponents combined, all <= 0) for chi(tau), EDSpec.susc with weights relative to
# the lowest eigenvalue for chi(i W_n): nothing on the reference side overflows.
LOWTEMP = [
    # (family, scenario, modes, build, quadruples, (beta * largest |pole|, roughly))
    ("lowT-dimer", "site A 1 2\nsite B 1 2\naddCoulombS A 10 -5\naddCoulombS B 10 -4.5\naddHopping4 A B 1\nsymm default\nbeta 100\n", 4, "real",
     [(0, 2, 2, 0), (2, 0, 0, 2), (0, 0, 0, 0), (0, 0, 2, 2), (0, 1, 1, 0), (1, 3, 1, 3)], 1000),
    ("lowT-dimer", "site A 1 2\nsite B 1 2\naddCoulombS A 1 -0.5\naddCoulombS B 1 -0.5\naddHopping4 A B 0.125\nsymm default\nbeta 1000\n", 4, "real",
     [(0, 2, 2, 0), (3, 1, 1, 3), (1, 1, 1, 1), (0, 0, 3, 3), (0, 2, 0, 2)], 1000),
    ("lowT-atom", "site A 1 2\naddCoulombS A 2 -1\naddMagnetization A 4\nsymm default\nbeta 400\n", 2, "real",
     [(0, 1, 1, 0), (1, 0, 0, 1), (0, 0, 1, 1), (0, 0, 0, 0)], 3200),
]
LOWTEMP_THOROUGH = [
    ("lowT-dimer", "site A 1 2\nsite B 1 2\naddCoulombS A 4 -2\naddCoulombS B 4 -1.75\naddHopping4 A B 0.5\naddHopping8 A B 0.25 0 0 0 1\nsymm default\nbeta 400\n",
     4, "real", [(0, 2, 2, 0), (2, 0, 0, 2), (0, 3, 3, 0), (0, 0, 0, 0), (0, 0, 2, 2), (0, 1, 1, 0), (1, 3, 0, 2)], 1600),
    ("lowT-dimer", "site A 1 2\nsite B 1 2\naddCoulombS A 10 -5\naddCoulombS B 10 -4.5\naddHopping4 A B 1\nsymm ignore\nbeta 100\n", 4, "real",
     [(0, 2, 2, 0), (2, 0, 0, 2), (0, 0, 0, 0), (0, 1, 1, 0)], 1000),
    ("lowT-dimer-cplx", "site A 1 2\nsite B 1 2\naddCoulombS A 10 -5\naddCoulombS B 10 -4.5\naddHopping4 A B 1,0.5\nsymm default\nbeta 100\n", 4, "complex",
     [(0, 2, 2, 0), (2, 0, 0, 2), (0, 0, 0, 0), (0, 0, 2, 2), (0, 1, 1, 0)], 1000),
    ("lowT-atom", "site A 1 2\naddCoulombS A 2 -1\naddMagnetization A 4\nsymm ignore\nbeta 10000\n", 2, "real",
     [(0, 1, 1, 0), (1, 0, 0, 1), (0, 0, 1, 1)], 80000),
]
LOWTEMP_TAU_FRACTIONS = [0.0, 1.0 / 1024, 0.125, 0.5, 0.6875, 0.75, 0.875, 1023.0 / 1024, 1.0]


def low_temperature(tier):
    return [(fam, text, n, re.search(r'(?m)^symm (\S+)', text).group(1), variant, quads)
            for (fam, text, n, variant, quads, _) in LOWTEMP + ([] if tier == "quick" else LOWTEMP_THOROUGH)]


def tau_grid(beta, fam=""):
    if fam.startswith("lowT") or (fam == "replay" and beta >= 100):
        return [f * beta for f in LOWTEMP_TAU_FRACTIONS]
    return [0.0, 0.125 * beta, 0.5 * beta, 0.875 * beta, beta]


def note_low_temperature(chk, fam, text, r):
    """evidence that these scenarios are where they are meant to be: beta * (largest eigenvalue difference)"""
    try:
        ev = [e for v in r.eigs().values() for e in v]
        chk.extra.setdefault("low_temperature", []).append({"family": fam, "scenario": L.canon(text), "beta": r.beta(),
                                                            "beta*spectral_width": r.beta() * (max(ev) - min(ev))})
    except Exception as ex:
        chk.tie_broken("low-temperature bookkeeping", "%s: %r" % (L.canon(text), ex))


def run(chk):
    quick = chk.tier == "quick"
    ok, log = chk.prove(["extract/Extract_C01.vo", "extract/Extract_ED.vo"], extra_props=["Properties_C14_source.v", "Properties_C14_copy.v", "Properties_C14_statics.v"])
    chk.trusted += ["translator/gen_copy.py (~150 lines: regular expressions over the copy constructor's initialiser list and body) and the meaning coq/theories/CopyShapes.v gives to such a constructor (field-wise state, base classes Thermal = {beta}, ComputableObject = {Status}); a constructor outside the recognised shape falls back to the snapshot and copies are then judged by the runs only",
                    "translator/gen_c01.py and translator/cexpr.py",
                    "translator/gen_lehmann.py with translator/cstmt.py (statement splitter + shape recognition): reads, one generated file per C++ function, "
                    "the control structure of SusceptibilityPart::compute (loop nest, zero-pole branch vs term branch), TermList::add_term / operator(), the call "
                    "operators of SusceptibilityPart and Susceptibility (sum over parts, subtraction of the disconnected part), EnsembleAverage::compute "
                    "(coq/gen/Gen_Leh*.v in the vocabulary coq/theories/LehmannShapes.v, interpreted by coq/theories/LehmannInterp.v); translator/gen_thermal.py "
                    "for the loop body of Susceptibility::prepare (Gen_RetainSusc.v); Properties_C14_source.v = the agreement with the hand-written models and "
                    "the theorems about the interpreted source. coq/theories/TermList.v models add_term as the retry loop the source has: it agrees with "
                    "the interpreted source on every input, no hypothesis (Properties_C01_source.v: add_term_src_agrees_with_model)",
                    "extraction: ExtrOcamlBasic, ExtrOcamlNatInt, ExtrOCamlFloats; no Extract Constant of our own",
                    "ocaml/driver_c01.ml, ocaml/driver_ed.ml, harness/h_c01.cpp, harness/h_ed.cpp, harness/ed_common.h",
                    "Eigen's self-adjoint solver: certified per run; exp of libm"]
    chk.assume += ["floating-point rounding is outside the model: 1e-11*scale on top of the truncation bound",
                   "the library's documented approximation |E_m - E_n| < 1e-8 => resonant is shared by the specification "
                   "(its cost, computed per case by PV.TruncSpec.resonance_bound, is reported as max_resonance_approximation)",
                   "beta <= 1e15 (zero_test_only_n0)"]
    try:
        L.driver()
        L.raw_harness("real")
        have_model = True
    except pv.BuildError as ex:
        chk.tie_broken("build of the model driver / raw harness", ex.what + ": " + ex.log[-400:])
        have_model = False
    ns = [-5, -2, -1, 0, 1, 3] if quick else [-20, -5, -2, -1, 0, 1, 2, 5, 11, 20]
    scs = L.scenarios(chk.rng, chk.tier)
    if quick:
        scs = [s for k, s in enumerate(scs) if k % 2 == 0 or s[0] in ("two-site-spinflip", "pairing")][:10]
    work = [(f, t, n, sy, v, q) for (f, t, n, sy, v, q) in FIXED] + low_temperature(chk.tier) + [(f, t, n, sy, v, None) for (f, t, n, sy, v) in scs]
    for (fam, text, nmodes, symm, variant, fixed_quads) in work:
        beta = float(re.search(r'(?m)^beta (\S+)', text).group(1))
        taus = tau_grid(beta, fam)
        quads = fixed_quads or quadruples(chk.rng, nmodes, chk.tier)
        negl = {}
        if have_model:
            try:
                term_correspondence(chk, fam, text, symm, variant, quads if not quick else quads[:5], ns, negl)
            except pv.BuildError as ex:
                chk.tie_broken("h_c01 build (%s)" % variant, ex.what)
        fails, r = end_to_end(chk, fam, text, nmodes, symm, variant, quads, ns, taus, negl_of=lambda q: negl.get(q, 0.0))
        if fam.startswith("lowT") and r.dump:
            note_low_temperature(chk, fam, text, r)
        for f in fails:
            if f[0] == "crash":
                chk.violation("crash: %s | %s" % (L.canon(text), variant), "the documented workflow crashed or threw: %s" % (f[1],),
                              {"harness": "h_ed", "variant": variant, "scenario": text})
                break
        seen_kinds = set()
        for f in fails:
            if f[0] != "crash" and f[1] not in seen_kinds:
                seen_kinds.add(f[1])
                report(chk, fam, text, nmodes, symm, variant, f, ns, taus)
    if have_model:
        try:
            cases = [(text, [("suscraw %d %d %d %d 1 0 0" % q, "suscmodel 1 0 0", "susc %d %d %d %d" % q) for q in quads])
                     for text, quads in (ASAN_CASES[:1] if quick else ASAN_CASES)]
            findings = L.asan_tie(chk, cases, "SusceptibilityPart::compute", "C14")
            chk.notes.append("C17 loop findings (not violations of C14; proved result-neutral): %d" % len(findings))
        except pv.BuildError as ex:
            chk.tie_broken("asan build", ex.what)
    chk.rule = ("scenario families of tools/scen.py under default and ignored symmetries (real build; complex build and beta up to 200 in "
                "the thorough tier); per scenario quadruples (a,b,c,d) of three kinds: density-density, A = c^+_a c_b with B = A^+ (S_z-changing "
                "when a,b differ in spin), others incl. random; bosonic Matsubara numbers incl. 0 and negative; all four subtraction modes; "
                "five imaginary times incl. the end points; in every tier three fixed low-temperature scenarios (Hubbard dimers U = 10 / 1 at "
                "beta = 100 / 1000, an atom in a strong field at beta = 400; thorough: four more incl. symmetries ignored, complex hopping, "
                "beta = 10000) with nine imaginary times (both ends, next to the ends, both sides of 709.78/|pole|); a case = (scenario, quadruple); non-trivial = chi not identically zero; "
                "distinct = distinct canonical input")
    chk.extra["scenarios"] = len(scs)


def setup():
    L.driver()
    L.raw_harness("real")
    edlib.binaries("real")


def replay(chk, path):
    r = json.load(open(path))
    print(json.dumps(r, indent=1)[:3000])
    rp = r.get("replay", {})
    if isinstance(rp, dict) and rp.get("variant") == "asan":
        t = rp["query"].split()
        q = tuple(int(x) for x in t[1:5])
        print(L.asan_tie(chk, [(rp["scenario"], [("suscraw %d %d %d %d 1 0 0" % q, "suscmodel 1 0 0", "susc %d %d %d %d" % q)])],
                         "SusceptibilityPart::compute", "C14"))
    elif isinstance(rp, dict) and "scenario" in rp and "query" in rp:
        t = rp["query"].split()
        q = tuple(int(x) for x in t[1:5])
        beta = float(re.search(r'(?m)^beta (\S+)', rp["scenario"]).group(1))
        taus = tau_grid(beta, "replay")
        fails, _ = end_to_end(chk, "replay", rp["scenario"], 4, "?", rp.get("variant", "real"), [q], [-5, -2, -1, 0, 1, 3], taus)
        print("replay: %d failing points" % len(fails))
        for f in fails[:10]:
            print("  ", f)
        for f in fails:
            if f[0] != "crash":
                chk.violation(r.get("key", "replay"), "replayed: %s at %s: %s vs %s" % (f[1], f[2], f[3], f[4]), rp)
                break
    else:
        run(chk)
    return chk.finish()
