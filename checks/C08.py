"""C08 -- Observables are invariant under the choice of symmetry partition.

Proof (partial): props/Properties_C08.v -- every prepare() yields a partial bijection between blocks, for a partition whose
accepted operators shift uniformly (C07) the stripes selected by GreensFunction / Susceptibility / EnsembleAverage::prepare are
exactly the contributing ones, and block-wise sums regroup to the partition-free sums.  The remaining step (independence of the
eigenbasis inside degenerate subspaces; the 4-chains of the two-particle Green's function) is decided numerically here.
Differential runs: the same model and temperature is run through the real library (harness h_ed via tools/edlib.py) with the default
analysis, with symmetries ignored (one block) and with several custom lists of integrals of motion (N only, S_z only, N and S_z,
per-site / per-orbital / per-spin charges, shifted and scaled linear forms, N^2, constants, products n_i n_j where they commute with
H, and lists containing candidates that must be rejected).  Non-linear diagonal candidates come from the systematic family of
checks/diagfam.py (products of two / three linear forms of both signs such as 4 S^z_A S^z_B, (N_A-N_B) 2S^z, (n_a-n_b)(n_c-n_d), N_up N_down,
polynomials of N, projectors, ...) and are tried above all on models where they are conserved (nl_models: exchange without hopping,
diagonal Hamiltonians, decoupled atoms, spin-conserving hopping): whatever subset the library accepts, the observables must not move.  Spectrum, <H>, occupancies, double occupancies, <c^+_i c_j>, G_ij(z) for
all i, j, susceptibilities and chi at frequency triples aimed at the resonance patterns are compared across the partitions and with
the full-space oracle (driver_ed).
Tolerance: 1e-9 * scale; the library drops residues below 1e-8 per part, so the set of dropped terms depends on the partition:
where that can happen (the residues of G_ij reported by `gfterms` do not add up to delta_ij in some partition; for susceptibility /
chi: some Boltzmann weight below 1e-6) 1e-7 absolute is allowed instead.
Histories (several models per process): the library objects of one partition must not depend on what the process computed before.
After the separate runs, the partitions of a model (ignore, default, custom lists) are computed one after the other in ONE h_ed process
(several `model ... end` blocks with their queries), in the given order, reversed and rotated, and pairs of different models with the
same number of modes are interleaved (A/p0, B/q0, A/p1, B/q1, ...); every record of every block (dump and query answers) must equal the
record of the run in a process of its own (hex floats compared to 1e-10 relative).  A failing history is shrunk to two blocks.  Susceptibilities against the oracle: additionally the sum
over all pairs of levels of 1e-8 / |i W - (E_a - E_b)| (SusceptibilityPart leaves out terms with residues up to 1e-8; with a small level
spacing one such term is worth more than 1e-7).  A partition under which the harness dies in a later query is re-run with dm / gf only.
"""
import math
import concurrent.futures as cf
from fractions import Fraction
import pv
import edlib
import scen
import C07
import diagfam

EPS = 1e-9
LOOSE = 1e-7


def hx(s):
    return float.fromhex(s)


def iom_line(q):
    return "iom %d " % len(q) + " ".join("%s %d %s" % (C07.fs(c), len(m), " ".join("%d %d" % (d, i) for (d, i) in m)) for (c, m) in q)


def with_symm(text, mode, ioms=()):
    body = [l for l in text.strip().split("\n") if not l.startswith("symm") and not l.startswith("iom")]
    out = body + ["symm " + mode]
    if mode == "custom":
        out += [iom_line(q) for q in ioms]
    return "\n".join(out) + "\n"


def sites_of(text):
    return [(t[1], int(t[2]), int(t[3])) for t in (l.split() for l in text.split("\n")) if t and t[0] == "site"]


def index_info(text):
    """global index -> (label, orbital, spin) for order_spins = 0"""
    out = []
    for (l, o, s) in sorted(sites_of(text)):
        for orb in range(o):
            for sp in range(s):
                out.append((l, orb, sp))
    return out


def n_op(i, c=1):
    return (Fraction(c), [(1, i), (0, i)])


def custom_sets(rng, text, quick, fixed=False):
    """candidate lists to try: (name, [polynomials]).  Whether a candidate is accepted is up to the library; rejected ones are skipped by it."""
    info = index_info(text)
    n = len(info)
    N = [n_op(i) for i in range(n)]
    sets = [("N", [N])]
    if all(sp in (0, 1) for (_, _, sp) in info):
        Sz = [n_op(i, Fraction(1, 2) if info[i][2] == 1 else Fraction(-1, 2)) for i in range(n)]
        sets += [("Sz", [Sz]), ("N,Sz", [N, Sz]), ("Sz,N", [Sz, N])]
    labels = sorted(set(l for (l, _, _) in info))
    if len(labels) > 1:
        sets.append(("site-charges", [[n_op(i) for i in range(n) if info[i][0] == l] for l in labels]))
    orbs = sorted(set((l, o) for (l, o, _) in info))
    if len(orbs) > len(labels):
        sets.append(("orbital-charges", [[n_op(i) for i in range(n) if info[i][:2] == lo] for lo in orbs]))
    spins = sorted(set(sp for (_, _, sp) in info))
    if len(spins) > 1:
        sets.append(("spin-charges", [[n_op(i) for i in range(n) if info[i][2] == sp] for sp in spins]))
    sets.append(("mode-charges", [[n_op(i)] for i in range(n)]))
    sets.append(("linear", [[n_op(i, rng.choice(C07.DY)) for i in range(n)] + [(rng.choice(C07.DY), [])], N]))
    sets.append(("2N-3", [[n_op(i, 2) for i in range(n)] + [(Fraction(-3), [])]]))
    sets.append(("N^2", [N + [(Fraction(1), [(1, i), (0, i), (1, j), (0, j)]) for i in range(n) for j in range(n) if i != j]]))
    sets.append(("const,N,hop", [[(Fraction(5, 4), [])], N, [(Fraction(1), [(1, 0), (0, n - 1)]), (Fraction(1), [(1, n - 1), (0, 0)])]]))
    if n >= 2:
        i, j = sorted(rng.sample(range(n), 2))
        sets.append(("product", [[(Fraction(1), [(1, i), (0, i), (1, j), (0, j)])], N]))
        docc = [(Fraction(1), [(1, a), (0, a), (1, b), (0, b)]) for a in range(n) for b in range(a + 1, n)
                if info[a][:2] == info[b][:2]]
        if docc:
            sets.append(("double-occupancy", [docc, N]))
    if fixed:
        return [x for x in sets if x[0] in ("N", "Sz", "N,Sz", "site-charges", "mode-charges", "2N-3")][:4]
    nm, f = diagfam.family(rng, info, 1)[0]
    sets.append(("nl:" + nm + ",N", [diagfam.to_poly(f), N]))
    rng.shuffle(sets)
    keep = 3 if quick else 6
    # always keep the first two structural ones if present
    must = [s for s in sets if s[0] in ("N", "Sz")]
    rest = [s for s in sets if s[0] not in ("N", "Sz")]
    return (must[:1] + rest)[:keep] if quick else (must + rest)[:keep + 2]


def nonlinear_sets(rng, text, k):
    """k candidate lists built around members of the non-linear family (checks/diagfam.py): half of them from the members whose
    increments at the vacuum and at the filled state agree (state-dependent only in the middle of the Fock space), alone or next to
    N / 2S_z.  Whether a member is accepted is up to the library; an accepted one must leave every observable unchanged."""
    info = index_info(text)
    n = len(info)
    fm = diagfam.forms(info)
    fam = diagfam.family(rng, info)
    edge = [x for x in fam if not diagfam.uniform(x[1]) and diagfam.ends_agree(x[1], n)]
    rest = [x for x in fam if x not in edge]
    rng.shuffle(edge)
    rng.shuffle(rest)
    pick = edge[:(k + 1) // 2]
    pick += rest[:k - len(pick)]
    N = diagfam.to_poly(fm["N"])
    sets = []
    for (nm, f) in pick:
        q = diagfam.to_poly(f)
        r = rng.random()
        if r < 0.4:
            sets.append(("nl:" + nm, [q]))
        elif r < 0.6:
            sets.append(("nl:N," + nm, [N, q]))
        elif r < 0.75:
            sets.append(("nl:" + nm + ",N", [q, N]))
        elif "2Sz" in fm:
            sets.append(("nl:N,2Sz," + nm, [N, diagfam.to_poly(fm["2Sz"]), q]))
        else:
            sets.append(("nl:" + nm, [q]))
    return sets


def nl_models(rng, quick):
    """(family, text, n, beta, candidate lists): models in which non-linear diagonal operators are conserved -- Heisenberg / Ising
    exchange without hopping, diagonal Hamiltonians, decoupled atoms, spin-conserving hopping -- each with lists around such operators"""
    P = diagfam.to_poly
    ex = "site A 1 2\nsite B 1 2\naddCoulombS A 2 -1\naddCoulombS B 1 -0.25\naddSS A B 0.5\naddSzSz A B -1\nbeta 1\n"
    fm = diagfam.forms(index_info(ex))
    szsz = diagfam.mul(fm["2Sz_A"], fm["2Sz_B"])
    dN = diagfam.add(fm["N_A"], fm["N_B"], -1)
    out = [("fixed:nl-exchange", ex, 4, 1.0,
            [("nl:4Sz_A*Sz_B", [P(szsz)]), ("nl:N,2Sz,4Sz_A*Sz_B", [P(fm["N"]), P(fm["2Sz"]), P(szsz)]),
             ("nl:N_A,N_B,N+4Sz_A*Sz_B", [P(fm["N_A"]), P(fm["N_B"]), P(diagfam.add(fm["N"], szsz))]),
             ("nl:(N_A-N_B)*2Sz,N", [P(diagfam.mul(dN, fm["2Sz"])), P(fm["N"])])]),
           ("fixed:nl-heisenberg", "site A 1 2\nsite B 1 2\naddSS A B 1\nbeta 1\n", 4, 1.0,
            [("nl:4Sz_A*Sz_B", [P(szsz)]), ("nl:(n-n)*(n-n)", [P(diagfam.mul(diagfam.lin([(0, 1), (3, -1)]), diagfam.lin([(1, 1), (2, -1)])))]),
             ("nl:(2Sz)^2", [P(diagfam.mul(fm["2Sz"], fm["2Sz"]))]), ("nl:filled+vacuum,N", [P(diagfam.add(diagfam.mul(*[diagfam.lin([(i, 1)]) for i in range(4)]),
                                                                                                     diagfam.mul(*[diagfam.lin([(i, -1)], 1) for i in range(4)]))), P(fm["N"])])]),
           ("fixed:nl-atomic", "site A 1 2\nsite B 1 2\naddCoulombS A 2 -0.5\naddLevel B 0.25\naddMagnetization B 0.25\nbeta 2\n", 4, 2.0,
            [("nl:(n-n)*(n-n)+N", [P(diagfam.add(diagfam.mul(diagfam.lin([(0, 1), (2, -1)]), diagfam.lin([(1, 1), (3, -1)])), fm["N"]))]),
             ("nl:Nup*Ndn", [P(diagfam.mul(fm["Nspin0"], fm["Nspin1"]))]), ("nl:n*n*n,N", [P(diagfam.mul(*[diagfam.lin([(i, 1)]) for i in range(3)])), P(fm["N"])]),
             ("nl:N(N-1)(N-2)", [P(diagfam.mul(*[diagfam.add(fm["N"], diagfam.lin([], k), -1) for k in range(3)]))])])]
    kinds = ["exchange", "diagonal", "decoupled", "exchange", "diagonal", "hopping"]
    for k in range(6 if quick else 30):
        kind, sites, lines = diagfam.commuting_model(rng, kinds[k % len(kinds)], max_modes=4)
        beta = rng.choice([0.5, 1, 1, 2])
        text = "\n".join(["site %s %d %d" % s for s in sites] + lines) + "\nbeta %s\n" % C07.fs(Fraction(beta).limit_denominator(8))
        out.append(("nl:" + kind, text, sum(o * s for (_, o, s) in sites), beta, nonlinear_sets(rng, text, 4 if quick else 6)))
    if not quick:
        for k in range(3):
            kind, sites, lines = diagfam.commuting_model(rng, "exchange", max_modes=6)
            text = "\n".join(["site %s %d %d" % s for s in sites] + lines) + "\nbeta 1\n"
            out.append(("nl:" + kind, text, sum(o * s for (_, o, s) in sites), 1.0, nonlinear_sets(rng, text, 6)))
    return out


def queries(rng, n, beta, quick):
    q = ["dm"]
    zs = [(0.0, math.pi / beta), (0.0, -3 * math.pi / beta), (0.375, 0.75)]
    pairs = [(i, j) for i in range(n) for j in range(n)]
    for (i, j) in pairs:
        q.append("gf %d %d %d " % (i, j, len(zs)) + " ".join("%r %r" % z for z in zs))
        q.append("gfterms %d %d" % (i, j))
    for (i, j) in (pairs if n <= 4 else rng.sample(pairs, 16)):
        q.append("avg %d %d" % (i, j))
    quads = []
    for _ in range(3 if quick else 8):
        a, b, c, d = [rng.randrange(n) for _ in range(4)]
        if rng.random() < 0.6:
            c, d = b, a          # <A A^+>-like: surely non-vanishing
        quads.append((a, b, c, d))
    for (a, b, c, d) in quads:
        q.append("susc %d %d %d %d %d 0 1 -2" % (a, b, c, d, rng.choice([0, 1])))
    if n <= 4:
        nchi = 2 if quick else 6
        for _ in range(nchi):
            i, j = rng.randrange(n), rng.randrange(n)
            k, l = (i, j) if rng.random() < 0.5 else (j, i)
            if rng.random() < 0.3:
                k, l = rng.randrange(n), rng.randrange(n)
            tr = scen.matsubara_triples(rng, 3, span=2)
            q.append("chi %d %d %d %d 0 %d " % (i, j, k, l, len(tr)) + " ".join("%d %d %d" % t for t in tr))
    return q


class Obs:
    """the observables of one run, as flat dict name -> complex, plus bookkeeping for the tolerances"""

    def __init__(self, r, n):
        self.v = {}
        self.gf_dropped = set()      # (i, j) whose residues do not add up to delta_ij
        self.minw = min([w for ws in r.weights().values() for w in ws] or [1.0])
        self.nblocks = len(r.blocks())
        self.nsym = int(r.dumprec("NSYM")[0][1]) if r.dumprec("NSYM") else -1
        self.throws = [" ".join(t) for t in r.impl if t[0] == "THROWS"]
        self.eall = sorted(e for es in r.eigs().values() for e in es)
        self.beta = r.beta() if r.dumprec("BETA") else 1.0
        self._drop = {}
        cur = None
        ressum = {}
        for t in r.impl:
            tag = t[0]
            if tag == "DM":
                self.v["<H>"] = hx(t[1])
                self.v["<N>"] = hx(t[2])
                for k, x in enumerate(t[3:]):
                    self.v["<n_%d>" % k] = hx(x)
            elif tag == "DOCC":
                for k, x in enumerate(t[1:]):
                    self.v["<n_%d n_%d>" % (k // n, k % n)] = hx(x)
            elif tag == "EALL":
                for k, x in enumerate(sorted(hx(x) for x in t[1:])):
                    self.v["E[%d]" % k] = x
            elif tag == "G":
                vals = edlib.values(t, 4)
                for k, z in enumerate(vals):
                    self.v["G_%s,%s(z%d)" % (t[1], t[2], k)] = z
            elif tag == "AVG":
                self.v["<c+_%s c_%s>" % (t[1], t[2])] = complex(hx(t[3]), hx(t[4]))
            elif tag == "SUSC":
                k = 7
                while k + 3 <= len(t):
                    self.v["chi_%s%s,%s%s[mode %s](W%s)" % (t[1], t[2], t[3], t[4], t[5], t[k])] = complex(hx(t[k + 1]), hx(t[k + 2]))
                    k += 3
            elif tag == "SUSCAVG":
                pass
            elif tag == "CHI":
                # CHI i j k l clear vanishing nparts tablesize {on-demand re im, table re im}
                k, f = 9, 0
                while k + 4 <= len(t):
                    self.v["X_%s%s%s%s(f%d)" % (t[1], t[2], t[3], t[4], f)] = complex(hx(t[k]), hx(t[k + 1]))
                    if t[k + 2] != "-":
                        self.v["Xtable_%s%s%s%s(f%d)" % (t[1], t[2], t[3], t[4], f)] = complex(hx(t[k + 2]), hx(t[k + 3]))
                    k += 4
                    f += 1
            elif tag == "GFPARTS":
                cur = (int(t[1]), int(t[2]))
                ressum[cur] = 0.0
            elif tag == "GFTERMS" and cur is not None:
                nt = int(t[3])
                for k in range(nt):
                    ressum[cur] += hx(t[4 + 3 * k])
        for (i, j), s in ressum.items():
            if abs(s - (1.0 if i == j else 0.0)) > 1e-12:
                self.gf_dropped.add((i, j))
        self.oracle = {}
        for t in r.oracle:
            if t[0] == "G":
                for k, z in enumerate(edlib.values(t, 3)):
                    self.oracle["G_%s,%s(z%d)" % (t[1], t[2], k)] = z
            elif t[0] == "AVG":
                self.oracle["<c+_%s c_%s>" % (t[1], t[2])] = complex(hx(t[3]), hx(t[4]))
            elif t[0] == "DM":
                self.oracle["<H>"] = hx(t[1])
                self.oracle["<N>"] = hx(t[2])
                for k, x in enumerate(t[3:]):
                    self.oracle["<n_%d>" % k] = hx(x)
            elif t[0] == "SUSC":
                k = 6
                while k + 3 <= len(t):
                    self.oracle["chi_%s%s,%s%s[mode %s](W%s)" % (t[1], t[2], t[3], t[4], t[5], t[k])] = complex(hx(t[k + 1]), hx(t[k + 2]))
                    k += 3
            elif t[0] == "CHI":
                for f, z in enumerate(edlib.values(t, 5)):
                    self.oracle["X_%s%s%s%s(f%d)" % (t[1], t[2], t[3], t[4], f)] = z


def susc_dropped_bound(o, k):
    """SusceptibilityPart::compute leaves out every term whose residue is at most 1e-8; such a term contributes at most
    1e-8 / |i W_k - (E_a - E_b)|.  Sum over all pairs of levels: what the full Lehmann sum of the oracle may contain in addition."""
    if k not in o._drop:
        w = 2 * math.pi * k / o.beta
        o._drop[k] = sum(1e-8 / math.hypot(w, ea - eb) for ea in o.eall for eb in o.eall if abs(ea - eb) >= 1e-8)
    return o._drop[k]


def tol_for(name, a, b):
    """(tolerance, class) for comparing quantity `name` between runs a and b (b may be None: oracle of a)"""
    runs = [a] + ([b] if b is not None else [])
    scale = 1.0
    loose = False
    if name.startswith("G_"):
        ij = tuple(int(x) for x in name[2:name.index("(")].split(","))
        loose = any(ij in r.gf_dropped for r in runs)
    elif name.startswith("chi_") or name.startswith("X"):
        # against the oracle (b is None) always: the oracle sums every Lehmann term, the library drops residues below 1e-8
        loose = b is None or any(r.minw < 1e-6 for r in runs)
    return (LOOSE if loose else EPS), ("loose" if loose else "tight")


def compare(a, b, names=None):
    """worst disagreement between two runs: (name, |difference|, tolerance) or None"""
    worst = None
    for k in (names or a.v.keys()):
        if k not in b.v:
            continue
        x, y = a.v[k], b.v[k]
        d = abs(x - y)
        t, _ = tol_for(k, a, b)
        t = t * max(1.0, abs(x), abs(y))
        if k.startswith("chi_") and "(W" in k and hasattr(a, "eall") and hasattr(b, "eall"):
            # each partition drops its own set of terms with residue <= 1e-8 (which ones depends on the eigenvectors chosen
            # inside degenerate subspaces): the two values may differ by what either of them left out (same bound as against
            # the oracle; found by the thorough tier: exchange model, beta = 1, 2.5e-7 between one block and {N})
            kk = int(k[k.index("(W") + 2:-1])
            t += susc_dropped_bound(a, kk) + susc_dropped_bound(b, kk)
        if not (d <= t) and (worst is None or d / t > worst[1] / worst[2]):
            worst = (k, d, t, x, y)
    return worst


def compare_oracle(a):
    worst = None
    for k, y in a.oracle.items():
        if k not in a.v:
            continue
        x = a.v[k]
        d = abs(x - y)
        t, _ = tol_for(k, a, None)
        t = t * max(1.0, abs(x), abs(y))
        if k.startswith("chi_"):
            t += susc_dropped_bound(a, int(k[k.index("(W") + 2:-1]))
        if not (d <= t) and (worst is None or d / t > worst[1] / worst[2]):
            worst = (k, d, t, x, y)
    return worst


def models(rng, quick):
    """(family, text without symm line, n modes, allow default)"""
    out = [("fixed:hubbard-atom", "site A 1 2\naddCoulombS A 2 -1\nbeta 1\n", 2, 1.0),
           ("fixed:two-site", "site A 1 2\nsite B 1 2\naddCoulombS A 2 -1\naddLevel B 0.5\naddHopping4 A B 1\nbeta 1\n", 4, 1.0),
           ("fixed:atomic-limit", "site A 1 2\nsite B 1 2\naddCoulombS A 2 -1\naddCoulombS B 1 -0.5\nbeta 2\n", 4, 2.0),
           ("fixed:spinless-chain", "site A 1 1\nsite B 1 1\nsite C 1 1\naddLevel A 0.5\nterm 2 1 1 A 0 0 0 B 0 0\nterm 2 1 1 B 0 0 0 A 0 0\n"
            "term 2 0.5 1 B 0 0 0 C 0 0\nterm 2 0.5 1 C 0 0 0 B 0 0\nbeta 1\n", 3, 1.0)]
    fams = list(scen.FAMILIES) + [scen.pairing, scen.three_orbital_small]
    reps = 2 if quick else 6
    for _ in range(reps):
        for f in fams:
            fam, text, n, info = f(rng, "default")
            # prefer high temperatures: every Boltzmann weight is then large and the strict tolerance applies
            beta = rng.choice([0.5, 0.5, 1, 1, 2, 4])
            text = "\n".join(l for l in text.strip().split("\n") if not l.startswith("beta") and not l.startswith("symm")) + "\nbeta %s\n" % C07.fs(Fraction(beta).limit_denominator(8))
            out.append((fam, text, n, beta))
    # heterogeneous lattices of the C07 generator (<= 4 modes so that chi stays cheap)
    k = 0
    want_het = 10 if quick else 40
    while k < want_het:
        sc = C07.gen_scenario(rng)
        if sc.n() > 4 or sc.n() < 2:
            continue
        sc.lines = C07.gen_hamiltonian(rng, sc, rng.choice([{"N", "Sz"}, {"N"}, {"Sz"}, set()]))
        beta = rng.choice([0.5, 1, 2])
        text = "\n".join(["site %s %d %d" % s for s in sc.sites] + sc.lines) + "\nbeta %s\n" % C07.fs(beta)
        out.append(("het:" + C07.shape_class(sc.sites), text, sc.n(), beta))
        k += 1
    return out


def canonical_probe():
    """the C07 finding seen through the observables: Hubbard atom, candidate n_0 n_1"""
    text = "site A 1 2\naddCoulombS A 2 -1\nbeta 1\n"
    return text, [[(Fraction(1), [(1, 0), (0, 0), (1, 1), (0, 1)])]]


def run_partition(text, mode, ioms, q):
    r = edlib.run(with_symm(text, mode, ioms), q)
    return r


def crash_text(err):
    keep = [l.strip() for l in err.split("\n") if any(w in l for w in ("Assertion", "Signal:", "what():", "terminate called", "ERROR:", "timeout"))]
    return "; ".join(keep)[:300] or " ".join(err.split())[-200:]


def run_sequence(items, timeout=150):
    """items: [(scenario text incl. symm line, [query lines])] computed one after the other in ONE h_ed process.
    -> (rc, [segment], stderr tail); segment = {"built": bool, "error": str|None, "dump": [...], "impl": [...]} per `model` block reached"""
    h, _ = edlib.binaries("real")
    inp = "".join("model ops\n%s\nend\n%s\n" % (sc.strip(), "\n".join(q)) for sc, q in items)
    rc, out, err = pv.run_harness(h, inp, timeout=timeout)
    if rc == 124:
        err = "timeout: no answer within %d s (a process of its own needs a few seconds)\n" % timeout + err
    segs, cur = [], None
    for l in out.split("\n"):
        t = l.split()
        if not t:
            continue
        if t[0] in ("BUILT", "ERROR"):
            cur = {"built": t[0] == "BUILT", "error": " ".join(t[1:]) if t[0] == "ERROR" else None, "dump": [], "impl": []}
            segs.append(cur)
        elif cur is not None:
            cur["dump" if t[0] in edlib.DUMP_TAGS else "impl"].append(t)
    return rc, segs, crash_text(err)


SEQ_TOL = 1e-10


def rec_diff(a, b):
    """first difference between two records (token lists): None or text; numeric tokens to SEQ_TOL relative"""
    if len(a) != len(b):
        return "%d tokens instead of %d" % (len(a), len(b))
    for k, (x, y) in enumerate(zip(a, b)):
        if x == y:
            continue
        try:
            fx, fy = hx(x), hx(y)
        except ValueError:
            return "token %d: %s instead of %s" % (k, x, y)
        if not abs(fx - fy) <= SEQ_TOL * max(1.0, abs(fx), abs(fy)):
            return "token %d: %r instead of %r" % (k, fx, fy)
    return None


def seg_diff(seg, r):
    """first record of a block of a history that differs from the run in a process of its own: None or (record head, text)"""
    if not seg["built"]:
        return ("ERROR", "the model does not build: %s" % seg["error"])
    for mine, ref in ((seg["dump"], r.dump), (seg["impl"], r.impl)):
        for a, b in zip(mine, ref):
            d = rec_diff(a, b)
            if d:
                return (" ".join(b[:5 if b[0] not in ("G", "GCOPY", "AVG", "DM") else 3]), d)
        if len(mine) != len(ref):
            return (" ".join(ref[len(mine)][:5]) if len(mine) < len(ref) else "extra", "%d records instead of %d" % (len(mine), len(ref)))
    return None


def history_check(chk, jobs, stats):
    """jobs: [(kind, [(fam, text, q, pname, mode, ioms, own-process Run)])]; runs every history, reports the smallest failing one per kind"""
    def go(job):
        return run_sequence([(with_symm(text, mode, ioms), q) for (fam, text, q, pname, mode, ioms, r) in job[1]])
    with cf.ThreadPoolExecutor(max_workers=8) as ex:
        outs = list(ex.map(go, jobs))
    fails, nfail = {}, {}
    for (kind, items), (rc, segs, err) in zip(jobs, outs):
        stats["histories"] += 1
        stats["history_blocks"] += len(items)
        chk.case("history " + kind + "".join(it[1] + it[3] for it in items),
                 "history %s | %d blocks | n=%s" % (kind, len(items), ",".join(sorted(set(str(sum(o * s_ for (_, o, s_) in sites_of(it[1]))) for it in items)))), True)
        bad = None
        for k, it in enumerate(items):
            if k >= len(segs):
                bad = (k, ("(process died)", "the process died (exit %s) while computing this block: %s" % (rc, err)))
                break
            d = seg_diff(segs[k], it[6])
            if d:
                bad = (k, d)
                break
        if bad is None and rc != 0:
            bad = (len(items) - 1, ("(exit)", "the process ended with exit %s after the last block: %s" % (rc, err)))
        if bad:
            nfail[kind] = nfail.get(kind, 0) + 1
            size = (len(items), sum(len(it[1]) for it in items))
            if kind not in fails or size < fails[kind][0]:
                fails[kind] = (size, items, bad)
    for kind, (size, items, (k, d)) in sorted(fails.items()):
        # shrink to two blocks: some earlier block j followed directly by block k
        pair = None
        for j in range(k):
            rc, segs, err = run_sequence([(with_symm(it[1], it[4], it[5]), it[2]) for it in (items[j], items[k])])
            d2 = (seg_diff(segs[1], items[k][6]) if len(segs) > 1 else ("(process died)", "the process died (exit %s): %s" % (rc, err)))
            if d2:
                pair, d = (items[j], items[k]), d2
                break
        hist = pair or items[:k + 1]
        last = hist[-1]
        desc = " -> ".join("[%s | symm %s]" % (" | ".join(it[1].strip().split("\n")), it[3]) for it in hist)
        chk.violation("history-dependence: " + desc,
                      "%s: record `%s` of the model under partition %s depends on what the process computed before: %s (first value: as the last block of the history "
                      "%s in ONE process, second: in a process of its own); %d histories of kind %s fail"
                      % (last[0], d[0], last[3], d[1], " -> ".join("%s/%s" % (it[0], it[3]) for it in hist), nfail[kind], kind),
                      {"harness": "h_ed", "history": [{"scenario": with_symm(it[1], it[4], it[5]), "queries": it[2]} for it in hist], "record": d[0]})


def setup():
    edlib.binaries("real")


def run(chk):
    quick = chk.tier == "quick"
    chk.level = "proof"      # schema enum; the partial nature is stated in assume and in the manifest
    chk.prove(["extract/Extract_ED.vo"], extra_props=["Properties_C07_statics.v"])     # no hidden state in StatesClassification / Symmetrizer (translator/gen_statics.py)
    chk.trusted += ["harness/h_ed.cpp + ed_common.h, tools/edlib.py, the full-space oracle coq/theories/EDSpec.v at binary64 (ocaml/driver_ed.ml)",
                    "Eigen's self-adjoint solver (each run's eigen-decomposition is certified by the oracle: CERT record)"]
    chk.assume += ["C08 is claimed partial: independence of the eigenbasis inside degenerate subspaces and the 4-chains of TwoParticleGF::prepare are "
                   "not formalised; they are decided by these differential runs",
                   "tolerance 1e-9*scale, 1e-7 where residues below 1e-8 can be dropped differently per partition (see module docstring)",
                   "real build; dyadic amplitudes"]
    setup()
    rng = chk.rng
    stats = {"runs": 0, "pair_comparisons": 0, "oracle_comparisons": 0, "loose_quantities": 0, "tight_quantities": 0, "default_throws": 0,
             "histories": 0, "history_blocks": 0}
    per_model = []    # (fam, text, n, q, [(pname, mode, ioms, own-process Run)]) -- complete runs only

    # --- canonical probe (shares the C07 finding)
    ptext, pioms = canonical_probe()
    q = queries(rng, 2, 1.0, True)
    base = run_partition(ptext, "ignore", (), q)
    cust = run_partition(ptext, "custom", pioms, q)
    canonical_key = None
    if base.error or cust.error or base.crash or cust.crash:
        chk.tie_broken("h_ed", "canonical probe failed to run: %s %s" % (base.error or base.crash, cust.error or cust.crash))
    else:
        A, B = Obs(base, 2), Obs(cust, 2)
        w = compare(A, B, [k for k in A.v if k.startswith("G_")]) or compare(A, B)
        chk.case("probe n0n1", "probe hubbard-atom custom n0*n1 accepted=%d" % B.nsym, True)
        if w:
            canonical_key = "partition-dependence: site A 1 2 | addCoulombS A 2 -1 | beta 1 | symm custom | iom n_0*n_1 vs symm ignore"
            chk.violation(canonical_key, "%s = %r with the accepted integral of motion n_0 n_1 but %r with symmetries ignored" % (w[0], w[4], w[3]),
                          {"harness": "h_ed", "scenario_a": with_symm(ptext, "ignore"), "scenario_b": with_symm(ptext, "custom", pioms), "queries": q})

    failures = {}     # kind -> [(size, fam, text, q, run, ref, worst, n)]
    crashed = []      # (fam, text, pname, mode, ioms, wait status, reduced run worked)

    def note(fam, text, q, run_, ref, w, n):
        qc = "G" if w[0].startswith("G_") else "average" if w[0].startswith("<") else "spectrum" if w[0].startswith("E[") else \
            "susceptibility" if w[0].startswith("chi_") else "chi"
        if canonical_key and nonuniform_accepted(text, run_[1], run_[2], run_[3].nsym, n):
            chk.violation(canonical_key, "%s: %s differs by %.3g with partition %s (accepted non-uniformly shifting integral of motion)" % (fam, w[0], w[1], run_[0]),
                          {"harness": "h_ed", "scenario": with_symm(text, run_[1], run_[2]), "queries": q})
            return
        kind = ("across-partitions " if ref else "against-oracle ") + qc
        failures.setdefault(kind, []).append((0 if fam.startswith("fixed:") else 1, len(text), fam, text, q, run_, ref, w, n))

    todo = [m + (None,) for m in models(rng, quick)]
    nl = nl_models(rng, quick)
    todo = todo[:4] + nl[:3] + todo[4:] + nl[3:]          # the deterministic ones first: a failure is keyed by the first model that shows it
    for (fam, text, n, beta, given) in todo:
        q = queries(rng, n, beta, quick)
        runs = []
        sets = given if given is not None else custom_sets(rng, text, quick, fam.startswith("fixed:"))
        plist = [("ignore", "ignore", ())] + [("default", "default", ())] + [("custom:" + nm, "custom", io) for (nm, io) in sets]
        with cf.ThreadPoolExecutor(max_workers=6) as ex:
            results = list(ex.map(lambda p: run_partition(text, p[1], p[2], q), plist))
        okruns = []
        per_model.append((fam, text, n, q, okruns))
        for (pname, mode, ioms), r in zip(plist, results):
            stats["runs"] += 1
            if r.error:
                if mode == "default" and "symm" in r.error:
                    # the C07 finding (S_z constructor throws out of Symmetrizer::compute): not a C08 matter; the other
                    # partitions of this model are still compared (the harness then has no model to query and exits abnormally)
                    stats["default_throws"] += 1
                    chk.case(text + pname, "%s | default analysis throws (C07 finding)" % fam, False)
                    continue
                chk.tie_broken("h_ed", "%s / %s: %s" % (fam, pname, r.error))
                continue
            if r.crash:
                # an inconsistent partition can also abort a later query; the one-particle quantities are then still compared (below)
                r2 = run_partition(text, mode, ioms, [l for l in q if l.split()[0] in ("dm", "gf", "gfterms")])
                crashed.append((fam, text, pname, mode, ioms, r.crash[0], not (r2.crash or r2.error)))
                if r2.crash or r2.error:
                    continue
                r = r2
            o = Obs(r, n)
            if o.throws:
                chk.tie_broken("h_ed", "%s / %s: query threw: %s" % (fam, pname, o.throws[0]))
                continue
            runs.append((pname, mode, ioms, o))
            if not r.crash and not r.error and r.dump:
                okruns.append((pname, mode, ioms, r))
            sig = "%s | %s | accepted %d -> %d blocks" % (fam, pname, o.nsym, o.nblocks)
            chk.case(text + pname, sig, o.nblocks > 1 or mode == "ignore",
                     {"family": fam, "partition": pname, "blocks": o.nblocks, "G_00(z0)": str(o.v.get("G_0,0(z0)"))} if len(chk.samples) < 6 else None)
            for k in o.v:
                t, cls = tol_for(k, o, None)
                stats["loose_quantities" if cls == "loose" else "tight_quantities"] += 1
            # --- with the full-space oracle
            if r.cert and max(r.cert) < 1e-10 and o.oracle:
                stats["oracle_comparisons"] += 1
                w = compare_oracle(o)
                if w:
                    note(fam, text, q, (pname, mode, ioms, o), None, w, n)
        # --- across partitions: everything against the one-block run (and thereby against each other)
        if runs and runs[0][0] == "ignore":
            for other in runs[1:]:
                stats["pair_comparisons"] += 1
                w = compare(runs[0][3], other[3])
                if w:
                    note(fam, text, q, other, runs[0], w, n)
    # --- histories: several partitions / models per process
    jobs = []
    for mi, (fam, text, n, q, okruns) in enumerate(per_model):
        items = [(fam, text, q, pname, mode, ioms, r) for (pname, mode, ioms, r) in okruns]
        if len(items) < 2:
            continue
        fixed = fam.startswith("fixed:")
        jobs.append(("same-model given order", items))
        if fixed or mi % 2 == 0 or not quick:
            jobs.append(("same-model reversed", items[::-1]))
        if fixed or not quick:
            jobs.append(("same-model rotated", items[2:] + items[:2]))
            jobs.append(("same-model twice", [items[1], items[0], items[1], items[-1], items[0]]))
    byn = {}
    for m in per_model:
        if len(m[4]) >= 2:
            byn.setdefault(m[2], []).append(m)
    for n, ms in sorted(byn.items()):
        pairs = list(zip(ms[0::2], ms[1::2]))
        for (A, B) in (pairs if not quick else pairs[:3] + pairs[3::3]):
            ia = [(A[0], A[1], A[3], pn, mo, io, r) for (pn, mo, io, r) in A[4]]
            ib = [(B[0], B[1], B[3], pn, mo, io, r) for (pn, mo, io, r) in B[4]]
            alt = [x for pr in zip(ia, ib) for x in pr]
            jobs.append(("two models alternating", alt))
    history_check(chk, jobs, stats)
    for kind, lst in sorted(failures.items()):
        lst.sort(key=lambda x: (x[0], x[1], x[3], x[5][0]))
        _, _, fam, text, q, run_, ref, w, n = lst[0]
        report(chk, kind, len(lst), fam, text, q, run_, ref, w, n)
    for (fam, text, pname, mode, ioms, status, reduced_ok) in crashed:
        chk.violation("crash: %s | %s" % (" | ".join(text.strip().split("\n")), pname),
                      "%s: the library crashed (wait status %s) with partition %s%s (%d runs crash)" % (
                          fam, status, pname, "; with dm / gf queries only it runs" if reduced_ok else "", len(crashed)),
                      {"harness": "h_ed", "scenario": with_symm(text, mode, ioms), "queries": ["dm"]})
    chk.extra["stats"] = stats
    chk.rule = ("models: every family of tools/scen.py (Hubbard atom, two-site incl. spin-flip hopping, Anderson, free degenerate, atomic limit, Kanamori, "
                "exchange, pairing, spinless) and heterogeneous lattices of the C07 generator with <= 4 modes, beta in {0.5, 1, 2, 4}; each under ignore, "
                "default and 3-8 custom candidate lists (one of them around a member of the non-linear family of checks/diagfam.py); models in which "
                "non-linear diagonal operators are conserved (3 deterministic + 6-33 random: exchange without hopping, diagonal, decoupled, "
                "spin-conserving hopping) under ignore, default and 4-6 lists around members of that family, half of them with increments that "
                "agree at the vacuum and at the filled state; queries: dm, G_ij at 3 complex z for all i, j (+ term lists), <c^+_i c_j>, 3-8 susceptibilities at "
                "W_0, W_1, W_-2, 2-6 chi at resonance-pattern triples. A case = (model, partition); distinct = distinct text; non-trivial = more than one "
                "block or the one-block reference. Signature = family | partition | accepted count -> block count. Histories: for every model its "
                "partitions one after the other in ONE process (given order; reversed for every second model; rotated and with repetitions for the "
                "deterministic models) and pairs of same-size models interleaved; every record compared with the run in a process of its own.")


def nonuniform_accepted(text, mode, ioms, nsym, n):
    """does the candidate list contain an operator that does not shift uniformly (the shared C07 finding)?"""
    if mode != "custom":
        return False
    return any(not C07.uniform_shift([(c, tuple(m)) for (c, m) in q], n) for q in ioms)


def report(chk, kind, count, fam, text, q, run, ref, w, n):
    pname, mode, ioms, o = run
    name, d, t, x, y = w
    what = "%s: %s = %r with partition %s but %r %s (|diff| %.3g > tol %.3g)" % (
        fam, name, x, ref[0] if ref else pname, y, ("with partition " + pname) if ref else "from the full-space oracle", d, t)
    if ref:
        what = "%s: %s = %r with symmetries ignored but %r with partition %s (|diff| %.3g > tol %.3g)" % (fam, name, x, y, pname, d, t)
    # shrink: drop lattice lines while the same quantity still disagrees
    qs = [l for l in q if l.split()[0] in ("dm",) or name_matches(l, name)]
    lines = text.strip().split("\n")

    def still(ls):
        tx = "\n".join(ls) + "\n"
        a = edlib.run(with_symm(tx, mode, ioms), qs, oracle=ref is None)
        if a.error or a.crash:
            return False
        A = Obs(a, n)
        if ref is None:
            ww = compare_oracle(A)
        else:
            b = edlib.run(with_symm(tx, ref[1], ref[2]), qs, oracle=False)
            if b.error or b.crash:
                return False
            ww = compare(Obs(b, n), A)
        return ww is not None
    changed = True
    while changed:
        changed = False
        for k in range(len(lines)):
            if lines[k].startswith("site") or lines[k].startswith("beta"):
                continue
            t2 = lines[:k] + lines[k + 1:]
            try:
                ok = still(t2)
            except Exception:
                ok = False
            if ok:
                lines, changed = t2, True
                break
    what += " [%s; %d comparisons fail this way]" % (kind, count)
    key = "partition-dependence: %s | %s%s" % (" | ".join(lines), "symm " + mode + ("" if mode != "custom" else " " + "; ".join(iom_line(i) for i in ioms)),
                                              " vs symm ignore" if ref else " vs oracle")
    chk.violation(key, what, {"harness": "h_ed", "scenario": with_symm("\n".join(lines) + "\n", mode, ioms),
                              "reference": with_symm("\n".join(lines) + "\n", ref[1], ref[2]) if ref else "oracle", "queries": qs, "quantity": name,
                              "original": with_symm(text, mode, ioms), "original_queries": q})


def name_matches(line, name):
    t = line.split()
    if name.startswith("G_"):
        ij = name[2:name.index("(")].split(",")
        return t[0] in ("gf", "gfterms") and t[1:3] == ij
    if name.startswith("<c+_"):
        return t[0] == "avg" and name == "<c+_%s c_%s>" % (t[1], t[2])
    if name.startswith("chi_"):
        return t[0] == "susc" and name.startswith("chi_%s%s,%s%s[mode %s]" % tuple(t[1:6]))
    if name.startswith("X"):
        return t[0] == "chi" and "_%s%s%s%s(" % tuple(t[1:5]) in name
    return t[0] == "dm"


def replay(chk, path):
    import json
    r = json.load(open(path))
    rp = r.get("replay", {})
    if isinstance(rp, dict) and "history" in rp:
        hist = [(h["scenario"], h["queries"]) for h in rp["history"]]
        rc, segs, err = run_sequence(hist)
        print("history of %d blocks in ONE process: exit %s %s" % (len(hist), rc, err))
        own = edlib.run(hist[-1][0], hist[-1][1], oracle=False)
        if len(segs) == len(hist):
            print("last block differs from the run in a process of its own at:", seg_diff(segs[-1], own))
        else:
            print("only %d blocks were computed" % len(segs))
        return 0
    if isinstance(rp, dict) and ("scenario" in rp or "scenario_b" in rp):
        a = rp.get("scenario") or rp.get("scenario_b")
        b = rp.get("reference") if rp.get("reference") not in (None, "oracle") else rp.get("scenario_a")
        q = rp.get("queries", ["dm"])
        ra = edlib.run(a, q)
        print("A:", a, "\n".join(" ".join(t) for t in ra.impl))
        if b:
            rb = edlib.run(b, q)
            print("B:", b, "\n".join(" ".join(t) for t in rb.impl))
        else:
            print("oracle:", "\n".join(" ".join(t) for t in ra.oracle))
        return 0
    run(chk)
    return chk.finish()
