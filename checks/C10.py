"""C10 -- Eigenbasis field operators are the rotated operators and obey the CAR.

Proof (coq/props/Properties_C10.v): rotation_formula (the two-loop construction LeftMat * RightMat of
FieldOperatorPart::compute equals U_to^+ O U_from for every O with at most one non-zero entry per column), rotate_back,
annihilation_is_adjoint, assembled_entry, car_eigenbasis_partial (mathcomp, theories/Rotate.v, any field with an involution:
real and complex builds); c_i |t> = sg |s> <-> c^+_i |s> = sg |t> and its monomial / matrix forms (FockAdjoint.v,
HPartProofs.jw_matrix_adjoint); container_copy_is_adjoint, pruning_bound (about the model theories/HPart.v).

Correspondence, per scenario (model = extracted HPart.fop_dense / prune / container_copy / fo_prepare; specification =
extracted EDSpec: U_to^+ (Jordan-Wigner block) U_from with the dumped eigenvectors):
  (a) every stored block (container c^+ and c, one-by-one c^+ and c, quadratic c^+_i c_j) == model == specification,
      entries to 1e-12, an entry below the pruning threshold may be absent; block map == model's; the Jordan-Wigner
      matrix has no entries outside the stored block pairs; container == one-by-one;
  (b) stored c block == adjoint of the stored c^+ block, exactly, == model of the container's copy;
  (c) U_to * stored * U_from^+ == Jordan-Wigner block (1e-12 + what pruning removed);
  (d) assembled over all blocks: {c_i, c^+_j} = delta_ij, {c_i, c_j} = 0, {c^+_i, c^+_j} = 0 to 1e-7.

Container histories (harness/h_c10.cpp): the container may be filled in several steps.  Per scenario a fresh FieldOperatorContainer is
driven through every history of `histories()` -- prepareAll(S1); computeAll(); prepareAll(S2); computeAll(); ... with ascending, descending,
overlapping and repeated index sets, prepareAll() (default argument: all indices) before / after a subset, two prepareAll before one
computeAll, one index at a time in both orders, random sequences; every history ends with computeAll() -- and every operator that was
requested is then read through getCreationOperator / getAnnihilationOperator and dumped in the OPMAP / OPMAT format of h_ed.  Each history is
verified in one of two ways: its records are identical, bit for bit, to those of the container filled in one go, which (a)-(d) above have
just verified against model and specification; or (always for two histories per scenario, and whenever the records are not identical)
the full analysis (a)-(d) is run on the history's own records, one-by-one operators included.
LARGE-BLOCK stage (checks/c10_large.py, checks/c10_npref.py) -- TESTING with an independent numpy reference, because the extracted model and
the oracle are too slow at 1024 Fock states: the scenarios above have blocks of dimension <= 36 and run with one OpenMP thread.  5-site
Hubbard chains (10 modes, largest block 100) are run through h_c10 with OMP_NUM_THREADS = 8, 4 and 1 (thorough: 2, 16, repeats, ring,
order_spins, complex build): all c^+_i, c_i through the container and two of them one by one; numpy checks block by block
U_to * stored * U_from^+ == Jordan-Wigner block (bit operations on the dumped BLOCK state lists), c == (c^+)^+, one-by-one == container,
no image outside the stored block pairs, {c_i, c^+_j} = delta_ij and {c_i, c_j} = 0 assembled over blocks for a sample of (i, j).  The
reference is calibrated in every run against the oracle-backed analysis (a)-(d) on small chains (same records, both must accept).
Model of the history semantics and its theorem: theories/ContainerHistory.v, ContainerHistoryProofs.v, Properties_C10.container_history_complete
(after any history that ends with computeAll every requested operator is computed and equals the one-by-one operator; c = adjoint of c^+).
"""
import json
import pv
import edlib
import hpartlib as hl
import c10_large

TOL = 1e-12
CAR_TOL = 1e-7
HX = hl.HX


def setup():
    hl.driver()
    edlib.binaries("real")
    pv.build_harness("h_c10", "real")


def queries(n, rng, quick):
    idx = list(range(n))
    qs = ["opsingle %d" % i for i in idx]
    pairs = [(i, j) for i in idx for j in idx]
    rng.shuffle(pairs)
    chosen = pairs[:(4 if quick else 8)]
    if (0, 0) not in chosen:
        chosen.append((0, 0))
    return qs + ["quad %d %d" % p for p in chosen]


def close(a, b, scale=1.0):
    return abs(a - b) <= TOL * max(1.0, scale)


def analyse(text, variant, qs):
    """returns (run, failures [(kind, is_impl_violation, detail)], facts)"""
    r = edlib.run(text, qs, variant=variant)
    if r.error or r.crash or not r.dumprec("VEC"):
        return r, [("workflow", False, "error=%r crash=%r" % (r.error, r.crash))], {}
    fails, facts = analyse_dump(r.dump)
    for t in r.impl:     # copies of computed operators (h_ed prints OPCOPY <kind> <idx> OK | DIFF <what>)
        if t[0] == "OPCOPY" and t[3] != "OK":
            fails.append(("copy", True, "a copy of the computed operator %s_%s is not the operator it was copied from: %s" % (t[1], t[2], " ".join(t[4:]))))
            break
    facts["copies_compared"] = len([t for t in r.impl if t[0] == "OPCOPY"])
    return r, fails, facts


def analyse_dump(dump):
    """dump: records N, HPOLY, NBLOCKS, BLOCK, VEC, EIG, OPMAP, OPMAT (+ COLROWDIFF) of h_ed / h_c10.
    returns (failures [(kind, is_impl_violation, detail)], facts)"""
    fails = []
    rc, mo, err = hl.model(dump, ["ops", "car"])
    if rc or any(t[0] == "DRIVER-ERROR" for t in mo):
        return [("driver", False, "rc=%d %s %s" % (rc, err[-200:], [t for t in mo if t[0] == "DRIVER-ERROR"][:2]))], {}
    ops = hl.opmats(dump)
    maps = hl.opmaps(dump)
    if [t for t in dump if t[0] == "COLROWDIFF"]:
        fails.append(("colrow", True, "column-major and row-major copies of a stored part differ: %r" % [t for t in dump if t[0] == "COLROWDIFF"][:1]))
    mopd, mops, sop, back, mcopy, mmap, outside = {}, {}, {}, {}, {}, {}, {}
    for t in mo:
        if t[0] in ("MOPD", "SOP"):
            key = (t[1], int(t[2]), int(t[3]), int(t[4]))
            (mopd if t[0] == "MOPD" else sop)[key] = ("FAIL", t[6]) if t[5] == "FAIL" else (int(t[5]), int(t[6]), hl.cplx_list(t[7:]))
        elif t[0] in ("MOPS", "MCOPY"):
            key = (t[1], int(t[2]), int(t[3]), int(t[4]))
            if t[5] == "FAIL":
                (mops if t[0] == "MOPS" else mcopy)[key] = None
            else:
                nnz = int(t[5])
                (mops if t[0] == "MOPS" else mcopy)[key] = {(int(t[6 + 4 * k]), int(t[7 + 4 * k])): complex(HX(t[8 + 4 * k]), HX(t[9 + 4 * k])) for k in range(nnz)}
        elif t[0] == "BACK":
            back[(t[1], int(t[2]), int(t[3]), int(t[4]))] = HX(t[5])
        elif t[0] == "MMAP":
            mmap[(t[1], int(t[2]))] = None if t[3] == "FAIL" else [(int(t[4 + 2 * k]), int(t[5 + 2 * k])) for k in range(int(t[3]))]
        elif t[0] == "OUTSIDE":
            outside[(t[1], int(t[2]))] = int(t[3])
    npruned = 0
    for key in sorted(ops):
        kind, idx, left, right = key
        rows, cols, es = ops[key]
        name = "%s_%d block %d<-%d" % (kind, idx, left, right)
        s = sop.get(key)
        m = mopd.get(key)
        if s is None or m is None:
            fails.append(("driver", False, "no model/spec output for " + name))
            continue
        # (a) specification vs implementation
        srows, scols, sv = s
        if (srows, scols) != (rows, cols):
            fails.append(("shape", True, "%s: stored %dx%d, block sizes %dx%d" % (name, rows, cols, srows, scols)))
            continue
        dropped = 0.0
        bad = None
        for i in range(rows):
            for j in range(cols):
                x = sv[i * cols + j]
                if (i, j) in es:
                    if not close(es[(i, j)], x):
                        bad = bad or (i, j, es[(i, j)], x)
                elif abs(x) >= hl.PRUNE_MAY:
                    bad = bad or (i, j, None, x)
                else:
                    dropped += abs(x)
                    npruned += abs(x) > 0
        if bad:
            fails.append(("rotation", True, "%s entry (%d,%d): stored %r, U_to^+ O U_from = %r" % ((name,) + bad)))
        # model vs specification / implementation
        if m[0] == "FAIL":
            fails.append(("rotation-model", False, "%s: model outcome %s" % (name, m[1])))
        else:
            mv = m[2]
            if any(not close(a, b) for a, b in zip(mv, sv)):
                k = next(k for k in range(len(sv)) if not close(mv[k], sv[k]))
                fails.append(("rotation-model", False, "%s cell %d: model %r specification %r" % (name, k, mv[k], sv[k])))
            ms = mops.get(key)
            if ms is not None and not bad:
                for ij in set(ms) ^ set(es):
                    x = ms.get(ij, es.get(ij))
                    if abs(x) >= hl.PRUNE_MAY:
                        fails.append(("pruning-model", False, "%s: sparsity pattern differs at %r (value %r)" % (name, ij, x)))
                        break
        # (c) rotate back
        if key in back and not (back[key] <= TOL + 2 * dropped):
            fails.append(("rotate-back", True, "%s: max|U_to C U_from^+ - JW block| = %.3e (pruned mass %.1e)" % (name, back[key], dropped)))
        # (b) adjoint copy
        if kind == "c":
            ck = ("cdag", idx, right, left)
            if ck not in ops:
                fails.append(("adjoint", True, "%s: no stored creation part %d<-%d" % (name, right, left)))
            else:
                ces = ops[ck][2]
                exp = {(j, i): v.conjugate() for (i, j), v in ces.items()}
                if exp != es:
                    ij = next(iter(set(exp.items()) ^ set(es.items())))[0]
                    fails.append(("adjoint", True, "%s entry %r: stored c %r, adjoint of stored c^+ %r" % (name, ij, es.get(ij), exp.get(ij))))
                mc = mcopy.get(key)
                if mc is None or {k: v for k, v in mc.items()} != {k: v for k, v in exp.items() if v != 0}:
                    fails.append(("adjoint-model", False, "%s: container_copy model %r vs adjoint of dumped c^+ part" % (name, None if mc is None else len(mc))))
        # container vs one-by-one
        if kind in ("cdag1", "c1"):
            ck = (kind[:-1], idx, left, right)
            if ck not in ops:
                fails.append(("container-vs-single", True, "%s exists one-by-one but not in the container" % name))
            else:
                ces = ops[ck][2]
                for ij in set(ces) | set(es):
                    a, b = ces.get(ij), es.get(ij)
                    if (a is None or b is None):
                        if abs(a if a is not None else b) >= hl.PRUNE_MAY:
                            fails.append(("container-vs-single", True, "%s entry %r: container %r one-by-one %r" % (name, ij, a, b)))
                            break
                    elif not close(a, b):
                        fails.append(("container-vs-single", True, "%s entry %r: container %r one-by-one %r" % (name, ij, a, b)))
                        break
    # block maps and completeness
    for key in sorted(maps):
        if key in mmap and mmap[key] is not None and sorted(mmap[key]) != sorted(maps[key]):
            fails.append(("blockmap", outside.get(key, 0) > 0, "%s_%d: stored block map %r, model %r, JW entries outside the stored blocks: %d" % (key[0], key[1], maps[key], mmap[key], outside.get(key, 0))))
        elif outside.get(key, 0) > 0:
            fails.append(("incomplete", True, "%s_%d: %d non-zero Jordan-Wigner matrix elements lie outside the stored block pairs %r" % (key[0], key[1], outside[key], maps[key])))
        if key[0] in ("cdag1", "c1") and sorted(maps.get((key[0][:-1], key[1]), [])) != sorted(maps[key]):
            fails.append(("container-vs-single", True, "%s_%d: block maps differ: container %r one-by-one %r" % (key[0], key[1], maps.get((key[0][:-1], key[1])), maps[key])))
    # (d) CAR
    cars = {t[1]: (int(t[2]), HX(t[3]), HX(t[4]), HX(t[5])) for t in mo if t[0] == "CAR"}
    if "c" not in cars:
        fails.append(("driver", False, "no CAR output"))
    for k, (cnt, a, b, c) in cars.items():
        if not (a <= CAR_TOL and b <= CAR_TOL and c <= CAR_TOL):
            fails.append(("car", True, "%s: max|{c_i,c^+_j}-delta_ij| = %.3e, max|{c_i,c_j}| = %.3e, max|{c^+_i,c^+_j}| = %.3e over %d indices" % (
                "container" if k == "c" else "one-by-one", a, b, c, cnt)))
    return fails, {"parts": len(ops), "pruned_nonzero": npruned, "car": cars.get("c"), "back_max": max(back.values()) if back else None}


# ---------------------------------------------------------------------------------------------------------------
# container histories

def histories(n, rng, quick):
    """list of (kind, token string): P i j .. = prepareAll({i, j, ..}), P alone = prepareAll() (all indices), C = computeAll().
    Every history ends with C."""
    idx = list(range(n))
    lo = idx[:max(1, n // 2)]
    hi = idx[len(lo):] or idx
    P = lambda s: "P " + " ".join(str(i) for i in sorted(s))
    out = [("ascending-sets", "%s C %s C" % (P(lo), P(hi))),
           ("descending-sets", "%s C %s C" % (P(hi), P(lo))),
           ("overlapping-sets", "%s C %s C" % (P(lo + hi[:1]), P(lo[-1:] + hi))),
           ("same-set-twice", "%s C %s C" % (P(idx), P(idx))),
           ("subset-twice", "%s C %s C" % (P(hi), P(hi))),
           ("default-then-subset", "P C %s C" % P(hi)),
           ("subset-then-default", "%s C P C" % P(lo)),
           ("two-prepares-one-compute", "%s %s C" % (P(lo), P(hi))),
           ("compute-on-empty-then-fill", "C %s C %s C" % (P(hi), P(lo))),
           ("one-at-a-time-up", " ".join("P %d C" % i for i in idx)),
           ("one-at-a-time-down", " ".join("P %d C" % i for i in reversed(idx))),
           ("subset-only", "%s C C" % P(lo))]
    for _ in range(2 if quick else 5):
        steps = []
        for _ in range(rng.randint(2, 4)):
            sub = [i for i in idx if rng.random() < 0.5] or [rng.choice(idx)]
            steps.append(P(sub) + (" C" if rng.random() < 0.75 else ""))
        out.append(("random", " ".join(steps) + (" C" if not steps[-1].endswith("C") else "")))
    return out


def requested(tokens, n):
    """indices the history asks the container for"""
    t = tokens.split()
    req = set()
    p = 0
    while p < len(t):
        if t[p] == "P":
            p += 1
            sub = []
            while p < len(t) and t[p] not in ("P", "C"):
                sub.append(int(t[p]))
                p += 1
            req |= set(sub) if sub else set(range(n))
        else:
            p += 1
    return req


def run_histories(text, variant, hists):
    """h_c10 on one scenario: returns (error or None, base records, single records, [records of history k])"""
    hb = pv.build_harness("h_c10", variant)
    inp = "model\n%s\nend\n%s\nsingle\n" % (text.strip(), "\n".join("history " + h for h in hists))
    rc, out, err = pv.run_harness(hb, inp, timeout=600)
    recs = [l.split() for l in out.split("\n") if l.strip()]
    if rc != 0:
        return "harness exit code %d: %s" % (rc, (pv.sanitizer_digest(err) or err)[-400:]), [], [], []
    if not recs or recs[0][0] != "BUILT":
        return "build: %s" % " ".join(recs[0] if recs else ["no output"]), [], [], []
    base, single, per = [], [], []
    where = base
    for t in recs[1:]:
        if t[0] == "HISTORY":
            per.append([])
            where = per[-1]
        elif t[0] == "ENDHISTORY":
            where = base
        elif t[0] == "SINGLE":
            where = single
        elif t[0] == "THROWS":
            return "a query threw: " + " ".join(t), base, single, per
        else:
            where.append(t)
    if len(per) != len(hists):
        return "%d history blocks for %d histories" % (len(per), len(hists)), base, single, per
    return None, base, single, per


STATUS = {0: "Constructed", 1: "Prepared", 2: "Computed"}


def analyse_history(base, single, hrecs, tokens, ref=None, force_full=False):
    """one history: returns (failures, facts, how) with how = "identical-to-one-go" | "full-analysis".
    ref = (opmats, opmaps) of the container filled in one go, already verified by analyse_dump."""
    n = int(next(t[1] for t in base if t[0] == "N"))
    req = requested(tokens, n)
    fails = []
    missing = [t for t in hrecs if t[0] == "OPMISSING"]
    if missing:
        fails.append(("missing", True, "after the history [%s] the container holds no %s" % (tokens, ", ".join("%s_%s" % ("c^+" if t[1] == "cdag" else "c", t[2]) for t in missing))))
    ops, maps = hl.opmats(hrecs), hl.opmaps(hrecs)
    if ref is not None and not force_full and not missing and not [t for t in hrecs if t[0] == "COLROWDIFF"]:
        rops = {k: v for k, v in ref[0].items() if k[0] in ("cdag", "c") and k[1] in req}
        rmaps = {k: v for k, v in ref[1].items() if k[0] in ("cdag", "c") and k[1] in req}
        if ops == rops and maps == rmaps:
            return fails, {"parts": len(ops)}, "identical-to-one-go"
    status = {(t[1], int(t[2])): int(t[3]) for t in hrecs if t[0] == "OPSTATUS"}
    one = [t for t in single if t[0] in ("OPMAP", "OPMAT", "COLROWDIFF") and int(t[2]) in req]
    f2, facts = analyse_dump(base + [t for t in hrecs if t[0] in ("OPMAP", "OPMAT", "COLROWDIFF")] + one)
    notcomp = sorted(k for k, v in status.items() if v < 2)
    for fk, is_impl, detail in f2:
        if is_impl and notcomp:
            detail += "  [status after the history: %s]" % ", ".join("%s_%d %s" % ("c^+" if k[0] == "cdag" else "c", k[1], STATUS.get(status[k], status[k])) for k in notcomp[:6])
        fails.append((fk, is_impl, "after the history [%s]: %s" % (tokens, detail) if fk not in ("driver",) else detail))
    return fails, facts, "full-analysis"


def history_fails(text, variant, tokens):
    """for shrinking / replay: failures of one history on one scenario (full analysis); [] when the scenario does not build"""
    err, base, single, per = run_histories(text, variant, [tokens])
    if err:
        return [("workflow", False, err)]
    n = int(next(t[1] for t in base if t[0] == "N"))
    if any(i >= n for i in requested(tokens, n)):
        return [("workflow", False, "history refers to an index >= %d" % n)]
    return analyse_history(base, single, per[0], tokens, force_full=True)[0]


UNSOUND = [("hubbard-atom, custom candidate n_0*n_1 (accepted by checkSymmetry: DESIGN.md section 5 item 5, property C07)",
            "site A 1 2\naddCoulombS A 1 -0.5\nsymm custom\niom 1 1 4 1 0 0 0 1 1 0 1\nbeta 1\n", ["opsingle 0", "opsingle 1", "quad 0 1"])]


def unsound_tie(chk):
    """On a partition that the field operators do NOT respect (an image state lies in another block) the property cannot hold;
    what is compared here is only model vs implementation: S.getInnerState(L) is the position in L's own block, so the
    code (and the model) fill a wrong cell or read outside HTo.  Whether such partitions can arise is C07's subject."""
    for name, text, qs in UNSOUND:
        r = edlib.run(text, qs, variant="real")
        if r.error or r.crash or not r.dumprec("VEC"):
            continue
        rc, mo, err = hl.model(r.dump, ["ops"])
        ops = hl.opmats(r.dump)
        outside = sum(int(t[3]) for t in mo if t[0] == "OUTSIDE")
        agree, oob, bad = 0, 0, None
        for t in mo:
            if t[0] != "MOPD" or t[1] == "c":
                continue
            key = (t[1], int(t[2]), int(t[3]), int(t[4]))
            if t[5] == "FAIL":
                oob += 1
                continue
            rows, cols, mv = int(t[5]), int(t[6]), hl.cplx_list(t[7:])
            es = ops[key][2]
            okk = (ops[key][0], ops[key][1]) == (rows, cols) and all(
                close(es.get((i, j), 0.0), mv[i * cols + j]) for i in range(rows) for j in range(cols))
            agree += okk
            if not okk:
                bad = bad or key
        chk.case("unsound|" + hl.canon(text), "unsound-partition-tie|" + ("respected" if outside == 0 else "not-respected"), nontrivial=True,
                 sample={"scenario": hl.canon(text), "what": name, "JW_entries_outside_stored_blocks": outside, "parts_model_equals_implementation": agree,
                         "parts_where_model_says_OOB": oob})
        chk.extra["unsound_partition_observed"] = {"scenario": hl.canon(text), "what": name, "JW_entries_outside_stored_blocks": outside,
                                                   "note": "not reported under C10: the partition comes from the symmetry analysis (C07); model == implementation on it"}
        if bad:
            chk.tie_broken("model on a partition the operator does not respect", "part %r of scenario %s" % (bad, hl.canon(text)))


def report(chk, variant, text, qs, fails, history=None):
    """history: token string when the failures come from a container history (then the full analysis of that history is what is re-run)"""
    if history is None:
        rerun = lambda cand: analyse(cand, variant, qs)[1]
    else:
        rerun = lambda cand: history_fails(cand, variant, history)
    seen = set()
    for fk, is_impl, detail in fails:
        if fk in seen:
            continue
        seen.add(fk)
        if fk in ("workflow", "driver"):
            chk.extra.setdefault("skipped", []).append({"why": fk, "detail": detail, "scenario": hl.canon(text)})
            if fk == "driver":
                chk.tie_broken("driver_c03", detail)
            continue
        cnt = chk.extra.setdefault("failures_by_kind", {})
        ck = ("history-" if history else "") + fk + "|" + variant
        cnt[ck] = cnt.get(ck, 0) + 1
        if cnt[ck] > 2:
            continue                      # two shrunk instances per kind and build are reported; the count stays in the evidence
        small = hl.shrink(text, lambda cand: any(f[0] == fk for f in rerun(cand)))
        f2 = rerun(small)
        d2 = next((f[2] for f in f2 if f[0] == fk), detail)
        rep = {"check": "C10", "kind": fk, "variant": variant, "scenario": small, "original": text, "queries": qs, "detail": d2}
        if history:
            rep["history"] = history
            rep["harness"] = "h_c10"
        if is_impl and history:
            chk.violation("history-%s|%s|%s|%s" % (fk, variant, hl.canon(small), history), "container history, %s: %s  [scenario: %s]" % (fk, d2, hl.canon(small)), rep)
        elif is_impl:
            chk.violation("%s|%s|%s" % (fk, variant, hl.canon(small)), "%s: %s  [scenario: %s]" % (fk, d2, hl.canon(small)), rep)
        else:
            chk.tie_broken("model-vs-implementation " + fk, "%s  [scenario (%s): %s]" % (d2, variant, hl.canon(small)))


def run_history_cases(chk, variant, text, nm, r, one_go_failed, quick, nscen, hstat):
    hs = histories(nm, chk.rng, quick)
    tokens = [h for _, h in hs]
    err, base, single, per = run_histories(text, variant, tokens)
    if err:
        hstat["skipped"] += 1
        chk.extra.setdefault("skipped", []).append({"why": "histories", "detail": err, "scenario": hl.canon(text)})
        if not err.startswith("build:"):
            # the one-go workflow ran on this scenario, so a crash / exception here comes from the history itself
            chk.violation("history-crash|%s|%s" % (variant, hl.canon(text)), "container histories: %s  [scenario: %s]" % (err, hl.canon(text)),
                          {"check": "C10", "kind": "history-crash", "variant": variant, "scenario": text, "histories": tokens, "harness": "h_c10", "detail": err})
        return
    hstat["scenarios"] += 1
    # the container filled in one go, as dumped by h_ed and verified by analyse() -- only when that analysis found nothing
    ref = None if one_go_failed else (hl.opmats(r.dump), hl.opmaps(r.dump))
    nfull = 2 if quick else 4
    forced = set((nscen * nfull + k) % len(hs) for k in range(nfull))      # rotates through the history kinds from scenario to scenario
    for k, (hk, tk) in enumerate(hs):
        fails, facts, how = analyse_history(base, single, per[k], tk, ref=ref, force_full=(k in forced))
        hstat["histories"] += 1
        hstat["by_kind"][hk] = hstat["by_kind"].get(hk, 0) + 1
        if how == "identical-to-one-go":
            hstat["verified_identical_to_one_go"] += 1
        else:
            hstat["verified_by_full_analysis"] += 1
            if k not in forced and ref is not None:
                hstat["not_identical_to_one_go"] += 1
        chk.case("history|%s|%s|%s" % (variant, hl.canon(text), tk), "container-history|%s|%s|%s" % (hk, how, variant), nontrivial=True,
                 sample={"scenario": hl.canon(text), "variant": variant, "history": tk, "kind": hk, "verified": how, "stored_parts": facts.get("parts")}
                 if (hk == "ascending-sets" and nscen % 9 == 1) else None)
        if fails:
            report(chk, variant, text, [], fails, history=tk)


def run(chk):
    quick = chk.tier == "quick"
    ok, log = chk.prove(["extract/Extract_C03.vo", "extract/Extract_ED.vo"], extra_props=["Properties_C10_source.v"])
    chk.trusted += ["translator/gen_ham.py (statement splitter + shape recognition, ~1500 lines of Python): reads the loops, cells, value expressions, product cases and "
                    "sparsification steps of FieldOperatorPart::compute, the loop of FieldOperator::compute and the statements of FieldOperatorContainer::prepareAll / "
                    "computeAll off the source into coq/gen/Gen_FieldOp*.v, Gen_Foc*.v; Properties_C10_source.v is about those generated descriptions and about "
                    "FieldOpGen.v's reading of them; a function that leaves the recognised shape falls back to the snapshot and is then tied by the runs only",
                    "extraction (ExtrOcamlBasic, ExtrOcamlNatInt, ExtrOCamlFloats), ocaml/driver_c03.ml (parsing, sparse<->dense, printing), harness/h_ed.cpp, harness/h_c10.cpp, tools/edlib.py",
                    "theories/ContainerHistory.v is a hand-written model of FieldOperatorContainer::prepareAll / computeAll (not extracted, not translated): its theorem says what "
                    "every history must produce, the history runs compare the library with the specification directly",
                    "mathcomp 1.15 (ssreflect, algebra) as installed",
                    "rotation_formula_model is about the model at an exact field (zero tests exact); the run-time instance is binary64 (compared with 1e-12)",
                    "anticommutation relations of the Jordan-Wigner matrices in the Fock basis: hypotheses of car_eigenbasis_partial (C05: CAR.v on basis states); "
                    "unitarity of the assembled eigenvectors: C03's per-run certificate"]
    chk.assume += ["the partition is the one dumped by StatesClassification (soundness and single-target property are C07); the check verifies per run that no Jordan-Wigner "
                   "matrix element lies outside the stored block pairs",
                   "Eigen 3.4: sparseView(1e-8)/prune(1e-8) drop |x| <= 1e-8 * 1e-12 (reference * dummy_precision); the model uses the same rule, the comparison tolerates "
                   "absent entries up to 1.01e-8 as the documented threshold",
                   "theorems are about exact arithmetic; comparisons of binary64 results use 1e-12 (entries are bounded by 1)",
                   "large-block stage: tested, not proved or tied to the model -- numpy reference (checks/c10_npref.py, interpreter python3-vt), tolerance 1e-10 per entry "
                   "(rotations of 100x100 blocks), 1e-7 for the assembled anticommutators; a scheduling-dependent defect can escape a single run"]
    plan = [("real", False, 40 if quick else 150)]
    if quick:
        plan.append(("complex", True, 6))
    else:
        plan.append(("complex", True, 100))
        plan.append(("complex", False, 30))
    unsound_tie(chk)
    worst = {"back": 0.0, "car": 0.0, "parts": 0, "pruned_nonzero": 0, "copies": 0}
    hstat = {"scenarios": 0, "histories": 0, "verified_identical_to_one_go": 0, "verified_by_full_analysis": 0, "not_identical_to_one_go": 0, "skipped": 0, "by_kind": {}}
    nscen = 0
    for variant, cplx, count in plan:
        edlib.binaries(variant)
        for family, kind, text, nm in hl.gen_cases(chk.rng, count, variant, complex_amplitudes=cplx):
            qs = queries(nm, chk.rng, quick)
            r, fails, facts = analyse(text, variant, qs)
            if any(f[0] == "workflow" for f in fails):
                report(chk, variant, text, qs, fails)
                continue
            sig = hl.signature(r, family + ("-cplx" if cplx else ""), kind, variant)
            chk.case(variant + "|" + hl.canon(text) + "|" + ",".join(qs), sig, nontrivial=max(len(v) for v in r.blocks().values()) > 1,
                     sample={"scenario": hl.canon(text), "variant": variant, "stored_parts": facts.get("parts"), "car": facts.get("car"),
                             "rotate_back_max": facts.get("back_max"), "signature": sig} if len(chk.samples) < 6 and chk.evaluations % 7 == 0 else None)
            worst["back"] = max(worst["back"], facts.get("back_max") or 0.0)
            if facts.get("car"):
                worst["car"] = max(worst["car"], *facts["car"][1:])
            worst["parts"] += facts.get("parts", 0)
            worst["pruned_nonzero"] += facts.get("pruned_nonzero", 0)
            worst["copies"] += facts.get("copies_compared", 0)
            if fails:
                report(chk, variant, text, qs, fails)
            # container histories: verified by identity with the one-go container records just analysed, or by their own full analysis
            if not any(f[0] == "driver" for f in fails):
                nscen += 1
                run_history_cases(chk, variant, text, nm, r, bool(fails), quick, nscen, hstat)
    # LARGE-BLOCK stage: blocks of dimension 100, several OpenMP threads; TESTING with an independent numpy reference (checks/c10_large.py)
    c10_large.stage(chk, quick, analyse_dump)
    chk.extra["container_histories"] = hstat
    chk.extra["observed"] = {"max_rotate_back_deviation": worst["back"], "max_CAR_deviation": worst["car"], "stored_parts_compared": worst["parts"],
                             "nonzero_entries_absent_below_threshold": worst["pruned_nonzero"],
                             "copies_of_computed_operators_compared_with_the_original": worst["copies"]}
    import distslice
    distslice.gf_slice(chk, chk.tier == "quick", 'field operators computed through FieldOperator::compute(comm) / the container on several ranks are not the single-rank ones (seen through G)')
    chk.rule = ("scenario = model family x partition (default, ignored, custom integrals of motion N / S_z / N and S_z / per-site charges) x build, as for C03; per scenario every "
                "stored part of every c^+_i, c_i (container and one-by-one) and of a random sample of c^+_i c_j is compared; distinct = distinct canonical scenario + query set; "
                "non-trivial = at least one block larger than 1x1; the signature names family, partition and accepted symmetries, block shapes, degenerate or not, build. "
                "Container histories: per scenario 14 (quick) / 17 histories of prepareAll / computeAll calls (12 fixed shapes built from the lower and upper half of the index "
                "range + random ones); a history is verified by bit-identity of all its operator records with the one-go container verified in the same scenario, or by the "
                "full analysis (2 / 4 histories per scenario, rotating through the shapes, and every history whose records are not identical); distinct = scenario + history. "
                "Large-block stage (testing with an independent numpy reference, see coverage.large_block_stage): one random 5-site Hubbard chain (largest block 100) "
                "[thorough: + ring with order_spins, + complex hoppings in the complex build] x OMP_NUM_THREADS in {8, 4, 1} [thorough: {8 x3, 2, 4, 16, 1}]; all 10 c^+_i and "
                "c_i through the container at 8 threads (3 sampled at 4 and 1 in quick), two one by one; a case = (scenario, thread count, operator); non-trivial = "
                "largest block >= 64")


def replay(chk, path):
    obj = json.load(open(path))
    rep = obj.get("replay", {})
    print(json.dumps(obj, indent=1)[:3000])
    if isinstance(rep, dict) and rep.get("kind") == "large-block":
        c10_large.replay(chk, rep, analyse_dump)
        return chk.finish()
    if isinstance(rep, dict) and "scenario" in rep and ("history" in rep or "histories" in rep):
        for tk in ([rep["history"]] if "history" in rep else rep["histories"]):
            fails = history_fails(rep["scenario"], rep.get("variant", "real"), tk)
            print("history [%s] failures now:" % tk, fails)
            for fk, is_impl, detail in fails:
                if is_impl or (fk == "workflow" and rep.get("kind") == "history-crash"):
                    chk.violation("history-%s|%s|%s|%s" % (fk, rep.get("variant", "real"), hl.canon(rep["scenario"]), tk), "container history, %s: %s" % (fk, detail), rep)
        return chk.finish()
    if isinstance(rep, dict) and "scenario" in rep:
        r, fails, facts = analyse(rep["scenario"], rep.get("variant", "real"), rep.get("queries", ["opsingle 0"]))
        print("failures now:", fails)
        for fk, is_impl, detail in fails:
            if is_impl:
                chk.violation("%s|%s|%s" % (fk, rep.get("variant", "real"), hl.canon(rep["scenario"])), "%s: %s" % (fk, detail), rep)
        return chk.finish()
    run(chk)
    return chk.finish()
