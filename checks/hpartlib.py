"""Shared by checks/C03.py and checks/C10.py: scenario families and partitions, the model driver (driver_c03, extracted
from coq/theories/HPart.v + HPartSpec.v + EDSpec.v), parsing helpers, shrinking."""
import pv
import edlib
import scen

HX = edlib.hx
PRUNE_MAY = 1.01e-8        # an entry with |x| below this may be absent from a stored sparse matrix (MatrixElementTolerance)


def driver():
    return pv.build_driver("driver_c03", ["C03_model"], floats=True)


def model(recs, cmds, timeout=600):
    """feed dump records (token lists) + commands to the model driver; returns (rc, list of token lists, stderr)"""
    keep = ("N", "HPOLY", "NBLOCKS", "BLOCK", "VEC", "EIG", "OPMAP", "OPMAT")
    inp = "\n".join(" ".join(t) for t in recs if t[0] in keep) + "\n" + "\n".join(cmds) + "\n"
    rc, out, err = pv.sh([driver()], input=inp, timeout=timeout)
    return rc, [l.split() for l in out.split("\n") if l.strip()], err


# ---------------------------------------------------------------------------------------------------------------
# scenarios

def complexify(rng, text):
    """give the hopping amplitudes an imaginary part (complex build only); dyadic"""
    out = []
    for l in text.split("\n"):
        t = l.split()
        if t and t[0] in ("addHopping4", "addHopping8") and "," not in t[3]:
            t[3] = "%s,%s" % (t[3], scen.f(rng.choice([0.25, 0.5, -0.25, 0.75])))
            l = " ".join(t)
        out.append(l)
    return "\n".join(out)


def with_symm(text, symm_lines):
    """replace the `symm ...` line (and any iom lines) of a scenario"""
    ls = [l for l in text.strip().split("\n") if not l.startswith("symm") and not l.startswith("iom")]
    return "\n".join(ls + symm_lines) + "\n"


def index_info(text, variant):
    """(label, orbital, spin) of every single-particle index, from a run up to the index stage"""
    r = edlib.run(text, [], variant=variant, stage="index", oracle=False)
    return [(t[2], int(t[3]), int(t[4])) for t in r.dump if t[0] == "INFO" and t[2] != "NULL"]


def iom_line(terms):
    """terms: list of (coef, [(dag, idx), ...])"""
    return "iom %d %s" % (len(terms), " ".join("%s %d %s" % (scen.f(c), len(ops), " ".join("%d %d" % o for o in ops)) for c, ops in terms))


def partitions(info):
    """partition kind -> symm lines.  Spin: 1 = up, 0 = down (include/pomerol/Misc.h enum spin)."""
    n = len(info)
    N = iom_line([(1, [(1, i), (0, i)]) for i in range(n)])
    out = {"default": ["symm default"], "ignore": ["symm ignore"], "custom-N": ["symm custom", N]}
    if all(s in (0, 1) for _, _, s in info) and any(s == 1 for _, _, s in info):
        Sz = iom_line([(0.5 if info[i][2] == 1 else -0.5, [(1, i), (0, i)]) for i in range(n)])
        out["custom-Sz"] = ["symm custom", Sz]
        out["custom-N-Sz"] = ["symm custom", N, Sz]
    sites = sorted(set(l for l, _, _ in info))
    if len(sites) > 1:
        out["custom-sitecharges"] = ["symm custom"] + [iom_line([(1, [(1, i), (0, i)]) for i in range(n) if info[i][0] == s]) for s in sites]
    return out


FAMS_DEFAULT = [scen.hubbard_atom, scen.two_site, scen.anderson, scen.free_degenerate, scen.atomic_limit, scen.kanamori, scen.exchange]
FAMS_NOSYM = [scen.pairing, scen.three_orbital_small]      # default analysis unsuitable (no N / spinless): ignore or custom only


def gen_cases(rng, count, variant, complex_amplitudes=False):
    """list of (family, partition kind, scenario text, nmodes)"""
    cases = []
    k = 0
    while len(cases) < count:
        k += 1
        if k % 5 == 0:
            fam = rng.choice(FAMS_NOSYM)
            kinds = ["ignore", "custom-N"] if fam is scen.three_orbital_small else ["ignore", "custom-Sz"]
        else:
            fam = FAMS_DEFAULT[k % len(FAMS_DEFAULT)] if k % 2 else rng.choice(FAMS_DEFAULT)
            kinds = None
        name, text, nm, info = fam(rng, "default" if kinds is None else "ignore")
        if complex_amplitudes:
            text = complexify(rng, text)
        try:
            parts = partitions(index_info(text, variant))
        except Exception:
            continue
        kind = rng.choice(kinds if kinds is not None else sorted(parts))
        if kind not in parts:
            kind = "ignore"
        cases.append((name, kind, with_symm(text, parts[kind]), nm))
    return cases


# ---------------------------------------------------------------------------------------------------------------
# dump views

def cplx_list(tokens):
    return [complex(HX(tokens[k]), HX(tokens[k + 1])) for k in range(0, len(tokens) - 1, 2)]


def dense_blocks(recs, tag):
    """HBLK / VEC records -> {block: (size, [complex row-major])}"""
    return {int(t[1]): (int(t[2]), cplx_list(t[3:])) for t in recs if t[0] == tag}


def opmats(recs):
    """OPMAT records -> {(kind, idx, left, right): (rows, cols, {(r,c): value})}"""
    out = {}
    for t in recs:
        if t[0] != "OPMAT":
            continue
        nnz = int(t[7])
        es = {}
        for k in range(nnz):
            es[(int(t[8 + 4 * k]), int(t[9 + 4 * k]))] = complex(HX(t[10 + 4 * k]), HX(t[11 + 4 * k]))
        out[(t[1], int(t[2]), int(t[3]), int(t[4]))] = (int(t[5]), int(t[6]), es)
    return out


def opmaps(recs):
    return {(t[1], int(t[2])): [(int(t[4 + 2 * k]), int(t[5 + 2 * k])) for k in range(int(t[3]))] for t in recs if t[0] == "OPMAP"}


def signature(r, family, kind, variant):
    sizes = [len(v) for v in r.blocks().values()]
    ev = sorted(e for l in r.eigs().values() for e in l)
    degenerate = any(abs(a - b) < 1e-9 for a, b in zip(ev, ev[1:]))
    shape = ("1x1+" if 1 in sizes else "") + ("large" if max(sizes) > 1 else "")
    nsym = r.dumprec("NSYM")[0][1] if r.dumprec("NSYM") else "?"
    return "%s|%s(nsym=%s)|%s|%s|%s" % (family, kind, nsym, shape.rstrip("+"), "degenerate" if degenerate else "nondegenerate", variant)


def canon(text):
    return ";".join(l.strip() for l in text.strip().split("\n") if not l.startswith("beta"))


# ---------------------------------------------------------------------------------------------------------------
# shrinking: drop lattice lines (not sites, not symm/iom) while the failure persists

def shrink(text, still_fails, max_tries=40):
    lines = text.strip().split("\n")
    tries = 0
    changed = True
    while changed and tries < max_tries:
        changed = False
        for k in range(len(lines)):
            t = lines[k].split()
            if not t or t[0] in ("symm", "iom", "beta"):
                continue
            if t[0] == "site" and (any(t[1] in l.split()[1:] for l in lines if l.split() and l.split()[0] not in ("site", "iom", "symm", "beta"))
                                   or any(l.startswith("iom") for l in lines) or sum(l.startswith("site") for l in lines) < 2):
                continue                  # a site is only dropped when nothing refers to it (iom lines refer to indices: keep all sites then)
            cand = lines[:k] + lines[k + 1:]
            tries += 1
            try:
                if still_fails("\n".join(cand) + "\n"):
                    lines = cand
                    changed = True
                    break
            except Exception:
                pass
            if tries >= max_tries:
                break
    return "\n".join(lines) + "\n"
