"""Shared by checks/C03.py and checks/C10.py: scenario families and partitions, the model driver (driver_c03, extracted
from coq/theories/HPart.v + HPartSpec.v + EDSpec.v), parsing helpers, shrinking."""
import pv
import edlib
import scen

HX = edlib.hx
PRUNE_MAY = 1.01e-8        # an entry with |x| below this may be absent from a stored sparse matrix (MatrixElementTolerance)


def driver():
    return pv.build_driver("driver_c03", ["C03_model"], floats=True)


def model(recs, cmds, timeout=600):
    """feed dump records (token lists) + commands to the model driver; returns (rc, list of token lists, stderr)"""
    keep = ("N", "HPOLY", "NBLOCKS", "BLOCK", "VEC", "EIG", "OPMAP", "OPMAT")
    inp = "\n".join(" ".join(t) for t in recs if t[0] in keep) + "\n" + "\n".join(cmds) + "\n"
    rc, out, err = pv.sh([driver()], input=inp, timeout=timeout)
    return rc, [l.split() for l in out.split("\n") if l.strip()], err


# ---------------------------------------------------------------------------------------------------------------
# scenarios

def complexify(rng, text):
    """give the hopping amplitudes an imaginary part (complex build only); dyadic"""
    out = []
    for l in text.split("\n"):
        t = l.split()
        if t and t[0] in ("addHopping4", "addHopping8") and "," not in t[3]:
            t[3] = "%s,%s" % (t[3], scen.f(rng.choice([0.25, 0.5, -0.25, 0.75])))
            l = " ".join(t)
        out.append(l)
    return "\n".join(out)


def with_symm(text, symm_lines):
    """replace the `symm ...` line (and any iom lines) of a scenario"""
    ls = [l for l in text.strip().split("\n") if not l.startswith("symm") and not l.startswith("iom")]
    return "\n".join(ls + symm_lines) + "\n"


def index_info(text, variant):
    """(label, orbital, spin) of every single-particle index, from a run up to the index stage"""
    r = edlib.run(text, [], variant=variant, stage="index", oracle=False)
    return [(t[2], int(t[3]), int(t[4])) for t in r.dump if t[0] == "INFO" and t[2] != "NULL"]


def iom_line(terms):
    """terms: list of (coef, [(dag, idx), ...])"""
    return "iom %d %s" % (len(terms), " ".join("%s %d %s" % (scen.f(c), len(ops), " ".join("%d %d" % o for o in ops)) for c, ops in terms))


def partitions(info):
    """partition kind -> symm lines.  Spin: 1 = up, 0 = down (include/pomerol/Misc.h enum spin)."""
    n = len(info)
    N = iom_line([(1, [(1, i), (0, i)]) for i in range(n)])
    out = {"default": ["symm default"], "ignore": ["symm ignore"], "custom-N": ["symm custom", N]}
    if all(s in (0, 1) for _, _, s in info) and any(s == 1 for _, _, s in info):
        Sz = iom_line([(0.5 if info[i][2] == 1 else -0.5, [(1, i), (0, i)]) for i in range(n)])
        out["custom-Sz"] = ["symm custom", Sz]
        out["custom-N-Sz"] = ["symm custom", N, Sz]
    sites = sorted(set(l for l, _, _ in info))
    if len(sites) > 1:
        out["custom-sitecharges"] = ["symm custom"] + [iom_line([(1, [(1, i), (0, i)]) for i in range(n) if info[i][0] == s]) for s in sites]
    return out


FAMS_DEFAULT = [scen.hubbard_atom, scen.two_site, scen.anderson, scen.free_degenerate, scen.atomic_limit, scen.kanamori, scen.exchange]
FAMS_NOSYM = [scen.pairing, scen.three_orbital_small]      # default analysis unsuitable (no N / spinless): ignore or custom only


def gen_cases(rng, count, variant, complex_amplitudes=False):
    """list of (family, partition kind, scenario text, nmodes)"""
    cases = []
    k = 0
    while len(cases) < count:
        k += 1
        if k % 5 == 0:
            fam = rng.choice(FAMS_NOSYM)
            kinds = ["ignore", "custom-N"] if fam is scen.three_orbital_small else ["ignore", "custom-Sz"]
        else:
            fam = FAMS_DEFAULT[k % len(FAMS_DEFAULT)] if k % 2 else rng.choice(FAMS_DEFAULT)
            kinds = None
        name, text, nm, info = fam(rng, "default" if kinds is None else "ignore")
        if complex_amplitudes:
            text = complexify(rng, text)
        try:
            parts = partitions(index_info(text, variant))
        except Exception:
            continue
        kind = rng.choice(kinds if kinds is not None else sorted(parts))
        if kind not in parts:
            kind = "ignore"
        cases.append((name, kind, with_symm(text, parts[kind]), nm))
    return cases


# ---------------------------------------------------------------------------------------------------------------
# tiny amplitudes: matrix elements of the Hamiltonian far below every threshold the library uses for OTHER quantities
# (FieldOperatorPart::MatrixElementTolerance = 1e-8 is about matrix elements of c / c^+ between normalised eigenvectors, numbers of
# order 1; the Hamiltonian carries energy units and has no such cut).  All values are powers of two times small integers, so the
# block matrices stay exact in binary64 (the spread between the largest and the smallest term is below 2^45) and the exact
# comparison with the model holds.  Above 100 * epsilon = 2.2e-14 (Operator's own zero test), so no term may be dropped at all.
# Degenerate levels throughout: the tiny coupling decides the eigenvectors and shifts the eigenvalues at FIRST order.

TINY_EXPONENTS = [28, 30, 31, 33, 36, 40]


def tiny(rng, sign=True):
    x = 2.0 ** -rng.choice(TINY_EXPONENTS)
    return -x if sign and rng.random() < 0.5 else x


def _fin(rng, name, s, symm, nm):
    return name, s + "symm %s\nbeta %s\n" % (symm, scen.f(rng.choice(scen.BETAS))), nm, {"tiny": True}


def tiny_weak_link(rng, symm="default"):
    """two identical atoms (interacting or not) joined by a hopping of 2^-28 .. 2^-40: exact eigenvectors (1,+-1)/sqrt 2"""
    U = rng.choice([0, 1, 2])
    eps = rng.choice([-U / 2, -U / 2, rng.choice(scen.DY)])
    s = "site A 1 2\nsite B 1 2\naddCoulombS A %s %s\naddCoulombS B %s %s\n" % (scen.f(U), scen.f(eps), scen.f(U), scen.f(eps))
    s += "addHopping4 A B %s\n" % scen.f(tiny(rng))
    return _fin(rng, "tiny-weak-link", s, symm, 4)


def tiny_units(rng, symm="default"):
    """a whole model written in units of u = 2^-k: every matrix element, diagonal ones included, is below 1e-8"""
    u = tiny(rng, sign=False)
    U = rng.choice([1, 2, 4])
    kind = rng.random()
    if kind < 0.4:
        s = "site A 1 2\nsite B 1 2\naddCoulombS A %s %s\naddCoulombS B %s %s\naddHopping4 A B %s\n" % (
            scen.f(U * u), scen.f(-U * u / 2), scen.f(U * u), scen.f(-U * u / 2), scen.f(rng.choice([-1, 0.5, 0.25]) * u))
        nm = 4
    elif kind < 0.7:
        s = "site A 1 2\nsite B 1 2\naddCoulombS A %s %s\naddLevel B %s\naddHopping4 A B %s\n" % (
            scen.f(U * u), scen.f(-U * u / 2), scen.f(rng.choice([0, 0.5, -0.5]) * u), scen.f(rng.choice([0.5, 1]) * u))
        nm = 4
    else:
        s = "site A 1 2\naddCoulombS A %s %s\naddMagnetization A %s\n" % (scen.f(U * u), scen.f(rng.choice([-U / 2, 0.25]) * u), scen.f(0.25 * u))
        nm = 2
    return _fin(rng, "tiny-units", s, symm, nm)


def tiny_free(rng, symm="default"):
    """free degenerate levels, tiny hoppings of two different magnitudes along a chain, one site possibly isolated"""
    e = rng.choice([0, 0.5, -0.5])
    three = rng.random() < 0.4
    s = "site A 1 2\nsite B 1 2\n" + ("site C 1 2\n" if three else "")
    s += "addLevel A %s\naddLevel B %s\n" % (scen.f(e), scen.f(e)) + ("addLevel C %s\n" % scen.f(e) if three else "")
    if three:
        s += "addHopping4 A C %s\n" % scen.f(tiny(rng))
        if rng.random() < 0.5:
            s += "addHopping4 B C %s\n" % scen.f(tiny(rng))
    else:
        s += "addHopping4 A B %s\n" % scen.f(tiny(rng))
    return _fin(rng, "tiny-free-degenerate", s, symm, 6 if three else 4)


def tiny_spinflip(rng, symm="default"):
    """an ordinary two-site model whose S_z is broken only by a spin-flip hopping of tiny magnitude"""
    U = rng.choice([0, 1, 2])
    s = "site A 1 2\nsite B 1 2\naddCoulombS A %s %s\naddCoulombS B %s %s\n" % (scen.f(U), scen.f(-U / 2), scen.f(U), scen.f(-U / 2))
    if rng.random() < 0.6:
        s += "addHopping4 A B %s\n" % scen.f(rng.choice([0.25, 0.5, -0.5]))
    s += "addHopping8 A B %s 0 0 0 1\n" % scen.f(tiny(rng))
    return _fin(rng, "tiny-spinflip", s, symm, 4)


def tiny_diagonal(rng, symm="default"):
    """degenerate levels split only by a tiny field / a tiny level shift: diagonal matrix elements O(1) + 2^-k and 1x1 blocks"""
    U = rng.choice([1, 2])
    if rng.random() < 0.5:
        s = "site A 1 2\naddCoulombS A %s %s\naddMagnetization A %s\n" % (scen.f(U), scen.f(-U / 2), scen.f(tiny(rng)))
        nm = 2
    else:
        s = "site A 1 2\nsite B 1 2\naddCoulombS A %s %s\naddCoulombS B %s %s\naddLevel B %s\naddHopping4 A B %s\n" % (
            scen.f(U), scen.f(-U / 2), scen.f(U), scen.f(-U / 2), scen.f(tiny(rng)), scen.f(rng.choice([0.5, 1, tiny(rng)])))
        nm = 4
    return _fin(rng, "tiny-diagonal", s, symm, nm)


def tiny_interaction(rng, symm="default"):
    """free model with O(1) hopping whose many-body degeneracies are lifted by an interaction of tiny magnitude"""
    e = rng.choice([0, 0.5, -0.5])
    s = "site A 1 2\nsite B 1 2\naddLevel A %s\naddLevel B %s\naddHopping4 A B %s\n" % (scen.f(e), scen.f(e), scen.f(rng.choice([0.5, 1])))
    s += "addCoulombS A %s 0\n" % scen.f(tiny(rng, sign=False))
    if rng.random() < 0.5:
        s += "addSS A B %s\n" % scen.f(tiny(rng))
    return _fin(rng, "tiny-interaction", s, symm, 4)


def tiny_hund(rng, symm="default"):
    """two-orbital atom: Hund coupling (spin-flip and pair-hopping terms, off-diagonal inside the blocks) of tiny magnitude"""
    U = rng.choice([1, 2])
    s = "site A 2 2\naddCoulombP3 A %s %s %s\n" % (scen.f(U), scen.f(tiny(rng, sign=False)), scen.f(rng.choice([-1, -0.5, 0.25])))
    return _fin(rng, "tiny-hund", s, symm, 4)


FAMS_TINY = [tiny_weak_link, tiny_units, tiny_free, tiny_spinflip, tiny_diagonal, tiny_interaction, tiny_hund]


def complexify_tiny(rng, text):
    """complex build: every hopping gets an imaginary part, a tiny one where the hopping is tiny (phases that cannot be gauged
    away are not needed: the Hermitian block must be reproduced entry by entry either way)"""
    out = []
    for l in text.split("\n"):
        t = l.split()
        if t and t[0] in ("addHopping4", "addHopping8") and "," not in t[3]:
            re_ = float(t[3])
            im = tiny(rng) if abs(re_) < 1e-6 else rng.choice([0.25, -0.25, tiny(rng)])
            t[3] = "%s,%s" % (t[3] if rng.random() < 0.7 else "0", scen.f(im))
            l = " ".join(t)
        out.append(l)
    return "\n".join(out)


def gen_tiny_cases(rng, count, variant, complex_amplitudes=False):
    """like gen_cases, over the tiny-amplitude families; the families are cycled so that every one occurs also in a short run"""
    cases = []
    k = rng.randrange(len(FAMS_TINY))
    tries = 0
    while len(cases) < count and tries < 10 * count + 20:
        tries += 1
        fam = FAMS_TINY[k % len(FAMS_TINY)]
        k += 1
        name, text, nm, info = fam(rng, "default")
        if complex_amplitudes:
            text = complexify_tiny(rng, text)
        try:
            parts = partitions(index_info(text, variant))
        except Exception:
            continue
        kind = rng.choice(sorted(parts))
        cases.append((name, kind, with_symm(text, parts[kind]), nm))
    return cases


# ---------------------------------------------------------------------------------------------------------------
# spectra that do not contain / straddle 0.  Every preset of LatticePresets is normal ordered, so the Fock vacuum is an eigenstate
# with energy 0 and the lowest eigenvalue of every preset-built model is <= 0.  Lattice::Term accepts any operator string: the
# hole-picture level  e c_i c^+_i = e (1 - n_i)  and the pair  v c c^+ + v c^+ c = v  are legal terms (Operator normal-orders them
# and keeps the constant).  With them the whole spectrum can be positive (a ground energy computed as a minimum that starts from 0,
# or from an uninitialised / zero-initialised member, is then wrong), negative, or straddle 0.  Dyadic amplitudes as everywhere.

def _hole(v, site, orb, spin):
    return "term 2 %s 0 %s %d %d 1 %s %d %d\n" % (scen.f(v), site, orb, spin, site, orb, spin)


def _part(v, site, orb, spin):
    return "term 2 %s 1 %s %d %d 0 %s %d %d\n" % (scen.f(v), site, orb, spin, site, orb, spin)


def holes_levels(rng, symm="default", sign=None):
    """e_i c_i c^+_i + f_i c^+_i c_i on every mode, Hubbard U, hopping; parameters of one sign (spectrum strictly positive or
    strictly negative: every basis state has |diagonal energy| >= number of modes, hoppings <= 1/2) or of mixed signs"""
    sign = sign or rng.choice(["positive", "negative", "mixed"])
    nsites = rng.choice([1, 2, 2, 2, 3])
    sites = ["A", "B", "C"][:nsites]
    sg = {"positive": 1, "negative": -1, "mixed": 0}[sign]
    s = "".join("site %s 1 2\n" % x for x in sites)
    for x in sites:
        for sp in (0, 1):
            e = rng.choice([1, 1.25, 1.5, 2]) * (sg or rng.choice([1, -1]))
            f_ = rng.choice([1, 1.5, 1.75, 2]) * (sg or rng.choice([1, -1]))
            s += _hole(e, x, 0, sp) + _part(f_, x, 0, sp)
        if rng.random() < 0.7:
            U = rng.choice([0.5, 1, 2]) * (sg or 1)
            s += "term 4 %s 1 %s 0 1 1 %s 0 0 0 %s 0 0 0 %s 0 1\n" % (scen.f(U), x, x, x, x)         # U n_up n_down
    for a, b in zip(sites, sites[1:]):
        s += "addHopping4 %s %s %s\n" % (a, b, scen.f(rng.choice([0.25, 0.5, -0.25])))
    if nsites >= 2 and rng.random() < 0.3:
        s += "addHopping8 A B %s 0 0 0 1\n" % scen.f(rng.choice([0.25, -0.25]))
    return "holes-" + sign, s + "symm %s\nbeta %s\n" % (symm, scen.f(rng.choice(scen.BETAS))), 2 * nsites, {"holes": True}


def shifted_family(rng, symm="default"):
    """an ordinary model of tools/scen.py plus a constant: v c c^+ + v c^+ c = v on one mode, |v| above the band width"""
    fam = rng.choice(FAMS_DEFAULT)
    name, text, nm, info = fam(rng, symm)
    v = rng.choice([4, 8, 16, -4, -8, -16])
    lines = text.strip().split("\n")
    site = [l.split()[1] for l in lines if l.startswith("site ")][0]
    body = [l for l in lines if not (l.startswith("symm") or l.startswith("beta") or l.startswith("iom"))]
    tail = [l for l in lines if l.startswith("symm") or l.startswith("beta") or l.startswith("iom")]
    body += [_hole(v, site, 0, 0).strip(), _part(v, site, 0, 0).strip()]
    return "shifted%s-%s" % ("+" if v > 0 else "-", name), "\n".join(body + tail) + "\n", nm, {"holes": True}


def holes_only(rng, symm="default"):
    """nothing but hole-type terms and a hopping: H = sum e_i (1 - n_i) + t (...): the vacuum is the HIGHEST or the lowest state"""
    sg = rng.choice([1, -1])
    s = "site A 1 2\nsite B 1 2\n"
    for x in ("A", "B"):
        for sp in (0, 1):
            s += _hole(sg * rng.choice([1, 1.5, 2, 3]), x, 0, sp)
    if rng.random() < 0.7:
        s += "addHopping4 A B %s\n" % scen.f(rng.choice([0.25, 0.5]))
    return "holes-only" + ("+" if sg > 0 else "-"), s + "symm %s\nbeta %s\n" % (symm, scen.f(rng.choice(scen.BETAS))), 4, {"holes": True}


FAMS_HOLES = [lambda rng, symm="default": holes_levels(rng, symm, "positive"), shifted_family,
              lambda rng, symm="default": holes_levels(rng, symm, "negative"), holes_only,
              lambda rng, symm="default": holes_levels(rng, symm, "mixed")]


def gen_hole_cases(rng, count, variant, complex_amplitudes=False):
    """like gen_cases, over the families with hole-type terms / constants; cycled so that every one occurs also in a short run"""
    cases = []
    k = rng.randrange(len(FAMS_HOLES))
    tries = 0
    while len(cases) < count and tries < 10 * count + 20:
        tries += 1
        fam = FAMS_HOLES[k % len(FAMS_HOLES)]
        k += 1
        name, text, nm, info = fam(rng, "default")
        if complex_amplitudes:
            text = complexify(rng, text)
        try:
            parts = partitions(index_info(text, variant))
        except Exception:
            continue
        kind = rng.choice(sorted(parts))
        cases.append((name, kind, with_symm(text, parts[kind]), nm))
    return cases


def spectrum_class(eigs):
    """of a {block: [eigenvalues]} dict: all-positive | all-negative | straddles-0 | touches-0 (0 is the lowest or the highest level)"""
    ev = [e for l in eigs.values() for e in l]
    lo, hi = min(ev), max(ev)
    if lo > 0:
        return "all-positive"
    if hi < 0:
        return "all-negative"
    if lo < 0 < hi:
        return "straddles-0"
    return "touches-0"


# ---------------------------------------------------------------------------------------------------------------
# dump views

def cplx_list(tokens):
    return [complex(HX(tokens[k]), HX(tokens[k + 1])) for k in range(0, len(tokens) - 1, 2)]


def dense_blocks(recs, tag):
    """HBLK / VEC records -> {block: (size, [complex row-major])}"""
    return {int(t[1]): (int(t[2]), cplx_list(t[3:])) for t in recs if t[0] == tag}


def opmats(recs):
    """OPMAT records -> {(kind, idx, left, right): (rows, cols, {(r,c): value})}"""
    out = {}
    for t in recs:
        if t[0] != "OPMAT":
            continue
        nnz = int(t[7])
        es = {}
        for k in range(nnz):
            es[(int(t[8 + 4 * k]), int(t[9 + 4 * k]))] = complex(HX(t[10 + 4 * k]), HX(t[11 + 4 * k]))
        out[(t[1], int(t[2]), int(t[3]), int(t[4]))] = (int(t[5]), int(t[6]), es)
    return out


def opmaps(recs):
    return {(t[1], int(t[2])): [(int(t[4 + 2 * k]), int(t[5 + 2 * k])) for k in range(int(t[3]))] for t in recs if t[0] == "OPMAP"}


def signature(r, family, kind, variant):
    sizes = [len(v) for v in r.blocks().values()]
    ev = sorted(e for l in r.eigs().values() for e in l)
    degenerate = any(abs(a - b) < 1e-9 for a, b in zip(ev, ev[1:]))
    shape = ("1x1+" if 1 in sizes else "") + ("large" if max(sizes) > 1 else "")
    nsym = r.dumprec("NSYM")[0][1] if r.dumprec("NSYM") else "?"
    return "%s|%s(nsym=%s)|%s|%s|%s" % (family, kind, nsym, shape.rstrip("+"), "degenerate" if degenerate else "nondegenerate", variant)


def canon(text):
    return ";".join(l.strip() for l in text.strip().split("\n") if not l.startswith("beta"))


# ---------------------------------------------------------------------------------------------------------------
# shrinking: drop lattice lines (not sites, not symm/iom) while the failure persists

def shrink(text, still_fails, max_tries=40):
    lines = text.strip().split("\n")
    tries = 0
    changed = True
    while changed and tries < max_tries:
        changed = False
        for k in range(len(lines)):
            t = lines[k].split()
            if not t or t[0] in ("symm", "iom", "beta"):
                continue
            if t[0] == "site" and (any(t[1] in l.split()[1:] for l in lines if l.split() and l.split()[0] not in ("site", "iom", "symm", "beta"))
                                   or any(l.startswith("iom") for l in lines) or sum(l.startswith("site") for l in lines) < 2):
                continue                  # a site is only dropped when nothing refers to it (iom lines refer to indices: keep all sites then)
            cand = lines[:k] + lines[k + 1:]
            tries += 1
            try:
                if still_fails("\n".join(cand) + "\n"):
                    lines = cand
                    changed = True
                    break
            except Exception:
                pass
            if tries >= max_tries:
                break
    return "\n".join(lines) + "\n"


# ---------------------------------------------------------------------------------------------------------------
# histories on one object (harness h_c03 `history`): prepare / compute called more than once on one HamiltonianPart / Hamiltonian

PART_HISTORIES = ["pcpc", "ppc", "pcc", "pcpcpc", "pcppc"]     # p = HamiltonianPart::prepare, c = HamiltonianPart::compute
HAM_HISTORIES = ["PCPC", "PPC", "PCC", "PCPPCC"]               # P = Hamiltonian::prepare(comm), C = Hamiltonian::compute(comm)


class Histories:
    """parsed output of `history`: .base = N / HPOLY / NBLOCKS / BLOCK records (token lists),
    .pstep[(h, k, b)] = (status, size, [complex row-major]), .peig[(h, k, b)] = [float],
    .hstep[(h, k)] = status, .hpart[(h, k, b)], .heig[(h, k, b)], .hground[(h, k)], .hestate[(h, k)], .heall[(h, k)],
    .throws = [token lists], .done, .rc, .err, .input"""

    def __init__(self):
        self.base, self.pstep, self.peig, self.hstep, self.hpart, self.heig = [], {}, {}, {}, {}, {}
        self.hground, self.hestate, self.heall, self.throws = {}, {}, {}, []
        self.done, self.rc, self.err, self.input, self.error = False, None, "", "", None

    def n(self):
        return int([t for t in self.base if t[0] == "N"][0][1])

    def blocks(self):
        return {int(t[1]): [int(x) for x in t[3:]] for t in self.base if t[0] == "BLOCK"}


def run_histories(text, variant, part_hists, ham_hists, timeout=300):
    h = pv.build_harness("h_c03", variant)
    hs = Histories()
    hs.input = "model\n%s\nend\nhistory %s\n" % (text.strip(), " ".join(list(part_hists) + list(ham_hists)))
    hs.rc, out, hs.err = pv.run_harness(h, hs.input, timeout=timeout)
    for l in out.split("\n"):
        t = l.split()
        if not t:
            continue
        if t[0] in ("N", "HPOLY", "NBLOCKS", "BLOCK"):
            hs.base.append(t)
        elif t[0] == "ERROR":
            hs.error = " ".join(t[1:])
        elif t[0] == "PSTEP":
            hs.pstep[(t[1], int(t[2]), int(t[3]))] = (int(t[4]), int(t[5]), cplx_list(t[6:]))
        elif t[0] == "PEIG":
            hs.peig[(t[1], int(t[2]), int(t[3]))] = [HX(x) for x in t[4:]]
        elif t[0] == "HSTEP":
            hs.hstep[(t[1], int(t[2]))] = int(t[3])
        elif t[0] == "HPART":
            hs.hpart[(t[1], int(t[2]), int(t[3]))] = (int(t[4]), int(t[5]), cplx_list(t[6:]))
        elif t[0] == "HEIG":
            hs.heig[(t[1], int(t[2]), int(t[3]))] = [HX(x) for x in t[4:]]
        elif t[0] == "HGROUND":
            hs.hground[(t[1], int(t[2]))] = HX(t[3])
        elif t[0] == "HESTATE":
            hs.hestate[(t[1], int(t[2]))] = [HX(x) for x in t[3:]]
        elif t[0] == "HEALL":
            hs.heall[(t[1], int(t[2]))] = [HX(x) for x in t[3:]]
        elif t[0] in ("PTHROW", "HTHROW", "BADHISTORY"):
            hs.throws.append(t)
        elif t[0] == "HISTDONE":
            hs.done = True
    return hs


def _hexc(z):
    return "%s %s" % (float(z.real).hex(), float(z.imag).hex())


def model_histories(hs, mode, eigen_systems):
    """one run of the model driver for a whole scenario: the model's blocks (MHBLK) and, for every eigen-system in
    eigen_systems = [{block: (size, [complex row-major U], [eigenvalues])}] (all blocks present), the answer to `energies`
    (BCERT with the model's own H_b, MGROUND, MESTATE, MEALL).  Returns (rc, {b: (size, [complex]) | None}, [list of records], stderr)."""
    base = "\n".join(" ".join(t) for t in hs.base)
    inp = base + "\nmode %s\nhblk\n" % mode
    for es in eigen_systems:
        inp += base + "\n"
        for b in sorted(es):
            sz, u, e = es[b]
            inp += "VEC %d %d %s\n" % (b, sz, " ".join(_hexc(z) for z in u))
            inp += "EIG %d %s\n" % (b, " ".join(float(x).hex() for x in e))
        inp += "mode %s\nenergies\n" % mode
    rc, out, err = pv.sh([driver()], input=inp, timeout=600)
    recs = [l.split() for l in out.split("\n") if l.strip()]
    mh, groups = {}, []
    for t in recs:
        if t[0] == "DRIVER-ERROR":
            rc = rc or 99
            err += " " + " ".join(t)
        elif t[0] == "MHBLK":
            mh[int(t[1])] = None if t[2] == "FAIL" else (int(t[2]), cplx_list(t[3:]))
        elif t[0] == "MGROUND":
            groups.append([t])
        elif groups:
            groups[-1].append(t)
    return rc, mh, groups, err
