"""C17 -- No out-of-bounds access or undefined behaviour on any supported workflow.

PROOF PART.  props/Properties_C17.v (39 theorems, no axioms): every routine of the library that computes an index and reads
or writes through it, and that has an executable model in PV, is modelled with bounds-checked accesses, and "no OOB / Uninit /
OutOfFuel outcome for every well-formed input" is proved: the three index-chasing loops, TwoParticleGFPart::compute, the
table of TwoParticleGF::compute (incl. the empty frequency list), the state-label tests and the look-ups behind them
(Hamiltonian::getEigenValue, DensityMatrix::getWeight), Operator equality / normalisation / product, IndexClassification
(both ordering modes), the vertex storage (fill, refill, lookup), the container's permutation tables, the lattice
interface, HamiltonianPart::prepare, FieldOperatorPart::compute.  The `source_*` theorems are about the models instantiated
with the switches that translator/gen_c17.py reads off the C++ on every run (coq/gen/Gen_C17.v): they are unconditional
and only typecheck while every switch is `true`.  Dropping a guard from the C++ turns its switch into `false`, the Coq
build fails, and this module then looks for a concrete failing input: stage W below runs, for every switch, the library
input that corresponds to the refutation witness proved in Coq for the unguarded variant (e.g. off-diagonal components
in a single block for the chase loops) through the ASan+UBSan build; the sanitizer report is the replay.

TESTING PART (labelled so in the evidence; the claim is partial by construction, DESIGN.md section 4):
  W  witness inputs per switch (above), always run
  F  every scenario family of tools/scen.py, symmetries ignored and default, all G_ij, sampled susceptibilities, averages,
     chi for index quadruples with equal and distinct indices, purge on/off, empty frequency lists  -> ASan+UBSan (h_ed)
  S  call-sequence variety (harness/h_c17.cpp): every prepare/compute called twice, getters before compute (exceptions),
     containers filled twice, Lattice copied and the original destroyed, both index orderings, custom integrals of motion,
     spinless and mixed-spin sites, empty frequency lists, state labels 2^N-1 / 2^N / 2^N+1 / ULONG_MAX, G at many Matsubara
     numbers, tau at both ends, Vertex4 recomputed with shrinking windows                                -> ASan+UBSan
  H  the harnesses of C05 (operator algebra incl. equality), C13 (container histories), C15 (vertex storage),
     C18 (index bookkeeping), C20 (lattice interface, getSite of unknown labels)                          -> ASan+UBSan
  M  MPI runs (np = 2, 3; 4 in the thorough tier) of harness/h_c06 (Hamiltonian, G, 2PGF container split / not split,
     single 2PGF incl. empty list) and harness/h_c16 (the job dispatcher alone) under the ASan+UBSan build
  V  Valgrind memcheck (--track-origins=yes) of the NON-instrumented build on S (and on h_ed queries in the thorough
     tier): uninitialised reads, which the sanitizers do not see
A sanitizer / Valgrind report is a violation keyed "<kind> in <function>", with scenario + query as replay.

PENDING: robustness defects found by stage S outside the call sequences that were run before (see PENDING below and
/verif/proposed/fix-*.diff).  They are probed on every run; a report that matches a PENDING entry is printed as
PENDING-FINDING and listed in the evidence, not counted as a violation, until the main session applies the proposed patch
(the probe then simply passes) or registers it in known_findings.json.  Anything else is a violation.
"""
import os
import re
import shutil
import tempfile
import pv
import edlib
import scen

# (substring of the sanitizer kind, substring of the function) -> proposed patch.  Reports on the *pending probes* only.
REPAIRED_PROBES = [     # found by stage S, repaired in /repo (known_findings.json: fixed); probed on every run, a report is a violation again
    {"kind": "reference binding to null pointer", "fn": "IndexClassification::prepare",
     "probe": "seq index_twice", "patch": "proposed/fix-indexclassification-prepare-twice.diff",
     "what": "IndexClassification::prepare called a second time on the same object doubles IndexSize and dereferences the null IndexInfo pointers of the new cells"},
    {"kind": "reference binding to null pointer", "fn": "FieldOperatorContainer::get",
     "probe": "seq partial_ops_other 0 1", "patch": "proposed/fix-fieldoperatorcontainer-unprepared-index.diff",
     "what": "FieldOperatorContainer::getCreationOperator / getAnnihilationOperator for a valid index that was not in the set given to prepareAll returns a reference to *NULL (documented: 'Makes on-demand computation')"},
    {"kind": "null pointer", "fn": "MatsubaraContainer4",
     "probe": "seq vertex 0 1 0 1 1 1 uncomputed", "patch": "proposed/fix-vertex4-uncomputed.diff",
     "what": "Vertex4::operator() before the first compute() calls value() through the storage's null source pointer"},
]

# findings waiting for a decision of the main session (none at present)
PENDING = []


def sanitizer_report(err):
    """-> (kind, function) or None"""
    m = re.search(r'ERROR: AddressSanitizer: ([\w-]+)', err)
    kind = None
    if m:
        kind = "asan " + m.group(1)
    else:
        m = re.search(r'runtime error: ([^\n]+)', err)
        if m:
            kind = "ubsan " + re.sub(r'0x[0-9a-f]+', 'ADDR', m.group(1))[:80]
    if not kind:
        return None
    fn = "?"
    for fm in re.finditer(r'#\d+ 0x[0-9a-f]+ in ([^\n]+)', err):
        f = fm.group(1)
        if "Pomerol::" in f or "pMPI::" in f:
            fn = re.sub(r'\(.*', '', f).strip()
            fn = re.sub(r'\s+/.*', '', fn)
            break
    return kind, fn


def valgrind_report(err):
    """-> (kind, function) or None   (first error of a memcheck log)"""
    lines = err.split("\n")
    for i, l in enumerate(lines):
        m = re.match(r'==\d+== (Invalid (?:read|write) of size \d+|Conditional jump or move depends on uninitialised value\(s\)|'
                     r'Use of uninitialised value of size \d+|Syscall param .* uninitialised byte\(s\)|Invalid free\(\).*|'
                     r'Mismatched free\(\).*|Source and destination overlap.*|Jump to the invalid address.*|Process terminating with .*)', l)
        if not m:
            continue
        kind = re.sub(r'\s+', ' ', m.group(1))
        fn, first = None, None
        for k in lines[i + 1:i + 30]:
            fm = re.match(r'==\d+==\s+(?:at|by) 0x[0-9A-F]+: (.+?) \((?:in )?[^()]*\)\s*$', k)
            if not fm:
                if re.match(r'==\d+==\s*$', k):
                    break
                continue
            first = first or fm.group(1)
            if "Pomerol::" in fm.group(1) or "pMPI::" in fm.group(1):
                fn = fm.group(1)
                break
        fn = re.sub(r'\(.*', '', fn or first or "?").strip()
        return "valgrind " + kind, fn
    return None


def read_switches():
    """the booleans of coq/gen/Gen_C17.v as generated for the tree under test"""
    p = os.path.join(pv.COQ, "gen", "Gen_C17.v")
    try:
        txt = open(p).read()
    except OSError:
        return {}
    return {m.group(1): m.group(2) == "true" for m in re.finditer(r'Definition (\w+) : bool := (true|false)\.', txt)}


# ---------------------------------------------------------------------------------------------------------------
# scenarios

ATOM_IGNORE = "site A 1 2\naddCoulombS A 2 -1\nsymm ignore\nbeta 3\n"
ATOM_DEFAULT = "site A 1 2\naddCoulombS A 2 -1\naddMagnetization A 0.25\nsymm default\nbeta 2\n"
ATOM_CUSTOM = "site A 1 2\naddCoulombS A 2 -1\nsymm custom\niom 2 1 2 1 0 0 0 1 2 1 1 0 1\nbeta 3\n"
TWO_SITE = "site A 1 2\nsite B 1 2\naddCoulombS A 2 -1\naddCoulombS B 1.5 -0.75\naddHopping4 A B -0.5\nsymm default\nbeta 2\n"
TWO_SITE_IGNORE = TWO_SITE.replace("symm default", "symm ignore")
MIXED_SPIN = "site A 1 1\nsite B 1 2\naddLevel A -0.5\naddCoulombS B 2 -1\naddHopping7 A B -0.25 0 0 0\norder_spins %d\nsymm default\nbeta 2\n"
SPINLESS = ("site A 2 1\nsite B 1 1\naddLevel A -0.5\naddLevel B 0.25\naddHopping6 A B -0.5 0 0\naddHopping6 A B 0.75 1 0\n"
            "term 4 1.5 1 A 0 0 1 B 0 0 0 B 0 0 0 A 0 0\nsymm default\nbeta 1\n")
ATOMIC_LIMIT = "site A 1 2\nsite B 1 2\naddCoulombS A 1 -0.25\naddCoulombS B 2 -0.5\nsymm default\nbeta 4\n"      # one-dimensional blocks


def seq_models(quick):
    ms = [("atom-ignore", ATOM_IGNORE, 2), ("atom-custom-iom", ATOM_CUSTOM, 2), ("mixed-spin-spin-major", MIXED_SPIN % 1, 3),
          ("spinless", SPINLESS, 3), ("two-site", TWO_SITE, 4)]
    if not quick:
        ms += [("atom-default", ATOM_DEFAULT, 2), ("mixed-spin-site-major", MIXED_SPIN % 0, 3), ("two-site-ignore", TWO_SITE_IGNORE, 4),
               ("atomic-limit", ATOMIC_LIMIT, 4), ("two-site-truncated", TWO_SITE + "trunc 0.05\n", 4),
               ("two-site-truncated-twice", TWO_SITE_IGNORE + "trunc 0.001\ntrunc 0.2\n", 4)]
    return ms


def seq_lines(n, rng, quick):
    idx = list(range(n))
    ls = ["seq reprepare", "seq hidx_twice", "seq early", "seq lattice_copy", "seq partial_ops %d" % rng.choice(idx), "seq ops_twice %d" % rng.choice(idx), "seq indexperm", "seq labels", "seq indexinfo", "seq gfc"]
    pairs = [(i, j) for i in idx for j in idx]
    for (i, j) in (rng.sample(pairs, 2) if quick else pairs[:9]):
        ls.append("seq gfmany %d %d %d" % (i, j, 40 if quick else 300))
    quads = [(0, n - 1, 0, n - 1), (n - 1, 0, 0, n - 1)] + ([tuple(rng.choice(idx) for _ in range(4))] if n > 2 else [])
    if not quick:
        quads += [tuple(rng.choice(idx) for _ in range(4)) for _ in range(3)]
    for (a, b, c, d) in quads[:2 if quick else 6]:
        ls.append("seq susc %d %d %d %d" % (a, b, c, d))
    ls.append("seq avg 0 %d" % (n - 1))
    for q, (i, j, k, l) in enumerate(quads):
        ls.append("seq chi %d %d %d %d %d %d" % (i, j, k, l, q % 2, 0 if q == 1 else 3))
        if q < (1 if quick else 3) or n <= 2:
            ls.append("seq chi %d %d %d %d %d %d" % (i, j, k, l, (q + 1) % 2, 0))
    ls.append("seq tpgfc 0 %d 0 %d 0" % (n - 1, n - 1))
    ls.append("seq tpgfc %d 0 0 %d 1" % (n - 1, n - 1))
    if n <= 3 or not quick:
        ls.append("seq vertex 0 %d 0 %d 2 1" % (n - 1, n - 1))
    else:
        ls.append("seq vertex 0 %d 0 %d 1 1" % (n - 1, n - 1))
    return ls


def queries_for(n, rng, quick):
    idx = list(range(n))
    q = ["dm"]
    pairs = [(i, j) for i in idx for j in idx]
    for (i, j) in (pairs if n <= 4 else rng.sample(pairs, 12)):
        q.append("gf %d %d 2 0 0.7 0.25 -1.5" % (i, j))
    q.append("gfc 0 %d 1 0 0.9" % (n - 1))
    q.append("gftau 0 0 0 0.5 1")
    q.append("gfterms 0 %d" % (n - 1))
    for _ in range(3 if quick else 8):
        a, b, c, d = [rng.choice(idx) for _ in range(4)]
        q.append("susc %d %d %d %d %d 0 1 -2" % (a, b, c, d, rng.choice([0, 1, 2, 3])))
        q.append("avg %d %d" % (a, b))
    quads = [(0, n - 1, 0, n - 1), (0, 1 % n, 1 % n, 0)]
    if n >= 4:
        quads += [(0, 2, 1, 3), (0, 1, 2, 3), tuple(rng.choice(idx) for _ in range(4))]
    for (i, j, k, l) in quads:
        tr = scen.matsubara_triples(rng, 2, 2)
        q.append("chi %d %d %d %d %d %d %s" % (i, j, k, l, rng.choice([0, 1]), len(tr), " ".join("%d %d %d" % t for t in tr)))
    q.append("chi 0 %d 0 %d 0 0" % (n - 1, n - 1))       # empty frequency list
    q.append("chi 0 0 %d %d 1 0" % (n - 1, n - 1))       # vanishing or not, purge, empty list
    return q


def witness_queries():
    """Hubbard atom, symmetries ignored (a single block): every G_ij, every susceptibility, every chi component -- the library
    inputs behind the Coq witnesses gf_chase_unguarded_oob / chaseIndices_unguarded_oob / tpgf_empty_freqs_unguarded_undefined"""
    q = []
    for i in (0, 1):
        for j in (0, 1):
            q.append("gf %d %d 1 0 0.5" % (i, j))
    for a in (0, 1):
        for b in (0, 1):
            for c in (0, 1):
                for d in (0, 1):
                    q.append("susc %d %d %d %d 0 0 1" % (a, b, c, d))
                    q.append("chi %d %d %d %d 0 1 0 0 0" % (a, b, c, d))
    q.append("chi 0 1 0 1 0 0")
    q.append("chi 0 1 0 1 1 0")
    q.append("chi 0 0 0 0 0 0")
    return q


# ---------------------------------------------------------------------------------------------------------------
# running things

class Runner:
    def __init__(self, chk):
        self.chk = chk
        self.seen = {}
        self.pending_hits = []
        self.stage_counts = {}

    def count(self, stage, n=1):
        self.stage_counts[stage] = self.stage_counts.get(stage, 0) + n

    def report(self, stage, kind, fn, what, replay, pending_ok=False):
        key = "%s in %s" % (kind, fn)
        if pending_ok:
            for p in PENDING:
                if p["kind"] in kind and p["fn"] in fn:
                    if p["probe"] not in [h["probe"] for h in self.pending_hits]:
                        self.pending_hits.append({"probe": p["probe"], "key": key, "what": p["what"], "patch": p["patch"], "replay": replay})
                        print("PENDING-FINDING: property=C17 %s -- %s [%s]" % (key, p["what"], p["patch"]))
                    return
        if key not in self.seen:
            self.seen[key] = True
            self.chk.violation(key, "[stage %s] %s: %s" % (stage, key, what), replay)

    # -- h_ed (scenario + queries) under the sanitizers, query by query attribution ----------------------------
    def ed_queries(self, stage, name, symm, text, qs, sample=True, variant="asan"):
        chk = self.chk
        pending = list(qs)
        while pending:
            r = edlib.run(text, pending, variant=variant, oracle=False, timeout=900)
            for t in r.impl:
                chk.case(stage + name + symm + " ".join(t[:6]), "%s:%s symm=%s %s" % (stage, name, symm, t[0]), True,
                         {"stage": stage, "family": name, "symm": symm, "record": " ".join(t[:8])} if (sample and len(chk.samples) < 2) else None)
                self.count(stage)
            if r.error and not r.impl:
                chk.notes.append("stage %s: scenario %s did not build: %s" % (stage, name, r.error))
                break
            if not r.crash:
                break
            culprit = None
            for qi, ql in enumerate(pending):
                r1 = edlib.run(text, [ql], variant=variant, oracle=False, timeout=600)
                if r1.crash:
                    culprit = (qi, ql, r1.crash)
                    break
            if culprit is None:
                chk.notes.append("abort not reproducible query by query: %s" % name)
                self.report(stage, "crash rc=%s" % r.crash[0], "?", "abort of h_ed on scenario %s that is not reproducible query by query" % name,
                            {"harness": "h_ed (asan variant)", "scenario": text, "queries": pending, "stderr_tail": r.crash[1][:3000]})
                break
            qi, bad, crash = culprit
            rep = sanitizer_report(crash[1])
            kind = rep[0] if rep else "crash rc=%s" % crash[0]
            fn = rep[1] if rep else "?"
            am = re.search(r'([\w./+-]+):(\d+): [^\n]*Assertion `([^\n\']+)\' failed', crash[1])
            if am and not rep:
                kind, fn = "assertion failed", "%s:%s `%s`" % (os.path.basename(am.group(1)), am.group(2), am.group(3)[:80])
            self.report(stage, kind, fn, "scenario %s (symm %s), query `%s`" % (name, symm, bad),
                        {"harness": "h_ed (%s variant)" % variant, "scenario": text, "query": bad, "stderr_tail": crash[1][:4000]})
            pending = pending[qi + 1:]

    # -- h_c17 histories ------------------------------------------------------------------------------------------
    def run_seq(self, binary, text, lines, wrapper=None, timeout=900):
        inp = "model\n%send\n%s\n" % (text, "\n".join(lines))
        if wrapper:
            e = dict(pv.MPI_ENV)
            e["OMP_NUM_THREADS"] = "1"
            rc, out, err = pv.sh(wrapper + [binary], input=inp, timeout=timeout, env=dict(os.environ, **e))
        else:
            rc, out, err = pv.run_harness(binary, inp, timeout=timeout)
        done = [l for l in out.split("\n") if l.startswith("SEQ ")]
        return rc, done, err, out

    def sequences(self, stage, binary, name, text, lines, tool="asan", pending_ok=False):
        """run the histories in one process; on a report, attribute it by running them one by one"""
        chk = self.chk
        wrapper = ["valgrind", "--error-exitcode=9", "--track-origins=yes", "-q"] if tool == "valgrind" else None
        rc, done, err, out = self.run_seq(binary, text, lines, wrapper)
        parse = valgrind_report if tool == "valgrind" else sanitizer_report
        bad = rc != 0 or parse(err) is not None or len(done) != len(lines)
        if not out.startswith("M ok") and "\nM ok" not in out:
            chk.notes.append("stage %s: model %s did not build: %s" % (stage, name, (out + err)[-300:]))
            return
        if not bad:
            for l in done:
                t = l.split()
                chk.case(stage + name + l, "%s:%s %s %s" % (stage, name, t[1], "throws" if " throws " in l else "ok"), True,
                         {"stage": stage, "model": name, "history": l} if len(chk.samples) < 5 and t[1] in ("early", "labels") else None)
                self.count(stage)
            return
        for ql in lines:
            rc1, done1, err1, out1 = self.run_seq(binary, text, [ql], wrapper)
            rep = parse(err1)
            if rc1 == 0 and rep is None and len(done1) == 1:
                chk.case(stage + name + done1[0], "%s:%s %s ok" % (stage, name, ql.split()[1]), True, None)
                self.count(stage)
                continue
            kind, fn = rep if rep else ("crash rc=%d" % rc1, "?")
            self.report(stage, kind, fn, "model %s, history `%s`" % (name, ql),
                        {"harness": "h_c17 (%s)" % ("valgrind memcheck, real variant" if tool == "valgrind" else "asan variant"), "scenario": text, "query": ql,
                         "stderr_tail": (pv.sanitizer_digest(err1) if tool != "valgrind" else "\n".join(l for l in err1.split("\n") if l.startswith("=="))[:4000]) or err1[-2000:]},
                        pending_ok=pending_ok)

    # -- a plain harness under the sanitizers ------------------------------------------------------------------
    def plain(self, stage, hname, inp, args=(), bad_output=None):
        chk = self.chk
        h = pv.build_harness(hname, "asan")
        rc, out, err = pv.run_harness(h, inp, timeout=900, args=list(args))
        chk.case(stage + hname + inp, "%s:%s under sanitizers" % (stage, hname), True, None)
        self.count(stage)
        rep = sanitizer_report(err)
        problem = bad_output(out) if bad_output else None
        if rc != 0 or rep or problem:
            kind, fn = rep if rep else (("crash rc=%d" % rc) if rc != 0 else problem, "?")
            self.report(stage, kind + " [%s]" % hname, fn, "running %s on its sample input" % hname,
                        {"harness": hname + " (asan variant)", "args": list(args), "input": inp, "stderr_tail": (pv.sanitizer_digest(err) or err[-2000:])[:4000],
                         "stdout_tail": out[-1500:]})

    # -- MPI -------------------------------------------------------------------------------------------------
    def mpi(self, stage, name, model, cmds, P):
        chk = self.chk
        h = pv.build_harness("h_c06", "asan")
        d = tempfile.mkdtemp(prefix="c17-", dir=pv.BUILD)
        try:
            open(os.path.join(d, "in.txt"), "w").write("model\n" + model + "end\n" + cmds)
            rc, out, err = pv.run_harness(h, "", np=P, args=[d, os.path.join(d, "in.txt")], timeout=900)
            ranks_done, throws = 0, []
            for r in range(P):
                try:
                    txt = open(os.path.join(d, "rank%d.out" % r)).read()
                except OSError:
                    txt = ""
                if "\nDONE" in txt:
                    ranks_done += 1
                throws += [l for l in txt.split("\n") if l.startswith("THROWS") or l.startswith("ERROR")]
        finally:
            shutil.rmtree(d, ignore_errors=True)
        chk.case(stage + name + str(P) + cmds, "%s:%s np=%d" % (stage, name, P), True,
                 {"stage": stage, "model": name, "np": P, "commands": cmds.strip().split("\n")} if P == 3 and len(chk.samples) < 6 else None)
        self.count(stage)
        rep = sanitizer_report(err)
        if rc != 0 or rep or ranks_done != P:
            kind, fn = rep if rep else ("crash rc=%d ranks finished %d/%d" % (rc, ranks_done, P), "?")
            self.report(stage, kind, fn, "h_c06 under mpiexec -np %d on model %s" % (P, name),
                        {"harness": "h_c06 (asan variant)", "np": P, "scenario": model, "query": cmds, "stderr_tail": (pv.sanitizer_digest(err) or err[-2500:])[:4000]})
        elif throws:
            chk.notes.append("stage M %s np=%d: %s" % (name, P, throws[:3]))


DISPATCH_SCRIPT = ("S 1 skel 5 0 2 7 200 C 3 1 4 1 5\nS 2 noboss 4 0 1 3 100 C 1 1 1 1\nS 3 skel 3 2 1,2 5 100 C 2 2 2\nS 4 skel 1 0 1 1 0 C 1\n"
                   "S 5 skel 7 0 1 9 50 C 1 2 3 4 5 6 7\n")


def dispatcher(R, P):
    """harness/h_c16 (the job dispatcher alone: mpi_skel with and without a working boss, split communicators, more ranks than jobs)
    under the ASan+UBSan build"""
    chk = R.chk
    h = pv.build_harness("h_c16", "asan")
    d = tempfile.mkdtemp(prefix="c17d-", dir=pv.BUILD)
    nscen = DISPATCH_SCRIPT.count("\n")
    try:
        os.makedirs(os.path.join(d, "out"))
        open(os.path.join(d, "s.txt"), "w").write(DISPATCH_SCRIPT)
        rc, out, err = pv.run_harness(h, None, np=P, timeout=300, args=["--script", os.path.join(d, "s.txt"), "--out", os.path.join(d, "out"), "--watchdog", "60"])
        finished, trouble = 0, []
        for r in range(P):
            try:
                txt = open(os.path.join(d, "out", "rank%d.out" % r)).read()
            except OSError:
                txt = ""
            if len(re.findall(r'^SCEN \S+ end', txt, re.M)) == nscen:
                finished += 1
            trouble += [l for l in txt.split("\n") if l.startswith("WATCHDOG") or l.startswith("THROW")]
    finally:
        shutil.rmtree(d, ignore_errors=True)
    chk.case("M-dispatch" + str(P) + DISPATCH_SCRIPT, "M:dispatcher np=%d" % P, True, None)
    R.count("M")
    rep = sanitizer_report(err)
    if rc != 0 or rep or finished != P or trouble:
        kind, fn = rep if rep else ("crash rc=%d ranks finished %d/%d %s" % (rc, finished, P, trouble[:2]), "?")
        R.report("M", kind, fn, "h_c16 (dispatcher) under mpiexec -np %d" % P,
                 {"harness": "h_c16 (asan variant)", "np": P, "input": DISPATCH_SCRIPT, "stderr_tail": (pv.sanitizer_digest(err) or err[-2500:])[:4000]})


MPI_CMDS = ("ham\ngf 0 1 0 1 -2\nc2 1 0 3 0 1 0 1 0 2 0 2 1 3 1 3 2 0 0 0 1 -1 1\nc2 0 1 2 0 1 0 1 0 0 1 1 0\n"
            "c2 1 1 1 0 1 0 1 0\nchi 0 1 0 1 0 2 0 0 0 -1 0 -1\nchi 0 1 0 1 1 0\nchi 1 0 0 1 0 0\n")
MPI_CMDS_ATOM = "ham\ngf 1 0 0 1\nc2 1 0 2 0 1 0 1 1 0 0 1 1 0 0 0\nc2 0 0 1 0 1 0 1 0\nchi 0 1 0 1 0 1 0 0 0\nchi 0 1 0 1 0 0\n"


def run(chk):
    quick = chk.tier == "quick"
    ok, log = chk.prove()
    sw = read_switches()
    chk.extra["source_switches"] = sw
    off = sorted(k for k, v in sw.items() if not v)
    if off:
        chk.notes.append("switches read off the source that are FALSE (the guard is not in the C++): %s -- the source_* theorems cannot hold; "
                         "stages W/F/S look for the concrete failing input" % ", ".join(off))
    chk.checker_cmd = "make -C coq props/Properties_C17.vo (coqc 8.16.1, full .vo build; gen/Gen_C17.v regenerated from the C++ first)"
    chk.trusted += ["PROOF part: translator/gen_c17.py (recognises, by shape, the ten guards whose presence the source_* theorems depend on) and the "
                    "hand-written models PV.Sparse/GFPart/SuscPart/HPart/Poly/Index/Chi/Matsubara4/Container4/Lattice/Bounds (tied to the code by the "
                    "differential checks of C01-C03, C05, C13, C15, C18, C20)",
                    "TESTING part: ASan+UBSan instrumentation of g++ 12 (library and harnesses compiled with -fsanitize=address,undefined "
                    "-fno-sanitize-recover=undefined), Valgrind 3.19 memcheck on the non-instrumented build, OpenMPI 4.1 launcher",
                    "the sanitizer / Valgrind / MPI stages are testing over the inputs listed under rule, not proof"]
    chk.assume += ["no theorem covers: Eigen, Boost and MPI internals; object lifetimes (use after free, double delete); reads of uninitialised storage outside the "
                   "modelled tables; data races between OpenMP threads; these are only exercised by the instrumented runs",
                   "the models' well-formedness hypotheses (compressed sparse storage as Eigen produces it, a classification as StatesClassification::compute "
                   "produces it, block-respecting Hamiltonian) are established by the other properties' checks (C07, C03, C10), not here"]
    rng = chk.rng
    R = Runner(chk)

    # ---- W: witness inputs per switch (always; decisive when the proof part is broken)
    R.ed_queries("W", "hubbard-atom-single-block", "ignore", ATOM_IGNORE, witness_queries(), sample=False)
    h17 = pv.build_harness("h_c17", "asan")
    R.sequences("W", h17, "atom-ignore", ATOM_IGNORE, ["seq labels", "seq chi 0 1 0 1 0 0", "seq chi 0 1 0 1 1 0", "seq tpgfc 0 1 0 1 0"])
    R.sequences("W", h17, "mixed-spin-spin-major", MIXED_SPIN % 1, ["seq indexinfo", "seq labels"])
    R.plain("W", "h_c05", "2 ; c0 ; k1\n3 ; d0 ; md0.d1.c2\n3 ; md0.d1.c2 ; d0\n3 ; d0 c1 * ; c1 d0 * d2 c2 * +\n3 ; d0 c1 * d2 c2 * + ; d0 c1 *\n")
    R.plain("W", "h_c20", "history asan\nsite A 1 2\ngetSite A\ngetSite Z\n", args=["--force-ub"])
    R.plain("W", "h_c18", "case 1 1 2 x41 1 1 x42 1 2 1 x42 0 1\ncase 2 0 2 x41 1 1 x42 1 2 1 x43 0 0\ncase 3 1 3 x41 2 2 x42 1 0 x43 1 3 0\n",
            bad_output=lambda o: ("harness reports a null IndexInfo pointer / a child died" if re.search(r'NULL|SEGV|DIED', o) else None))

    # ---- F: scenario families through h_ed
    fams = scen.FAMILIES + [scen.pairing, scen.three_orbital_small]
    nscen = 9 if quick else 60
    for k in range(nscen):
        fam = fams[k % len(fams)]
        symm = "ignore" if (k // len(fams)) % 2 == 0 or fam in (scen.pairing, scen.three_orbital_small) else "default"
        if quick and k % 3 == 2 and fam not in (scen.pairing, scen.three_orbital_small):
            symm = "default"        # the quick tier has one round only: every third family with the default symmetries
        name, text, n, info = fam(rng, symm)
        R.ed_queries("F", name, symm, text, queries_for(n, rng, quick))

    # ---- A: the same kind of scenarios through an assertion-enabled build (no NDEBUG: what a plain `cmake /repo` gives; the
    # library's own assert()s and Eigen's index / size assertions are active).  An abort is a violation.
    edlib.binaries("assert")
    for k in range(4 if quick else 30):
        fam = fams[(k * 2 + 1) % len(fams)]
        symm = "ignore" if k % 2 == 0 or fam in (scen.pairing, scen.three_orbital_small) else "default"
        name, text, n, info = fam(rng, symm)
        R.ed_queries("A", name, symm, text, queries_for(n, rng, quick), sample=False, variant="assert")
    # free models with a degenerate spectrum (most cancellations inside the term lists)
    R.ed_queries("A", "free-ring", "default",
                 "site A 1 2\nsite B 1 2\n" + "".join("term 2 %s 1 %s 0 %d 0 %s 0 %d\n" % (v, a, sa, b, sb) for (v, a, sa, b, sb) in
                     [("-0.05", "A", 0, "A", 0), ("-0.05", "A", 1, "A", 1), ("-0.05", "B", 0, "B", 0), ("-0.05", "B", 1, "B", 1),
                      ("0.25", "A", 0, "A", 1), ("0.25", "A", 1, "A", 0), ("0.25", "A", 1, "B", 0), ("0.25", "B", 0, "A", 1),
                      ("0.25", "B", 0, "B", 1), ("0.25", "B", 1, "B", 0), ("0.25", "B", 1, "A", 0), ("0.25", "A", 0, "B", 1)]) + "symm default\nbeta 5\n",
                 ["chi 0 0 1 1 0 2 0 0 0 1 -2 1", "chi 0 0 1 2 0 2 0 -1 0 1 0 1", "gf 0 1 2 0 0.7 0.25 -1.5", "susc 0 1 1 0 0 0 1 -2"], sample=False, variant="assert")

    # ---- S: call-sequence variety
    for (name, text, n) in seq_models(quick):
        R.sequences("S", h17, name, text, seq_lines(n, rng, quick))
    # pending probes (one process each)
    for p in REPAIRED_PROBES:
        R.sequences("S", h17, "atom-ignore", ATOM_IGNORE, [p["probe"]])
    for p in PENDING:
        R.sequences("S-pending", h17, "atom-ignore", ATOM_IGNORE, [p["probe"]], pending_ok=True)

    # ---- H: the other properties' harnesses under the sanitizers
    R.plain("H", "h_c15", "probe 0 -3 3\nprobe 1 -5 5\nprobe 2 -7 7\n" + ("" if quick else "probe 3 -9 9\nprobe 5 -12 12\n"))
    R.plain("H", "h_c05", "3 ; d0 c1 * ; c1 d0 * d2 c2 * +\n3 ; d0 ; md0.d1.c2\n3 ; md0.d1.c2 ; d0\n2 ; c0 ; k1\n4 ; N4 ; S4:0,2\n")
    R.plain("H", "h_c13", "model\n%send\nhist\nprep 2 0 1 0 1 1 0 0 1\nprep 2 0 1 0 1 1 0 0 1\ncompall 0\neval 0 1 0 1 0 0 0\neval 1 0 1 0 0 1 0\ncompall 1\n"
                          "hist\nfill 0\nlookup 0 0 0 0\ncompelem 0 1 0 1\neval 0 1 1 0 -1 0 -1\nprepelem 1 1 1 1\ncompall 0\n" % ATOM_IGNORE)

    # ---- M: MPI under ASan
    try:
        for P in ((2, 3) if quick else (2, 3, 4)):
            R.mpi("M", "two-site", TWO_SITE.replace("symm default\n", ""), MPI_CMDS, P)
            R.mpi("M", "atom-ignore", ATOM_IGNORE, MPI_CMDS_ATOM, P)
            if not quick:
                R.mpi("M", "mixed-spin", MIXED_SPIN % 1, "ham\ngf 0 2 0 1\nc2 1 0 2 0 1 0 1 0 2 0 2 1 0 0 0\nchi 0 2 0 2 0 0\n", P)
            dispatcher(R, P)
        chk.extra["mpi_asan"] = "h_c06 and h_c16 (asan variant) under mpiexec -np %s" % ("2, 3" if quick else "2, 3, 4")
    except pv.BuildError as ex:
        chk.notes.append("stage M skipped: h_c06 does not build with the asan variant: %s" % ex.what)
        chk.extra["mpi_asan"] = "skipped (h_c06 did not build with the asan variant)"

    # ---- V: Valgrind memcheck on the non-instrumented build
    if shutil.which("valgrind"):
        h17r = pv.build_harness("h_c17", "real")
        vm = [("atom-ignore", ATOM_IGNORE, 2)] if quick else [("atom-ignore", ATOM_IGNORE, 2), ("mixed-spin-spin-major", MIXED_SPIN % 1, 3), ("spinless", SPINLESS, 3),
                                                               ("atom-custom-iom", ATOM_CUSTOM, 2)]
        for (name, text, n) in vm:
            R.sequences("V", h17r, name, text, seq_lines(n, rng, True), tool="valgrind")
        if not quick:
            hed = pv.build_harness("h_ed", "real")
            for (name, text, n) in (("atom-ignore", ATOM_IGNORE, 2), ("two-site", TWO_SITE, 4)):
                qs = queries_for(n, rng, True)
                inp = "model ops\n%send\n%s\n" % (text, "\n".join(qs))
                e = dict(os.environ, **pv.MPI_ENV)
                e["OMP_NUM_THREADS"] = "1"
                rc, out, err = pv.sh(["valgrind", "--error-exitcode=9", "--track-origins=yes", "-q", hed], input=inp, timeout=1800, env=e)
                chk.case("V" + name + inp, "V:h_ed %s" % name, True, None)
                R.count("V")
                rep = valgrind_report(err)
                if rc != 0 or rep:
                    kind, fn = rep if rep else ("crash rc=%d" % rc, "?")
                    R.report("V", kind, fn, "h_ed under valgrind on %s" % name,
                             {"harness": "h_ed (valgrind memcheck, real variant)", "scenario": text, "queries": qs,
                              "stderr_tail": "\n".join(l for l in err.split("\n") if l.startswith("=="))[:4000]})
        chk.extra["valgrind"] = "memcheck --track-origins=yes on the real variant: %s" % ", ".join(m[0] for m in vm)
    else:
        chk.notes.append("stage V skipped: valgrind not installed")
        chk.extra["valgrind"] = "skipped (valgrind not installed)"

    # ---- evidence: what is proof, what is testing
    chk.extra["proof_part"] = {
        "file": "coq/props/Properties_C17.v", "theorems": len(chk.obligations), "discharged": len(chk.discharged),
        "unconditional_about_the_source": [t for t in chk.obligations if t.startswith("source_")],
        "necessity_witnesses": [t for t in chk.obligations if not t.startswith("source_") and (t.endswith("_oob") or t.endswith("_past_end") or t.endswith("_undefined"))],
        "switches_read_off_the_source": sw,
        "not_covered_by_any_theorem": "Eigen/Boost/MPI internals, object lifetimes, uninitialised reads outside the modelled tables, data races"}
    chk.extra["testing_part"] = {"cases_per_stage": R.stage_counts,
                                 "stages": {"W": "witness inputs per switch (ASan+UBSan)", "F": "scenario families via h_ed (ASan+UBSan)",
                                            "S": "call-sequence variety via h_c17 (ASan+UBSan)", "A": "scenario families via h_ed built WITHOUT NDEBUG (library and Eigen assertions active)", "S-pending": "probes of the PENDING findings",
                                            "H": "harnesses of C05/C13/C15 (ASan+UBSan)", "M": "MPI np=2,3[,4] via h_c06 and h_c16 (ASan+UBSan)",
                                            "V": "Valgrind memcheck, non-instrumented build"}}
    chk.extra["pending_findings"] = [{k: v for k, v in h.items() if k != "replay"} for h in R.pending_hits]
    if chk.notes:
        chk.extra["notes"] = chk.notes[:20]
    chk.rule = ("PROOF: theorems listed under `theorems` (statements in coq/props/Properties_C17.v), built from scratch after regenerating coq/gen/Gen_C17.v from "
                "the C++. TESTING: a case = one answered query record (stages W, F), one completed call history (S, V), one harness run (H), one MPI run (M); "
                "every case is non-trivial (it executes library code on a generated model); distinct = distinct (stage, model/family, symmetry mode, "
                "record head or history line). F: each scenario family of tools/scen.py, symmetries ignored and default, every G_ij, sampled "
                "susceptibilities (all subtraction modes), averages, chi for quadruples with distinct and equal indices, purge on/off, empty frequency "
                "lists. S: the histories of harness/h_c17.cpp on Hubbard atom (single block / custom integral of motion), mixed-spin sites in spin-major "
                "order, spinless sites, two sites (thorough: more models, all G pairs at +-300 Matsubara numbers). A sanitizer or Valgrind report, a "
                "non-zero exit status or a rank that does not finish is a violation keyed '<kind> in <function>'.")


def setup():
    edlib.binaries("assert")
    for h in ("h_ed", "h_c15", "h_c05", "h_c13", "h_c17", "h_c18", "h_c20", "h_c06", "h_c16"):
        pv.build_harness(h, "asan")
    pv.build_harness("h_c17", "real")
    pv.build_harness("h_ed", "real")


def replay(chk, path):
    import json
    r = json.load(open(path))["replay"]
    if isinstance(r, list):
        print(json.dumps(r, indent=1)[:4000])
        return 0
    hn = r.get("harness", "")
    if hn.startswith("h_ed") and "scenario" in r:
        x = edlib.run(r["scenario"], [r["query"]] if "query" in r else r.get("queries", []), variant="asan", oracle=False)
        print(x.crash[1][-3000:] if x.crash else "no sanitizer report; records: %r" % (x.impl,))
    elif hn.startswith("h_c17"):
        val = "valgrind" in hn
        h = pv.build_harness("h_c17", "real" if val else "asan")
        rc, done, err, out = Runner(chk).run_seq(h, r["scenario"], [r["query"]],
                                                 ["valgrind", "--error-exitcode=9", "--track-origins=yes", "-q"] if val else None)
        print(out[-1500:])
        print((pv.sanitizer_digest(err) if not val else "\n".join(l for l in err.split("\n") if l.startswith("==")))[-3000:] or "no report (rc=%d)" % rc)
    elif hn.startswith("h_c06"):
        R = Runner(chk)
        R.mpi("M", "replay", r["scenario"], r["query"], int(r.get("np", 2)))
        print("violations: %r" % (chk.violations,))
    elif "input" in r:
        h = pv.build_harness(hn.split()[0], "asan")
        rc, out, err = pv.run_harness(h, r["input"], timeout=600, args=r.get("args", []))
        print(out[-1500:])
        print(pv.sanitizer_digest(err)[-3000:] or "no sanitizer report (rc=%d)" % rc)
    return 0
