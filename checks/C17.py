"""C17 -- No out-of-bounds access or undefined behaviour on any supported workflow.

What a proof can carry: the index-chasing loops, the storage arithmetic, the equality comparison are modelled with
bounds-checked reads, and "no OOB outcome for any well-formed input" is proved in Coq (props/Properties_C17.v collects
those theorems). What it cannot: undefined behaviour outside the modelled logic (Eigen, Boost, MPI internals, object
lifetimes). For that every harness scenario family of the other checks is run through an ASan+UBSan build of the library
and the harnesses; a sanitizer report is a violation with the scenario as replay. That part is testing, and is labelled
so in the evidence; the claim is partial by construction (DESIGN.md section 4, C17).
"""
import os
import re
import pv
import edlib
import scen


def sanitizer_report(err):
    """-> (kind, function) or None"""
    m = re.search(r'ERROR: AddressSanitizer: ([\w-]+)', err)
    kind = None
    if m:
        kind = "asan " + m.group(1)
    else:
        m = re.search(r'runtime error: ([^\n]+)', err)
        if m:
            kind = "ubsan " + re.sub(r'0x[0-9a-f]+', 'ADDR', m.group(1))[:80]
    if not kind:
        return None
    fn = "?"
    for fm in re.finditer(r'#\d+ 0x[0-9a-f]+ in ([^\n]+)', err):
        f = fm.group(1)
        if "Pomerol::" in f or "pMPI::" in f:
            fn = re.sub(r'\(.*', '', f).strip()
            fn = re.sub(r'\s+/.*', '', fn)
            break
    return kind, fn


def queries_for(n, rng, quick):
    idx = list(range(n))
    q = ["dm"]
    pairs = [(i, j) for i in idx for j in idx]
    for (i, j) in (pairs if n <= 4 else rng.sample(pairs, 12)):
        q.append("gf %d %d 2 0 0.7 0.25 -1.5" % (i, j))
    q.append("gfc 0 %d 1 0 0.9" % (n - 1))
    q.append("gftau 0 0 0 0.5 1")
    q.append("gfterms 0 %d" % (n - 1))
    for _ in range(3 if quick else 8):
        a, b, c, d = [rng.choice(idx) for _ in range(4)]
        q.append("susc %d %d %d %d %d 0 1 -2" % (a, b, c, d, rng.choice([0, 1, 2, 3])))
        q.append("avg %d %d" % (a, b))
    quads = [(0, n - 1, 0, n - 1), (0, 1 % n, 1 % n, 0)]
    if n >= 4:
        quads += [(0, 2, 1, 3), (0, 1, 2, 3), tuple(rng.choice(idx) for _ in range(4))]
    for (i, j, k, l) in quads:
        tr = scen.matsubara_triples(rng, 2, 2)
        q.append("chi %d %d %d %d %d %d %s" % (i, j, k, l, rng.choice([0, 1]), len(tr), " ".join("%d %d %d" % t for t in tr)))
    q.append("chi 0 %d 0 %d 0 0" % (n - 1, n - 1))       # empty frequency list
    q.append("chi 0 0 %d %d 1 0" % (n - 1, n - 1))       # vanishing or not, purge, empty list
    return q


def run(chk):
    quick = chk.tier == "quick"
    chk.prove()
    chk.trusted += ["ASan+UBSan instrumentation of g++ 12 (library and harness compiled with -fsanitize=address,undefined)",
                    "the sanitizer part is testing over the scenario families below, not proof"]
    chk.assume += ["undefined behaviour that the sanitizers do not instrument (e.g. uninitialised reads, strict aliasing) is not observed"]
    rng = chk.rng
    fams = scen.FAMILIES + [scen.pairing, scen.three_orbital_small]
    nscen = 10 if quick else 60
    seen = {}
    for k in range(nscen):
        fam = fams[k % len(fams)]
        symm = "ignore" if (k // len(fams)) % 2 == 0 or fam in (scen.pairing, scen.three_orbital_small) else "default"
        name, text, n, info = fam(rng, symm)
        qs = queries_for(n, rng, quick)
        # run query by query groups so that one abort does not hide later findings
        pending = list(qs)
        while pending:
            r = edlib.run(text, pending, variant="asan", oracle=False, timeout=900)
            done = len(r.impl)
            for t in r.impl:
                chk.case(name + symm + " ".join(t[:6]), "%s symm=%s %s" % (name, symm, t[0]), True,
                         {"family": name, "symm": symm, "record": " ".join(t[:8])} if len(chk.samples) < 4 else None)
            if not r.crash:
                break
            # find the aborting query by running the pending ones individually
            culprit = None
            for qi, ql in enumerate(pending):
                r1 = edlib.run(text, [ql], variant="asan", oracle=False, timeout=600)
                if r1.crash:
                    culprit = (qi, ql, r1.crash)
                    break
            if culprit is None:
                chk.notes.append("abort not reproducible query by query: %s" % name)
                break
            qi, bad, crash = culprit
            rep = sanitizer_report(crash[1])
            kind = rep[0] if rep else "crash rc=%s" % crash[0]
            fn = rep[1] if rep else "?"
            key = "%s in %s" % (kind, fn)
            if key not in seen:
                seen[key] = True
                chk.violation(key, "%s in %s on scenario family %s (symm %s), query `%s`" % (kind, fn, name, symm, bad),
                              {"harness": "h_ed (asan variant)", "scenario": text, "query": bad, "stderr_tail": crash[1][:4000]})
            pending = pending[qi + 1:]
    # other harnesses under the sanitizers (small samples)
    for hname, inp in (("h_c15", "probe 0 -3 3\nprobe 1 -5 5\nprobe 2 -7 7\n"),
                       ("h_c05", "3 ; d0 c1 * ; c1 d0 * d2 c2 * +\n3 ; d0 ; md0.d1.c2\n3 ; md0.d1.c2 ; d0\n2 ; c0 ; k1\n4 ; N4 ; S4:0,2\n")):
        h = pv.build_harness(hname, "asan")
        rc, out, err = pv.run_harness(h, inp, timeout=600)
        chk.case(hname + inp, "%s under sanitizers" % hname, True, None)
        if rc != 0:
            rep = sanitizer_report(pv.sanitizer_digest(err))
            kind, fn = rep if rep else ("crash rc=%d" % rc, "?")
            chk.violation("%s in %s [%s]" % (kind, fn, hname), "%s in %s running %s" % (kind, fn, hname),
                          {"harness": hname + " (asan variant)", "input": inp, "stderr_tail": pv.sanitizer_digest(err)[:4000]})
    chk.rule = ("each scenario family of tools/scen.py (symmetries ignored and default) with every G_ij, sampled susceptibilities (all subtraction "
                "modes), averages, chi for index quadruples with distinct and equal indices, purge on/off, empty frequency lists, through the "
                "ASan+UBSan build; a case = one answered query record; all non-trivial; distinct = distinct (family, symm, record head). "
                "Sanitizer part = testing. Proof part = the *_in_bounds theorems listed under theorems.")


def setup():
    pv.build_harness("h_ed", "asan")
    pv.build_harness("h_c15", "asan")
    pv.build_harness("h_c05", "asan")


def replay(chk, path):
    import json
    r = json.load(open(path))["replay"]
    if "scenario" in r:
        x = edlib.run(r["scenario"], [r["query"]], variant="asan", oracle=False)
        print(x.crash[1][-3000:] if x.crash else "no sanitizer report; records: %r" % (x.impl,))
    return 0
