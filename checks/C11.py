"""C11 -- Green's function obeys fermionic symmetry, sum rules and tau/frequency duality.

Proof: props/Properties_C11.v (PV.GFIdentities / GFIdentitiesProofs, Coquelicot reals and complex numbers) about ALL finite
Lehmann data: conjugation symmetry, tail bound and sum rule, Im G_ii(i w) < 0, the two branches of the imaginary-time formula
agree, per-term Fourier transform (tau -> Matsubara), G_ii(tau) <= 0, jump G(0)+G(beta) = -delta_ij, G_ii(beta) = -<n_i>.
Tie: (a) translator/gen_c11.py regenerates coq/gen/Gen_GFTau.v (Term::operator()(Frequency), Term::operator()(tau,beta), both
branches) on every run and the theorems are stated about the generated formulas; (b) correspondence on the real library
through harness h_ed (tools/edlib.py): the term lists the library stores (gfterms) are Lehmann data in the sense of the
theorems, the library's evaluations in frequency and in tau equal the generated closed forms summed over those lists, and
every identity is observed directly on the library's output -- for all scenario families, default and ignored symmetries,
all index pairs, z on and off the imaginary axis, |z| = 1e3 and 1e4, tau on a grid including both ends, beta small and large.

Tolerances: rounding 1e-10 * (sum of the magnitudes of the pieces) plus the DOCUMENTED truncation of the library: residues
with magnitude <= 1e-8 are dropped when a term is created (GreensFunctionPart::compute) and poles closer than 1e-8 are merged.
At most nnz(c_i) terms exist, so a value in frequency moves by at most nd*1e-8/dist(z, real axis segment of the spectrum)
and a value in tau / a residue sum by at most nd*1e-8.
"""
import cmath
import json
import math

import pv
import edlib
import scen

# z off the axis (dyadic), on the axis, and large |z| (|z| = 1e3, 1e4 exactly: 600-800-1000 triangle)
ZS_BASE = [(0.5, 1.25), (-1.5, 0.75), (0.25, -2.0), (2.0, 0.125), (-0.75, -0.5), (0.0, 0.375), (0.0, -3.0)]
ZS_LARGE = [(600.0, 800.0), (0.0, 1000.0), (-1000.0, 0.0), (-8000.0, 6000.0), (0.0, -10000.0), (10000.0, 0.0)]
NS = [0, 1, 2, 5, 20, -1, -3]
DROP = 1e-8            # documented: GreensFunctionPart MatrixElementTolerance / Term::Compare tolerance


def hx(x):
    return float(x).hex()


# ---------------------------------------------------------------------------
# additional scenario families

def large_beta(rng, symm="default"):
    """beta*|pole| up to 1e3: exp(beta*P) overflows a double, the two branches of Term::operator()(tau,beta) exist for this"""
    U = rng.choice([2, 4])
    beta = rng.choice([125, 250, 500])
    s = "site A 1 2\naddCoulombS A %s %s\n" % (scen.f(U), scen.f(rng.choice([-U / 2, -U / 2 + 0.25])))
    if rng.random() < 0.5:
        s = "site A 1 2\nsite B 1 2\naddCoulombS A %s %s\naddLevel B %s\naddHopping4 A B 0.5\n" % (scen.f(U), scen.f(-U / 2), scen.f(rng.choice([0.5, -1])))
        return "large-beta-2", s + "symm %s\nbeta %s\n" % (symm, scen.f(beta)), 4, {"beta": beta}
    return "large-beta-atom", s + "symm %s\nbeta %s\n" % (symm, scen.f(beta)), 2, {"beta": beta}


def small_beta(rng, symm="default"):
    s = "site A 1 2\nsite B 1 2\naddCoulombS A 2 -0.5\naddLevel B 0.25\naddHopping4 A B %s\n" % scen.f(rng.choice([0.5, 1]))
    return "small-beta", s + "symm %s\nbeta %s\n" % (symm, scen.f(rng.choice([0.0625, 0.125]))), 4, {}


def complex_hop(rng, symm="default"):
    """complex build only: complex same-spin and spin-flip hopping, written as raw terms with explicit Hermitian conjugates"""
    a, b = rng.choice([(0.5, 0.25), (0.25, -0.5), (0.75, 0.5)])
    c, d = rng.choice([(0.25, 0.25), (0.0, 0.5)])
    s = "site A 1 2\nsite B 1 2\naddCoulombS A %s %s\naddLevel B %s\n" % (scen.f(rng.choice([0, 1, 2])), scen.f(rng.choice([-0.5, 0.25])), scen.f(rng.choice([0.5, -0.25])))
    for sp in (0, 1):
        s += "term 2 %s,%s 1 A 0 %d 0 B 0 %d\nterm 2 %s,%s 1 B 0 %d 0 A 0 %d\n" % (scen.f(a), scen.f(b), sp, sp, scen.f(a), scen.f(-b), sp, sp)
    if rng.random() < 0.6:
        s += "term 2 %s,%s 1 A 0 0 0 B 0 1\nterm 2 %s,%s 1 B 0 1 0 A 0 0\n" % (scen.f(c), scen.f(d), scen.f(c), scen.f(-d))
    return "complex-hop", s + "symm %s\nbeta %s\n" % (symm, scen.f(rng.choice(scen.BETAS))), 4, {}


# ---------------------------------------------------------------------------
# the closed forms proved in Coq (Properties_C11: term_tau_closed_form, tau_is_transform), evaluated stably

def term_freq(R, P, z):
    return R / (z - P)


def term_tau(R, P, tau, beta):
    """- R e^{-tau P} / (1 + e^{-beta P}) without overflow: log(1 + e^x) = max(x,0) + log1p(e^{-|x|})"""
    x = -beta * P
    L = max(x, 0.0) + math.log1p(math.exp(-abs(x)))
    return -R * math.exp(-tau * P - L)


# ---------------------------------------------------------------------------

class Data:
    pass


def queries_for(n, beta, pairs):
    zs = ZS_BASE + [(a, -b) for (a, b) in ZS_BASE] + ZS_LARGE + [(a, -b) for (a, b) in ZS_LARGE]
    om0 = math.pi / beta
    zs += [(0.0, om0), (0.0, -om0), (0.0, 3 * om0), (0.0, -3 * om0)]
    taus = [0.0, beta / 16, beta / 8, beta / 4, beta / 2, 3 * beta / 4, beta * (1 - 2.0 ** -10), beta]
    q = []
    for (i, j) in pairs:
        q.append("gf %d %d %d %s" % (i, j, len(zs), " ".join("%s %s" % (hx(a), hx(b)) for a, b in zs)))
        q.append("gfn %d %d %s" % (i, j, " ".join(str(k) for k in NS)))
        q.append("gftau %d %d %s" % (i, j, " ".join(hx(t) for t in taus)))
        q.append("gfterms %d %d" % (i, j))
    q.append("dm")
    return q, [complex(a, b) for a, b in zs], taus


# copies of the evaluated GreensFunction object printed by h_ed: every clause of the property is about "the Green's function", whichever
# object of the program holds it -- a copy that evaluates differently from the object it was copied from breaks the clauses the
# original satisfies
COPY_TAGS = {"GCOPY": "a copy of the computed object", "GCOPYRUN": "a copy of the computed object after prepare(); compute() on the copy",
             "GCOPY0": "a copy taken before prepare(), prepared and computed afterwards"}


def parse_side(recs, pairs, zs, taus, with_terms):
    """records of one side (impl or oracle) -> dict"""
    out = {"G": {}, "GN": {}, "GTAU": {}, "TERMS": {}, "VAN": {}, "DM": None, "THROWS": []}
    cur = None
    for t in recs:
        tag = t[0]
        if tag == "G":
            i, j = int(t[1]), int(t[2])
            off = 4 if with_terms else 3          # impl prints the vanishing flag
            if with_terms:
                out["VAN"][(i, j)] = int(t[3])
            out["G"][(i, j)] = [edlib.cx(t, off + 2 * k) for k in range(len(zs))]
        elif tag in COPY_TAGS and with_terms:
            out.setdefault("COPIES", {}).setdefault(tag, {})[(int(t[1]), int(t[2]))] = [edlib.cx(t, 4 + 2 * k) for k in range(len(zs))]
        elif tag == "GN":
            i, j = int(t[1]), int(t[2])
            out["GN"][(i, j)] = {int(t[3 + 3 * k]): edlib.cx(t, 4 + 3 * k) for k in range((len(t) - 3) // 3)}
        elif tag == "GTAU":
            i, j = int(t[1]), int(t[2])
            out["GTAU"][(i, j)] = [edlib.cx(t, 3 + 2 * k) for k in range(len(taus))]
        elif tag == "GFPARTS":
            cur = (int(t[1]), int(t[2]))
            out["TERMS"][cur] = []
        elif tag == "GFTERMS" and cur is not None:
            nt = int(t[3])
            for k in range(nt):
                out["TERMS"][cur].append((edlib.cx(t, 4 + 3 * k), edlib.hx(t[6 + 3 * k])))
        elif tag == "DM":
            out["DM"] = [edlib.hx(x) for x in t[1:]]
        elif tag == "THROWS":
            out["THROWS"].append(" ".join(t))
    return out


def evaluate(text, variant, n, pairs=None):
    """Run one scenario; returns (fails, cases, info). fails: list of dicts {kind, pair, what, detail}; cases: list of
    (canon, signature, nontrivial). Never raises on library errors: they are reported in info."""
    pairs = pairs or [(i, j) for i in range(n) for j in range(n)]
    beta = None
    for l in text.split("\n"):
        if l.startswith("beta "):
            beta = float(l.split()[1])
    q, zs, taus = queries_for(n, beta, pairs)
    r = edlib.run(text, q, variant=variant)
    info = {"error": r.error, "crash": r.crash}
    fails, cases = [], []
    if r.error or r.crash or not r.impl:
        return fails, cases, info
    im = parse_side(r.impl, pairs, zs, taus, True)
    orc = parse_side(r.oracle, pairs, zs, taus, False)
    info["throws"] = im["THROWS"]
    info["oracle_missing"] = not orc["G"]
    # bookkeeping for the truncation bound
    nnz = {}
    for t in r.dumprec("OPMAT"):
        if t[1] == "c":
            nnz[int(t[2])] = nnz.get(int(t[2]), 0) + int(t[7])
    eigs = [e for b in r.eigs().values() for e in b]
    spread = (max(eigs) - min(eigs)) if eigs else 0.0
    occ = im["DM"][2:] if im["DM"] else None
    info["spread"] = spread
    info["beta"] = beta
    maxbp = 0.0

    def fail(kind, pair, what, **detail):
        fails.append({"kind": kind, "pair": list(pair), "diag": pair[0] == pair[1], "what": what, "detail": detail})

    def finite(z):
        return math.isfinite(z.real) and math.isfinite(z.imag)

    for (i, j) in pairs:
        if (i, j) not in im["G"] or (i, j) not in im["TERMS"]:
            continue
        d = 1.0 if i == j else 0.0
        terms = im["TERMS"][(i, j)]
        nd = min(nnz.get(i, 0), nnz.get(j, 0))
        trunc = nd * DROP
        sumR = sum(R for R, P in terms)
        sumabsR = sum(abs(R) for R, P in terms)
        pmax = max([abs(P) for R, P in terms] + [0.0])
        maxbp = max(maxbp, beta * pmax)
        kindp = "diag" if i == j else "offdiag"
        sig0 = "%s nterms=%s" % (kindp, "0" if not terms else ("1" if len(terms) == 1 else "2+"))

        # -- finite values everywhere
        allv = im["G"][(i, j)] + list(im["GN"][(i, j)].values()) + im["GTAU"][(i, j)]
        if not all(finite(v) for v in allv):
            fail("finite", (i, j), "non-finite value (inf/nan) returned by GreensFunction for beta*max|pole| = %.3g" % (beta * pmax),
                 values=[str(v) for v in allv if not finite(v)][:4])
            continue

        # -- copies of the object evaluate like the object
        for tag in sorted(im.get("COPIES", {})):
            cv = im["COPIES"][tag].get((i, j))
            if cv is None:
                continue
            for z, g, gc in zip(zs, im["G"][(i, j)], cv):
                if gc != g and not (abs(gc - g) <= 1e-14 * (1.0 + abs(g))):
                    fail("copy", (i, j), "G(z) at z=%s is %s, but %s returns %s (e.g. z G_ii(z) -> %s instead of 1 for a doubled function)"
                         % (z, g, COPY_TAGS[tag], gc, "2" if abs(gc - 2 * g) < 1e-9 * (1 + abs(g)) else "?"), z=str(z), copy=tag)
                    break

        # -- terms vs evaluation in frequency (generated formula R/(z-P) summed over the stored list)
        worst = 0.0
        for z, g in zip(zs, im["G"][(i, j)]):
            ref = sum(term_freq(R, P, z) for R, P in terms)
            sc = sum(abs(R) / abs(z - P) for R, P in terms) + 1e-300
            if abs(g - ref) > 1e-11 * sc + 1e-300:
                fail("terms-vs-frequency", (i, j), "G(z) at z=%s is %s but the stored terms give sum R/(z-P) = %s" % (z, g, ref), z=str(z))
                break
            worst = max(worst, abs(g - ref) / sc)
        for nn, g in im["GN"][(i, j)].items():
            z = 1j * (2 * nn + 1) * math.pi / beta
            ref = sum(term_freq(R, P, z) for R, P in terms)
            sc = sum(abs(R) / abs(z - P) for R, P in terms) + 1e-300
            if abs(g - ref) > 1e-11 * sc + 1e-300:
                fail("terms-vs-frequency", (i, j), "G(i w_%d) is %s but the stored terms give sum R/(i w - P) = %s" % (nn, g, ref), n=nn)
                break
        cases.append(("freq %d %d" % (i, j), "terms-vs-frequency " + sig0, bool(terms)))

        # -- terms vs evaluation in tau (the proved closed form -R e^{-tau P}/(1+e^{-beta P}), both code branches)
        has_pos = any(P > 0 for R, P in terms)
        has_neg = any(P <= 0 for R, P in terms)
        for tau, g in zip(taus, im["GTAU"][(i, j)]):
            ref = sum(term_tau(R, P, tau, beta) for R, P in terms)
            sc = sum(abs(term_tau(abs(R), P, tau, beta)) for R, P in terms) + 1e-300
            if abs(g - ref) > 1e-10 * sc + 1e-300:
                fail("terms-vs-tau", (i, j), "G(tau=%g) is %s but the closed form -R e^{-tau P}/(1+e^{-beta P}) summed over the stored terms gives %s "
                     "(poles > 0 present: %s, poles <= 0 present: %s)" % (tau, g, ref, has_pos, has_neg), tau=tau, pos=has_pos, neg=has_neg)
                break
        cases.append(("tau %d %d" % (i, j), "terms-vs-tau %s branches=%s%s" % (kindp, "P" if has_pos else "", "N" if has_neg else ""), bool(terms)))

        # -- conjugation symmetry conj(G_ij(z)) = G_ji(conj z)   (z list is closed under conjugation: index k <-> partner)
        if (j, i) in im["G"]:
            gji = im["G"][(j, i)]
            zindex = {z: k for k, z in enumerate(zs)}
            ok = True
            for k, z in enumerate(zs):
                kc = zindex[z.conjugate()]
                sc = sum(abs(R) / abs(z - P) for R, P in terms) + 1e-300
                dist = max(abs(z.imag), abs(z) - spread, 1e-3)
                tol = 1e-10 * sc + 2 * trunc / dist + 2 * DROP * sumabsR / dist ** 2
                if abs(im["G"][(i, j)][k].conjugate() - gji[kc]) > tol:
                    fail("conj-symmetry", (i, j), "conj(G_%d%d(z)) = %s differs from G_%d%d(conj z) = %s at z = %s (tolerance %.3g)"
                         % (i, j, im["G"][(i, j)][k].conjugate(), j, i, gji[kc], z, tol), z=str(z))
                    ok = False
                    break
            cases.append(("conj %d %d" % (i, j), "conj-symmetry " + kindp, bool(terms)))

        # -- sum rule and tail:  |z G(z) - sum R| <= sum |R P| / (|z| - Pmax)   (proved), sum R = delta_ij (truncation)
        if abs(sumR - d) > 1e-10 + trunc:
            fail("sum-rule", (i, j), "the residues of G_%d%d add up to %s instead of delta = %g (tolerance %.3g)" % (i, j, sumR, d, 1e-10 + trunc))
        srp = sum(abs(R * P) for R, P in terms)
        for z, g in zip(zs, im["G"][(i, j)]):
            if abs(z) >= 999.0:
                bound = srp / (abs(z) - pmax)
                dev = abs(z * g - d)
                if dev > bound + trunc + 1e-10 * (abs(z) * sumabsR / (abs(z) - pmax)):
                    fail("tail", (i, j), "|z G_%d%d(z) - delta| = %.3g at |z| = %g exceeds the proved tail bound %.3g (+ truncation %.3g)"
                         % (i, j, dev, abs(z), bound, trunc), z=str(z))
                    break
        cases.append(("tail %d %d" % (i, j), "tail+sum-rule " + kindp, bool(terms)))

        # -- diagonal: Im G_ii(i w_n) < 0 for n >= 0; G_ii(tau) <= 0; G_ii(beta) = - <n_i>
        if i == j:
            for nn, g in im["GN"][(i, j)].items():
                if (nn >= 0 and not g.imag < 0) or (nn < 0 and not g.imag > 0):
                    fail("im-negative", (i, j), "Im G_%d%d(i w_%d) = %g does not have the sign of -w_n" % (i, j, nn, g.imag), n=nn)
                    break
            for tau, g in zip(taus, im["GTAU"][(i, j)]):
                if g.real > 1e-12 or abs(g.imag) > 1e-12:
                    fail("gtau-nonpositive", (i, j), "G_%d%d(tau=%g) = %s is not a non-positive real number" % (i, j, tau, g), tau=tau)
                    break
            if occ is not None and i < len(occ):
                gb = im["GTAU"][(i, j)][-1]
                if abs(gb + occ[i]) > 1e-10 + trunc:
                    fail("gtau-beta-occupation", (i, j), "G_%d%d(beta) = %s but -<n_%d> from the density matrix is %g (tolerance %.3g)"
                         % (i, j, gb, i, -occ[i], 1e-10 + trunc))
            cases.append(("diag %d" % i, "im-negative+gtau-sign+occupation", True))

        # -- jump
        g0, gb = im["GTAU"][(i, j)][0], im["GTAU"][(i, j)][-1]
        if abs(g0 + gb + d) > 1e-10 + trunc:
            fail("gtau-jump", (i, j), "G_%d%d(0) + G_%d%d(beta) = %s instead of -delta = %g (tolerance %.3g)" % (i, j, i, j, g0 + gb, -d, 1e-10 + trunc))
        cases.append(("jump %d %d" % (i, j), "gtau-jump " + kindp, True))

        # -- against the executable specification (oracle): G(tau) and G(z)
        if (i, j) in orc["GTAU"]:
            for tau, g, o in zip(taus, im["GTAU"][(i, j)], orc["GTAU"][(i, j)]):
                if abs(g - o) > 1e-11 * (abs(o) + 1) + trunc:
                    fail("oracle-gtau", (i, j), "G_%d%d(tau=%g) = %s, the specification (EDSpec.gf_tau) gives %s (tolerance %.3g)"
                         % (i, j, tau, g, o, 1e-11 * (abs(o) + 1) + trunc), tau=tau)
                    break
        if (i, j) in orc["G"]:
            for z, g, o in zip(zs, im["G"][(i, j)], orc["G"][(i, j)]):
                dist = max(abs(z.imag), abs(z) - spread, 1e-3)
                sc = sum(abs(R) / abs(z - P) for R, P in terms) + 1e-300
                tol = 1e-10 * sc + trunc / dist + DROP * sumabsR / dist ** 2
                if abs(g - o) > tol:
                    fail("oracle-gf", (i, j), "G_%d%d(z=%s) = %s, the specification (EDSpec.gf) gives %s (tolerance %.3g)" % (i, j, z, g, o, tol), z=str(z))
                    break
        cases.append(("oracle %d %d" % (i, j), "oracle gf+gtau " + kindp, True))
    info["max_beta_pole"] = maxbp
    return fails, cases, info


def shrink(text, variant, n, kind, pair):
    """drop model lines while the same kind of failure persists (for some pair); returns (text, fail)"""
    def first_fail(tx, pairs=None):
        try:
            fl, _, _ = evaluate(tx, variant, n, pairs)
        except Exception:
            return None
        for f in fl:
            if f["kind"] == kind and f["diag"] == (pair[0] == pair[1]):
                return f
        return None
    lines = [l for l in text.strip().split("\n") if l.strip()]
    best = first_fail(text, [tuple(pair), tuple(reversed(pair))] if pair[0] != pair[1] else [tuple(pair)]) or first_fail(text)
    if best is None:
        return text, None
    changed = True
    while changed:
        changed = False
        for k in range(len(lines)):
            if lines[k].split()[0] in ("site", "symm", "beta"):
                continue
            cand = lines[:k] + lines[k + 1:]
            f = first_fail("\n".join(cand) + "\n")
            if f is not None:
                lines, best, changed = cand, f, True
                break
    return "\n".join(lines) + "\n", best


def scenarios(chk, quick):
    rng = chk.rng
    out = []
    fams = list(scen.FAMILIES) + [small_beta, large_beta, large_beta]
    reps = 1 if quick else 5
    for rep in range(reps):
        for fam in fams:
            for symm in ("default", "ignore"):
                name, text, n, info = fam(rng, symm)
                out.append((name, symm, "real", text, n))
        for fam in (scen.pairing, scen.three_orbital_small):       # symmetries must be ignored for these
            name, text, n, info = fam(rng, "ignore")
            out.append((name, "ignore", "real", text, n))
    if not quick:
        for rep in range(5):
            for symm in ("default", "ignore"):
                name, text, n, info = complex_hop(rng, symm)
                out.append((name, symm, "complex", text, n))
            for fam in (scen.two_site, scen.hubbard_atom, large_beta):
                name, text, n, info = fam(rng, "default")
                out.append((name, "default", "complex", text, n))
    return out


def run(chk):
    quick = chk.tier == "quick"
    ok, log = chk.prove(["extract/Extract_ED.vo"], extra_props=["Properties_C01_copy.v"])      # copy constructor of GreensFunction; the oracle driver is built from the extracted specification
    chk.trusted += ["translator/gen_copy.py (~150 lines: regular expressions over the copy constructor's initialiser list and body) and the meaning coq/theories/CopyShapes.v gives to such a constructor (field-wise state, base classes Thermal = {beta}, ComputableObject = {Status}); a constructor outside the recognised shape falls back to the snapshot and copies are then judged by the runs only",
                    "translator/gen_c11.py and translator/cexpr.py (C++ expression -> Gallina)",
                    "harness/h_ed.cpp, harness/ed_common.h, ocaml/driver_ed.ml + extraction of PV.EDSpec at binary64 (oracle for G, G(tau)), tools/edlib.py",
                    "python float evaluation of the proved closed forms (term_tau via log1p; sums over the dumped term lists)",
                    "Fourier uniqueness: the inverse direction of tau_is_transform (tau values determined by the Matsubara values) is not proved"]
    chk.assume += ["floating-point rounding is outside the model: identities are checked to 1e-10 relative to the sum of the magnitudes of the pieces",
                   "documented truncation: residues <= 1e-8 dropped, poles within 1e-8 merged; bound nd*1e-8 with nd = number of non-zero matrix elements of c_i",
                   "the hypotheses of the theorems (CAR in the eigenbasis, normalised Gibbs weights) are what C10 / C09 establish; here they are observed through "
                   "the sum rule of the dumped residues"]
    edlib.binaries("real")
    first = {}
    nscen = 0
    maxbp = 0.0
    famhist = {}
    for (name, symm, variant, text, n) in scenarios(chk, quick):
        fails, cases, info = evaluate(text, variant, n)
        nscen += 1
        if info.get("error") or info.get("crash"):
            # a stage threw / the harness crashed on a valid model: not this property's business unless it is the GF stage
            chk.case("%s|%s|%s" % (name, symm, text), "build-error %s %s" % (name, symm), nontrivial=False)
            chk.notes.append("scenario %s/%s did not build: %s" % (name, symm, info.get("error") or info.get("crash")))
            continue
        maxbp = max(maxbp, info.get("max_beta_pole", 0.0))
        if info.get("oracle_missing") and not any(b.get("name") == "driver_ed" for b in chk.broken):
            chk.tie_broken("driver_ed", "the specification oracle returned no G values for scenario %s/%s (%s build)" % (name, symm, variant))
        famhist["%s/%s/%s" % (name, symm, variant)] = famhist.get("%s/%s/%s" % (name, symm, variant), 0) + len(cases)
        for (canon, sig, nt) in cases:
            chk.case("%s|%s|%s|%s|%s" % (name, symm, variant, text, canon), "%s [%s,%s]" % (sig, symm, variant), nontrivial=nt,
                     sample={"family": name, "symm": symm, "variant": variant, "case": canon, "beta": info.get("beta")} if canon.startswith("conj 0 1") else None)
        for t in info.get("throws", []):
            key = "throws %s" % t.split()[1]
            if key not in first:
                first[key] = (name, symm, variant, text, n, {"kind": "throws", "pair": [0, 0], "diag": True, "what": "a GreensFunction query threw: " + t, "detail": {}})
        for f in fails:
            key = "%s %s" % (f["kind"], "diag" if f["diag"] else "offdiag")
            if key not in first:
                first[key] = (name, symm, variant, text, n, f)
    for key, (name, symm, variant, text, n, f) in sorted(first.items()):
        stext, sf = (text, f)
        if f["kind"] != "throws":
            try:
                stext, sf = shrink(text, variant, n, f["kind"], f["pair"])
            except Exception:
                stext, sf = text, f
            if sf is None:
                stext, sf = text, f
        chk.violation(key, "%s [family %s, symmetries %s, %s build]" % (sf["what"], name, symm, variant),
                      {"harness": "h_ed", "variant": variant, "scenario": stext, "n_modes": n, "kind": f["kind"], "pair": sf["pair"],
                       "detail": sf["detail"], "unshrunk_scenario": text})
    chk.extra["scenarios"] = nscen
    chk.extra["cases_by_family"] = famhist
    chk.extra["max_beta_times_pole"] = maxbp
    chk.rule = ("scenarios: every family of tools/scen.py (Hubbard atom, two-site incl. spin-flip hopping, Anderson, free degenerate, atomic limit, "
                "Kanamori, exchange) with default and with ignored symmetries, pairing and spinless models (symmetries ignored), small beta, and "
                "large beta (beta*|pole| up to 1e3); complex build (complex hopping as raw terms) in the thorough tier. Per scenario every ordered index "
                "pair (i,j); per pair one case per identity (terms-vs-frequency, terms-vs-tau with the branch pattern of the poles, conj-symmetry, "
                "tail+sum-rule at |z| = 1e3 and 1e4, diagonal sign conditions and occupancy, jump, oracle). distinct = distinct (scenario text, pair, identity); "
                "non-trivial = the component has at least one term")


def replay(chk, path):
    r = json.load(open(path))
    rp = r.get("replay", {})
    print(json.dumps({k: rp.get(k) for k in ("kind", "pair", "variant", "scenario", "detail")}, indent=1))
    if isinstance(rp, dict) and "scenario" in rp:
        fails, cases, info = evaluate(rp["scenario"], rp.get("variant", "real"), int(rp.get("n_modes", 2)))
        print("build:", info.get("error") or info.get("crash") or "ok")
        seen = set()
        for f in fails:
            key = "%s %s" % (f["kind"], "diag" if f["diag"] else "offdiag")
            if key in seen:
                continue
            seen.add(key)
            print("FAILS %s: %s" % (key, f["what"]))
            chk.violation(key, f["what"], rp)
        if not fails:
            print("no identity fails on this scenario now")
        for (canon, sig, nt) in cases:
            chk.case(canon, sig, nontrivial=nt)
        chk.prove(["extract/Extract_ED.vo"])
        return chk.finish()
    run(chk)
    return chk.finish()


def setup():
    edlib.binaries("real")
