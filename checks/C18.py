"""C18 -- Index bookkeeping is a bijection; physics invariant under relabelling.

Proof: props/Properties_C18.v about the model coq/theories/Index.v of IndexClassification::prepare / getIndex /
getInfo / checkIndex and of the site map (theories/IndexProofs.v): for every list of sites with distinct labels and
both modes -- index_count, index_nodup, index_covers, getIndex_getInfo, getInfo_getIndex, getIndex_unknown,
rename_is_mode_permutation -- for the repaired spin-major loop unconditionally and for the loop as written under the
exact condition `spin counts do not increase along the label order' (spin_major_break_exact);
index_covers_spin_major_refuted gives the witness A(1,1), B(1,2) for the loop as written.

Tie (correspondence, every run, against the library rebuilt from the repository's working tree):
 (A) h_c18 (real IndexClassification, private tables read directly) vs the extracted model in BOTH variants
     (M0 = `break` as written, M1 = `continue`), exact diff of a canonical dump, on an exhaustive sweep of small shapes
     plus random lattices with labels chosen so that map order != insertion order (prefixes, different lengths, bytes
     >= 0x80, the empty label, occasionally a repeated label).  The run decides which variant the code is.
     Independently of the model the property itself is evaluated on the implementation's output (count, no null
     entry, image = valid triples, no duplicates, both lookups inverse, unknown -> IndexSize, getInfo throws);
     failing lattices are shrunk (drop sites, reduce counts, canonical labels) and reported with the canonical
     minimal lattice as key.  boost::hash injectivity on the labels that occur is checked per case.
 (A') re-prepare histories: a repeated prepare() on the SAME object is supported since repository commit 1fd1f00 ("starts from
     scratch").  For every generated lattice h_c18 constructs one IndexClassification per history and calls prepare(m1);
     prepare(m2); prepare(m3) on it (quick: 001, 011, 100, 110 = every pair (m1,m2) and every transition into a third call;
     thorough: all 8); after EVERY call the object is dumped like after a single call and must be exactly what a single
     prepare(m_last) on a fresh object gives: the property text evaluated on the dump (count, bijection onto 0..N-1, getIndex /
     getInfo mutual inverses, unknown -> IndexSize), byte-equality with the fresh-object dump and with the extracted model's
     table for m_last.  Model side: theories/IndexReprepare.v (object state across calls), Properties_C18.prepare_twice_is_last /
     prepare_history_is_last (the table after any history of calls is the table of the last call).  A failing history is
     shrunk (shorter history, fewer sites, smaller counts, canonical labels) and reported with the history as part of the key.
 (B) differential relabelling runs of the whole ED chain (h_c18_phys): the same random small model built with the
     original / renamed labels, original / permuted order of addSite calls, both modes; eigenvalues, occupancies,
     double occupancies, <c+_i c_j>, G_ij(i w_n) compared after applying the permutation pi computed from the two
     index tables (abs+rel 1e-9).  G is compared twice: with the library's two drop thresholds set to 0 (no Lehmann term
     dropped: strict 1e-9), and as the library computes it with the documented truncation allowed for (2e-8 per possible
     term / |w_n|; which terms fall below 1e-8 depends on the eigenbasis inside degenerate levels, hence on the order
     of the basis states -- measured: up to 2e-8).  This covers the part of C18 that is only partially formalised
     (sem_permute_monomial_partial, sem_permute_poly_partial: conjugation by the signed basis permutation, for products of
     adjacent transpositions; the step to spectra and observables is not formalised).
     Two model families: (i) raw Lattice::Term lines (levels, hoppings, density-density, pair hopping, pairing), 30% of them with one or
     two LatticePresets::addHopping calls on top; (ii) `presets-asym': multi-orbital / multi-spin sites with pairwise different levels
     joined by LatticePresets::addHopping bonds whose two ends are DIFFERENT orbitals and / or DIFFERENT spins (addHopping8 with
     Orbital1 != Orbital2 or Spin1 != Spin2, addHopping7 / addHopping6 with Orbital1 != Orbital2; also bonds inside one site), the two
     labels passed in either alphabetical order.  The renaming of every copy REVERSES the alphabetical order of the labels, so that
     for every such bond label1 < label2 in one copy and label1 > label2 in the other: a preset that attaches (Orbital1, Spin1) to a
     site chosen by comparing the labels builds two different Hamiltonians (the signature says `bond-order-reversed').
"""
import itertools
import json
import pv

TOL = 1e-9

# --------------------------------------------------------------------------------------------
# lattice descriptions

def enc(b):
    return "x" + bytes(b).hex()


def dec(t):
    return bytes.fromhex(t[1:])


def case_line(cid, mode, calls, queries):
    """calls: [(label bytes, orb, spin)], queries: [(label bytes, o, s)]"""
    t = ["case", str(cid), str(int(mode)), str(len(calls))]
    for l, o, s in calls:
        t += [enc(l), str(o), str(s)]
    t.append(str(len(queries)))
    for l, o, s in queries:
        t += [enc(l), str(o), str(s)]
    return " ".join(t)


def hist_line(cid, hists, calls, queries):
    """hists: mode strings over {0,1}: prepare() called once per character on one object"""
    t = ["hist", str(cid), ",".join(hists), str(len(calls))]
    for l, o, s in calls:
        t += [enc(l), str(o), str(s)]
    t.append(str(len(queries)))
    for l, o, s in queries:
        t += [enc(l), str(o), str(s)]
    return " ".join(t)


def site_map(calls):
    """what std::map<std::string, Site*> holds after the addSite calls: later call wins, byte order."""
    d = {}
    for l, o, s in calls:
        d[bytes(l)] = (o, s)
    return [(l, d[l][0], d[l][1]) for l in sorted(d)]


def std_queries(calls, extra_labels=()):
    sm = site_map(calls)
    labels = set(l for l, _, _ in sm)
    q = []
    for l, o, s in sm:
        q += [(l, o, 0), (l, 0, s), (l, o, s), (l, o - 1, s - 1)]
        for l2 in (l + b"x", l[:-1], l + b"\x00"):
            if l2 not in labels:
                q.append((l2, 0, 0))
    for l2 in extra_labels:
        q.append((l2, 0, 0))
    return q


def describe(mode, calls):
    def lab(l):
        try:
            s = l.decode("ascii")
            if s and all(33 <= ord(c) < 127 and c not in "(),=" for c in s):
                return s
        except UnicodeDecodeError:
            pass
        return enc(l)
    return "order_spins=%d sites=%s" % (int(mode), ",".join("%s(%d,%d)" % (lab(l), o, s) for l, o, s in calls))


def signature(mode, calls):
    sm = site_map(calls)
    spins = [s for _, _, s in sm]
    if len(set(spins)) <= 1:
        kind = "homogeneous"
    elif all(spins[i] >= spins[i + 1] for i in range(len(spins) - 1)):
        kind = "hetero-nonincreasing"
    else:
        kind = "hetero-increasing"
    dup = " dup-label" if len(sm) != len(calls) else ""
    reord = " unsorted-calls" if [c[0] for c in calls] != sorted(c[0] for c in calls) else ""
    return "idx mode=%d spins=%s sites=%d%s%s" % (int(mode), kind, len(sm), dup, reord)


# --------------------------------------------------------------------------------------------
# parsing the canonical dumps

def parse_dump(line):
    t = line.split()
    d = {"tag": t[0], "id": t[1], "body": " ".join(t[2:])}
    for kv in t[2:]:
        if "=" in kv:
            k, v = kv.split("=", 1)
            d[k] = v
        else:
            d.setdefault("flags", []).append(kv)
    return d


def lst(v):
    return v.split(",") if v else []


def norm_body(d):
    """harness and model bodies made comparable: the harness sees SIGSEGV where the model says Uninit."""
    return d["body"].replace("prepare=SEGV", "prepare=UB").replace("prepare=UNINIT", "prepare=UB")


def spec_failures(mode, calls, R):
    """The property text evaluated on what the implementation printed. Returns a list of failure kinds."""
    if "DIED" in R.get("flags", []):
        return ["harness child died"]
    sm = site_map(calls)
    valid = ["%s:%d:%d" % (enc(l), o, s) for l, orb, sp in sm for o in range(orb) for s in range(sp)]
    N = len(valid)
    f = []
    if R.get("sites") != ",".join("%s:%d:%d" % (enc(l), o, s) for l, o, s in sm):
        f.append("site map is not in byte-lexicographic label order")
    if int(R["size"]) != N:
        f.append("IndexSize %s != sum of orbitals*spins %d" % (R["size"], N))
    vec = lst(R.get("vec", ""))
    if "NULL" in vec:
        f.append("null entries in IndicesToInfo (%d of %d indices unassigned)" % (vec.count("NULL"), len(vec)))
    if R.get("prepare") != "ok":
        f.append("prepare() raised %s" % R.get("prepare"))
        return f
    info = lst(R["info"])
    if info != vec:
        f.append("getInfo differs from the table")
    if len(set(info)) != len(info):
        f.append("one triple listed under two indices")
    if set(info) != set(valid) or len(info) != N:
        f.append("image of the enumeration is not the set of valid triples")
    pos = {x: i for i, x in enumerate(info)}
    idx = [int(x) for x in lst(R["idx"])]
    if idx != [pos.get(x, -1) for x in valid]:
        f.append("getIndex is not the inverse of getInfo")
    if R["thr"] != "TT":
        f.append("getInfo(>= IndexSize) does not throw")
    if R["chk"] != "1" * N + "00":
        f.append("checkIndex wrong")
    if R.get("copy") == "DIFFERS":
        f.append("a copy of the prepared IndexClassification answers the same queries differently from the object it was copied from")
    return f


def spec_query_failures(calls, queries, R):
    if R.get("prepare") != "ok":
        return []
    sm = site_map(calls)
    shape = {l: (o, s) for l, o, s in sm}
    info = lst(R["info"])
    pos = {x: i for i, x in enumerate(info)}
    N = int(R["size"])
    q = [int(x) for x in lst(R["q"])]
    f = []
    for (l, o, s), got in zip(queries, q):
        ok = l in shape and 0 <= o < shape[l][0] and 0 <= s < shape[l][1]
        want = pos.get("%s:%d:%d" % (enc(l), o, s), -1) if ok else N
        if o < 0 or s < 0:
            continue   # negative numbers wrap around in unsigned short: not a question the property asks
        if got != want:
            f.append("getIndex(%s,%d,%d) = %d, expected %d" % (enc(l), o, s, got, want))
    return f


# --------------------------------------------------------------------------------------------
# generators

LABEL_POOL = [b"", b"A", b"AA", b"AB", b"ABC", b"B", b"BA", b"a", b"aa", b"ab", b"b", b"Z", b"0", b"1", b"10", b"2",
              b"\x7f", b"\x80", b"\xff", b"A\x80", b"A\x00", b"\x00", b"site", b"site1", b"site10", b"site2", b"~", b" ",
              b"A B", b"up", b"dn"]


def rand_label(rng):
    r = rng.random()
    if r < 0.6:
        return rng.choice(LABEL_POOL)
    n = rng.randint(0, 4)
    return bytes(rng.choice([0, 1, 32, 48, 65, 66, 97, 98, 127, 128, 200, 255]) for _ in range(n))


def rand_lattice(rng, max_sites=4):
    n = rng.randint(1, max_sites)
    labels = []
    while len(labels) < n:
        l = rand_label(rng)
        if l not in labels:
            labels.append(l)
        elif rng.random() < 0.03:
            labels.append(l)         # a repeated label now and then: the second addSite replaces the first
    r = rng.random()
    if r < 0.3:
        sp = rng.randint(1, 3)
        spins = [sp] * n
    else:
        spins = [rng.randint(1, 3) for _ in range(n)]
    return [(l, rng.randint(1, 3), s) for l, s in zip(labels, spins)]


def canon_labels(n):
    return [bytes([65 + i]) for i in range(n)]


def sweep(max_sites, max_orb, max_spin):
    shapes = [(o, s) for o in range(1, max_orb + 1) for s in range(1, max_spin + 1)]
    for n in range(1, max_sites + 1):
        for combo in itertools.product(shapes, repeat=n):
            yield [(l, o, s) for l, (o, s) in zip(canon_labels(n), combo)]


# --------------------------------------------------------------------------------------------
# running harness + model on a batch of index cases

class IndexRunner:
    def __init__(self, chk):
        self.chk = chk
        self.h = pv.build_harness("h_c18")
        self.drv = pv.build_driver("driver_c18", ["C18_model"])
        self.cache = {}            # (mode, calls, queries) -> result dict of the single-prepare run (filled by index_part)
        self.variant_tags = []     # which variants of the model the code was found to be (filled by index_part)

    def run_hist(self, cases):
        """cases: [(histories [mode string], calls, queries)] -> list of dicts {(history, k): parsed S line}; harness only.
        A child that died is reported under the key "DIED"."""
        inp = "".join(hist_line(i, hs, c, q) + "\n" for i, (hs, c, q) in enumerate(cases))
        rc, out, err = pv.run_harness(self.h, inp, timeout=900)
        if rc != 0:
            raise pv.BuildError("h_c18 failed (exit %d)" % rc, err[-2000:])
        res = [{} for _ in cases]
        for l in out.split("\n"):
            if l.startswith("S "):
                d = parse_dump(l)
                ident = d["id"].split(":")
                if len(ident) == 3:
                    res[int(ident[0])][(ident[1], int(ident[2]))] = d
                else:
                    res[int(ident[0])]["DIED"] = d
        return res

    def run(self, cases, want_model=True):
        """cases: [(mode, calls, queries)] -> list of dicts {R, H, M0, M1}"""
        inp = "".join(case_line(i, m, c, q) + "\n" for i, (m, c, q) in enumerate(cases))
        rc, out, err = pv.run_harness(self.h, inp, timeout=900)
        res = [{} for _ in cases]
        if rc != 0:
            raise pv.BuildError("h_c18 failed (exit %d)" % rc, err[-2000:])
        for l in out.split("\n"):
            if l.startswith("R "):
                d = parse_dump(l)
                res[int(d["id"])]["R"] = d
            elif l.startswith("H "):
                t = l.split()
                res[int(t[1])]["H"] = dict(kv.split("=") for kv in t[2:])
            elif l.startswith("K "):
                t = l.split()
                if "R" in res[int(t[1])]:
                    res[int(t[1])]["R"]["copy"] = t[2]
        if want_model:
            rc2, mout, merr = pv.sh([self.drv], input=inp, timeout=900)
            if rc2 != 0:
                self.chk.tie_broken("driver_c18", "model driver failed: rc=%d %s" % (rc2, merr[-300:]))
            for l in mout.split("\n"):
                if l.startswith("M0 ") or l.startswith("M1 "):
                    d = parse_dump(l)
                    res[int(d["id"])][d["tag"]] = d
        return res


def shrink_index(runner, mode, calls, fails_pred):
    """greedy: drop sites, reduce counts, canonical labels in sorted order, while the failure persists."""
    cur = list(calls)
    for _ in range(40):
        cands = []
        for i in range(len(cur)):
            if len(cur) > 1:
                cands.append(cur[:i] + cur[i + 1:])
        for i, (l, o, s) in enumerate(cur):
            if o > 1:
                cands.append(cur[:i] + [(l, o - 1, s)] + cur[i + 1:])
            if s > 1:
                cands.append(cur[:i] + [(l, o, s - 1)] + cur[i + 1:])
        sm = site_map(cur)
        canon = [(n, o, s) for n, (_, o, s) in zip(canon_labels(len(sm)), sm)]
        if canon != cur:
            cands.append(canon)
        if not cands:
            break
        res = runner.run([(mode, c, []) for c in cands], want_model=False)
        nxt = None
        for c, r in zip(cands, res):
            if "R" in r and fails_pred(mode, c, r["R"]):
                nxt = c
                break
        if nxt is None:
            break
        cur = nxt
    return cur


def index_part(chk, runner, cases):
    """cases: [(mode, calls, queries)]. Returns the set of (mode, site-map tuple) for which the implementation is unsafe."""
    res = runner.run(cases)
    agree = {"M0": 0, "M1": 0}
    discriminating = 0
    disagree = {"M0": None, "M1": None}
    failing = []          # (mode, calls, kinds)
    unsafe = set()
    collisions = []
    for (mode, calls, queries), r in zip(cases, res):
        R = r.get("R")
        runner.cache[(int(mode), tuple(calls), tuple(queries))] = r
        canon = describe(mode, calls)
        sig = signature(mode, calls)
        sm = site_map(calls)
        nontriv = len(sm) >= 2 or (sm and sm[0][1] * sm[0][2] > 1)
        if R is None:
            chk.tie_broken("h_c18 output", "no result line for %s" % canon)
            continue
        bodyR = norm_body(R)
        for tag in ("M0", "M1"):
            if tag in r and norm_body(r[tag]) == bodyR:
                agree[tag] += 1
            elif disagree[tag] is None:
                disagree[tag] = (canon, R["body"], r.get(tag, {}).get("body"))
        if "M0" in r and "M1" in r and r["M0"]["body"] != r["M1"]["body"]:
            discriminating += 1
        fails = spec_failures(mode, calls, R) + spec_query_failures(calls, queries, R)
        if fails:
            failing.append((mode, calls, fails))
        if fails or "NULL" in R.get("vec", "") or R.get("prepare") != "ok":
            unsafe.add((int(mode), tuple(sm)))     # the ED chain is not run on top of an index table that is already wrong
        H = r.get("H", {})
        if len(set(H.values())) != len(H):
            collisions.append((canon, H))
        chk.case("I " + canon, sig, nontrivial=nontriv,
                 sample={"lattice": canon, "impl": R["body"][:300], "model_as_written": r.get("M0", {}).get("body", "")[:300]}
                 if (sig.endswith("sites=3 unsorted-calls") and "hetero" in sig) else None)
    n = len(cases)
    if agree["M0"] == n and agree["M1"] == n:
        variant = "undetermined (no case on which the two variants of the model differ)"
    elif agree["M0"] == n:
        variant = "as-written (`break`, Index.v fixed=false)"
    elif agree["M1"] == n:
        variant = "repaired (`continue`, Index.v fixed=true)"
    else:
        variant = "neither"
    runner.variant_tags = [tag for tag in ("M0", "M1") if agree[tag] == n]
    chk.extra["index_cases"] = n
    chk.extra["index_cases_discriminating_variants"] = discriminating
    chk.extra["agree_with_model_as_written"] = agree["M0"]
    chk.extra["agree_with_model_repaired"] = agree["M1"]
    chk.extra["code_variant"] = variant
    if collisions:
        chk.tie_broken("hash injectivity", "boost::hash collides on labels of %s: %r" % collisions[0])

    # the property itself on the implementation's output: shrink and report
    groups = {}
    for mode, calls, fails in failing:
        groups.setdefault((int(mode), fails[0].split(" (")[0]), []).append((mode, calls, fails))
    for (mode, kind), items in sorted(groups.items()):
        items.sort(key=lambda it: (len(it[1]), sum(o * s for _, o, s in it[1]), describe(it[0], it[1])))
        m0, c0, f0 = items[0]
        pred = lambda md, c, R, kind=kind: any(x.split(" (")[0] == kind for x in spec_failures(md, c, R))
        small = shrink_index(runner, m0, c0, pred)
        rr = runner.run([(m0, small, std_queries(small))])[0]
        key = describe(m0, small)
        fs = spec_failures(m0, small, rr["R"])
        chk.violation(key,
                      "IndexClassification::prepare(%s) on %s: %s [%d of %d explored lattices fail this way; model as written: %s]" % (
                          "true" if m0 else "false", key, "; ".join(fs), len(items), n,
                          rr.get("M0", {}).get("prepare", "?")),
                      {"kind": "index", "case": case_line(0, m0, small, std_queries(small)), "lattice": key,
                       "impl": rr["R"]["body"], "model_as_written": rr.get("M0", {}).get("body"),
                       "model_repaired": rr.get("M1", {}).get("body"), "failures": fs,
                       "theorem": "index_covers_spin_major_refuted / spin_major_break_exact (Properties_C18.v)"})
    # implementation matches neither variant of the model although the property holds on the output: the model is off
    if variant == "neither":
        bad = disagree["M0"] if agree["M0"] >= agree["M1"] else disagree["M1"]
        if not failing:
            chk.tie_broken("Index.v vs IndexClassification", "first disagreement: %r" % (bad,))
        else:
            # is every disagreement explained by a reported failing lattice?  if not, say so as well
            explained = set(describe(m, c) for m, c, _ in failing)
            if bad and bad[0] not in explained:
                chk.tie_broken("Index.v vs IndexClassification", "first disagreement: %r" % (bad,))
    return unsafe


# --------------------------------------------------------------------------------------------
# re-prepare histories: prepare(m1); prepare(m2); ... on one object

HISTS_QUICK = ["001", "011", "100", "110"]         # every pair (m1,m2), every transition m2 -> m3
HISTS_ALL = ["".join(p) for p in itertools.product("01", repeat=3)]


def hist_step_failures(mode, calls, queries, S, fresh, models):
    """one dump S taken after a call prepare(mode) that was not the first one on its object.
    Returns (property failures, correspondence failures): the property text on the dump / the dump against a fresh object's
    and the model's table for `mode`."""
    prop = spec_failures(mode, calls, S) + spec_query_failures(calls, queries, S)
    if "DIED" in S.get("flags", []):
        return prop, []
    corr = []
    body = norm_body(S)
    if fresh is not None and norm_body(fresh) != body:
        corr.append("differs from a fresh object after prepare(%s)" % ("true" if mode else "false"))
    for tag, M in models:
        if M is not None and norm_body(M) != body:
            corr.append("differs from the model's table for prepare(%s) (%s)" % ("true" if mode else "false", tag))
    return prop, corr


def hist_failures(runner, hists, calls, queries, res, unsafe):
    """all failing steps of the histories of one lattice: [(history, k, property failures, correspondence failures)]"""
    out = []
    sm = tuple(site_map(calls))
    if "DIED" in res:
        return [(hists[0], 0, ["harness child died during the histories (%s)" % res["DIED"]["body"]], [])]
    for h in hists:
        for k in range(len(h)):
            S = res.get((h, k))
            if S is None:
                if k > 0 and res.get((h, k - 1), {}).get("prepare") == "ok":
                    out.append((h, k, ["no dump after call %d of history %s" % (k, h)], []))
                break
            mode = int(h[k])
            if (mode, sm) in unsafe:
                break        # a single prepare(mode) on a fresh object already fails on this lattice: reported by the index part
            single = runner.cache.get((mode, tuple(calls), tuple(queries)), {})
            models = [(tag, single.get(tag)) for tag in runner.variant_tags]
            prop, corr = hist_step_failures(mode, calls, queries, S, single.get("R"), models)
            if prop or corr:
                out.append((h, k, prop, corr))
            if S.get("prepare") != "ok":
                break
    return out


def describe_hist(h, calls):
    return "prepare(%s) on one object, sites=%s" % ("); prepare(".join("true" if c == "1" else "false" for c in h),
                                                   describe(0, calls).split("sites=")[1])


def shrink_hist(runner, h, k, calls, unsafe):
    """greedy: shortest prefix of the history that still fails, then drop calls of the prefix, drop sites, reduce counts,
    canonical labels.  The single-prepare results needed for the comparison are produced on the way."""
    def fails(h2, c2):
        q = std_queries(c2)
        single = runner.run([(m, c2, q) for m in (0, 1)])
        for m, r in zip((0, 1), single):
            runner.cache[(m, tuple(c2), tuple(q))] = r
            if "R" not in r or spec_failures(m, c2, r["R"]):
                return False           # not a lattice on which a single call works: a different defect
        res = runner.run_hist([([h2], c2, q)])[0]
        f = hist_failures(runner, [h2], c2, q, res, unsafe)
        return bool(f) and bool(f[0][2] or f[0][3])
    cur_h, cur = h[:k + 1], list(calls)
    for _ in range(40):
        cands = []
        for i in range(len(cur_h) - 1):
            if len(cur_h) > 2:
                cands.append((cur_h[:i] + cur_h[i + 1:], cur))
        for i in range(len(cur)):
            if len(cur) > 1:
                cands.append((cur_h, cur[:i] + cur[i + 1:]))
        for i, (l, o, s) in enumerate(cur):
            if o > 1:
                cands.append((cur_h, cur[:i] + [(l, o - 1, s)] + cur[i + 1:]))
            if s > 1:
                cands.append((cur_h, cur[:i] + [(l, o, s - 1)] + cur[i + 1:]))
        sm = site_map(cur)
        canon = [(n, o, s) for n, (_, o, s) in zip(canon_labels(len(sm)), sm)]
        if canon != cur:
            cands.append((cur_h, canon))
        nxt = next((c for c in cands if fails(*c)), None)
        if nxt is None:
            break
        cur_h, cur = nxt
    return cur_h, cur


def reprepare_part(chk, runner, lattices, unsafe, hists):
    """lattices: [(calls, queries)] for which index_part has run both modes (results in runner.cache)."""
    cases = [(hists, c, q) for c, q in lattices]
    res = runner.run_hist(cases)
    nsteps = 0
    failing = []        # (history, k, calls, property failures, correspondence failures)
    for (hs, calls, queries), r in zip(cases, res):
        fl = hist_failures(runner, hs, calls, queries, r, unsafe)
        sm = site_map(calls)
        two_orders = len(set(norm_body(runner.cache.get((m, tuple(calls), tuple(queries)), {}).get("R", {"body": str(m)})).split(" vec=")[-1].split(" ")[0]
                             for m in (0, 1))) > 1
        for h in hs:
            nsteps += sum(1 for k in range(len(h)) if (h, k) in r)
            chk.case("H " + h + " " + describe(0, calls),
                     "reprepare history=%s %s sites=%d" % (h, "orders-differ" if two_orders else "orders-coincide", len(sm)),
                     nontrivial=two_orders and len(set(h)) > 1,
                     sample=None)
            if two_orders and h == hs[1] and len(sm) == 3 and "reprepare_sample" not in chk.extra:
                chk.extra["reprepare_sample"] = {"history": describe_hist(h, calls),
                                                 "after_each_call": [r.get((h, k), {}).get("body", "")[:300] for k in range(len(h))]}
        for h, k, prop, corr in fl:
            failing.append((h, k, calls, prop, corr))
    chk.extra["reprepare_lattices"] = len(cases)
    chk.extra["reprepare_histories"] = len(cases) * len(hists)
    chk.extra["reprepare_dumps_compared"] = nsteps
    chk.extra["reprepare_failing_steps"] = len(failing)
    if not failing:
        return
    # one report per kind of failure (first property failure, else first correspondence failure), smallest lattice first
    groups = {}
    for it in failing:
        kind = (it[3] or it[4])[0].split(" (")[0]
        if kind.startswith("getIndex("):
            kind = "getIndex of a query triple"       # the text names the triple: one group for all of them
        groups.setdefault((bool(it[3]), kind), []).append(it)
    for (is_prop, kind), items in sorted(groups.items(), key=lambda kv: (not kv[0][0], kv[0][1])):
        items.sort(key=lambda it: (it[1], len(it[2]), sum(o * s for _, o, s in it[2]), describe(0, it[2])))
        h, k, calls, prop, corr = items[0]
        sh, sc = shrink_hist(runner, h, k, calls, unsafe)
        q = std_queries(sc)
        single = runner.run([(m, sc, q) for m in (0, 1)])
        for m, rr in zip((0, 1), single):
            runner.cache[(m, tuple(sc), tuple(q))] = rr
        rs = runner.run_hist([([sh], sc, q)])[0]
        fl = hist_failures(runner, [sh], sc, q, rs, unsafe)
        if not fl:                      # the shrunk input does not reproduce (should not happen): report the original
            sh, sc, q = h[:k + 1], calls, std_queries(calls)
            rs = runner.run_hist([([sh], sc, q)])[0]
            fl = [(sh, k, prop, corr)]
        _, kk, p2, c2 = fl[0]
        mlast = int(sh[kk])
        S = rs.get((sh, kk), {})
        fresh = runner.cache.get((mlast, tuple(sc), tuple(q)), {})
        key = "reprepare " + describe_hist(sh[:kk + 1], sc)
        what = ("%s: after call %d the object is not what a single prepare(%s) gives: %s [%d of %d explored history steps fail this way]" % (
            describe_hist(sh[:kk + 1], sc), kk + 1, "true" if mlast else "false", "; ".join(p2 + c2), len(items), nsteps))
        rep = {"kind": "reprepare", "hist": hist_line(0, [sh[:kk + 1]], sc, q), "history": sh[:kk + 1], "lattice": describe(0, sc).split("sites=")[1],
               "after_history": S.get("body"), "fresh_object_prepare_last": fresh.get("R", {}).get("body"),
               "model_prepare_last": {tag: fresh.get(tag, {}).get("body") for tag in ("M0", "M1")},
               "property_failures": p2, "correspondence_failures": c2,
               "theorem": "prepare_twice_is_last / prepare_history_is_last (Properties_C18.v, model theories/IndexReprepare.v)"}
        if p2:
            chk.violation(key, what, rep)
        else:
            chk.tie_broken("IndexReprepare.v vs IndexClassification::prepare called again", what)


# --------------------------------------------------------------------------------------------
# physics part

PHYS_LABELS = ["A", "B", "AA", "AB", "a", "b", "ab", "Z", "z", "0", "1", "10", "2", "s1", "s10", "s2", "up", "dn", "~", "!"]


def gen_phys_model(rng, max_modes):
    while True:
        n = rng.choice([1, 2, 2, 2, 3, 3])
        shape = [(rng.randint(1, 3), rng.randint(1, 3)) for _ in range(n)]
        if rng.random() < 0.35:
            shape = [(o, 2) for o, _ in shape]
        tot = sum(o * s for o, s in shape)
        if 2 <= tot <= max_modes:
            break
    labels = rng.sample(PHYS_LABELS, n)
    sites = [(l, o, s) for l, (o, s) in zip(labels, shape)]
    modes = [(l, o, s) for l, orb, sp in sites for o in range(orb) for s in range(sp)]
    terms = []      # each: (value, [(dag, mode)...])  -- hermitian partners are listed explicitly
    dy = lambda den, lo, hi: rng.choice([k for k in range(lo, hi + 1) if k != 0]) / den
    for m in modes:
        terms.append((dy(8, -12, 12), [(1, m), (0, m)]))
    for a, b in itertools.combinations(modes, 2):
        if rng.random() < 0.6:
            t = dy(8, -8, 8)
            terms.append((t, [(1, a), (0, b)]))
            terms.append((t, [(1, b), (0, a)]))
        if rng.random() < 0.45:
            terms.append((dy(4, -6, 10), [(1, a), (1, b), (0, b), (0, a)]))
    if len(modes) >= 3 and rng.random() < 0.4:
        a, b = rng.sample(modes, 2)
        c, d = rng.sample(modes, 2)
        if set((a, b)) != set((c, d)):
            v = dy(8, -6, 6)
            terms.append((v, [(1, a), (1, b), (0, c), (0, d)]))
            terms.append((v, [(1, d), (1, c), (0, b), (0, a)]))
    if rng.random() < 0.15:
        a, b = rng.sample(modes, 2)
        v = dy(8, -4, 4)
        terms.append((v, [(1, a), (1, b)]))
        terms.append((v, [(0, b), (0, a)]))
    beta = rng.choice([1, 2, 4, 8])
    symm = "ignore" if rng.random() < 0.2 else "default"
    spins = [s for _, _, s in sites]
    if max(spins) <= 2 and min(spins) < 2:
        # Symmetrizer::compute() builds S_z from the spin-1 indices and throws when they are not half of all indices
        # (spinless sites; a matter of C07, the same for every copy of the model): switch the symmetry search off here
        symm = "ignore"
    hops = gen_hops(rng, sites, rng.randint(1, 2), want_asym=False) if rng.random() < 0.3 else []
    return {"sites": sites, "terms": terms, "hops": hops, "beta": beta, "symm": symm, "family": "terms+presets" if hops else "terms"}


def hop_is_asym(h):
    """does the bond join different orbitals or different spins of two DIFFERENT sites?  (then the two ends are distinguishable and
    the bond has an orientation: which (orbital, spin) pair sits on which site)"""
    cmd, l1, l2, t, a = h
    if l1 == l2:
        return False
    if cmd == "addHopping8":
        return a[0] != a[1] or a[2] != a[3]
    if cmd in ("addHopping7", "addHopping6"):
        return a[0] != a[1]
    return False


def gen_hops(rng, sites, count, want_asym=True):
    """count calls of the LatticePresets::addHopping overloads (scenario commands addHopping8/7/6/4 of ed_common.h) on the given sites:
    (command, label1, label2, t, (orbital1, orbital2[, spin1, spin2 | spin])).  The two labels are passed in random orientation
    (label1 < label2 and label1 > label2 both occur); inter-orbital and spin-mixing bonds preferred; also bonds between two orbitals
    of one site.  With want_asym at least one bond joins different orbitals or different spins of two different sites."""
    shape = {l: (o, s) for l, o, s in sites}
    labels = [l for l, _, _ in sites]
    dy = lambda: rng.choice([k for k in range(-8, 9) if k != 0]) / 8
    hops = []
    for attempt in range(60):
        if len(hops) >= count and (not want_asym or any(hop_is_asym(h) for h in hops)):
            break
        if len(labels) >= 2 and rng.random() < 0.88:
            l1, l2 = rng.sample(labels, 2)            # random orientation
        else:
            l1 = l2 = rng.choice(labels)
        (o1n, s1n), (o2n, s2n) = shape[l1], shape[l2]
        o1, o2 = rng.randrange(o1n), rng.randrange(o2n)
        s1, s2 = rng.randrange(s1n), rng.randrange(s2n)
        if rng.random() < 0.7:
            # look for different orbitals / different spins at the two ends
            for _ in range(6):
                if o1 != o2 or s1 != s2:
                    break
                o1, o2, s1, s2 = rng.randrange(o1n), rng.randrange(o2n), rng.randrange(s1n), rng.randrange(s2n)
        r = rng.random()
        if r < 0.5:
            if l1 == l2 and o1 == o2 and s1 == s2:
                continue                               # a doubled level: not a bond
            h = ("addHopping8", l1, l2, dy(), (o1, o2, s1, s2))
        elif r < 0.75:
            sp = rng.randrange(min(s1n, s2n))
            if l1 == l2 and o1 == o2:
                continue
            h = ("addHopping7", l1, l2, dy(), (o1, o2, sp))
        elif r < 0.93:
            if s1n != s2n or (l1 == l2 and o1 == o2):
                continue
            h = ("addHopping6", l1, l2, dy(), (o1, o2))
        else:
            if (o1n, s1n) != (o2n, s2n) or l1 == l2:
                continue
            h = ("addHopping4", l1, l2, dy(), ())
        if len(hops) >= count and not hop_is_asym(h):
            continue
        hops.append(h)
    return hops


HOP_SHAPES = [[(2, 1), (2, 1)], [(1, 2), (1, 2)], [(2, 1), (1, 2)], [(2, 2), (1, 1)], [(2, 1), (3, 1)], [(1, 2), (1, 3)], [(2, 2), (1, 2)],
              [(2, 2), (2, 1)], [(3, 1), (3, 1)], [(1, 3), (1, 3)], [(2, 1), (1, 1), (2, 1)], [(1, 2), (1, 2), (1, 2)], [(2, 1), (2, 1), (1, 2)],
              [(3, 2), (1, 1)], [(1, 1), (2, 2)]]
HOP_SHAPE_BIG = [(2, 2), (2, 2)]           # 8 modes, 256 states: a few per run


def gen_hop_model(rng, big=False):
    """multi-orbital / multi-spin sites joined by LatticePresets::addHopping bonds between DIFFERENT orbitals and / or DIFFERENT spins
    (addHopping8 with Orbital1 != Orbital2 or Spin1 != Spin2, addHopping7 / addHopping6 with Orbital1 != Orbital2), the two labels passed
    in either alphabetical order; all levels different (so that the two ends of a bond are distinguishable: attaching (Orbital1, Spin1)
    to the other site changes the spectrum), some density-density interactions."""
    shape = list(HOP_SHAPE_BIG if big else rng.choice(HOP_SHAPES))
    rng.shuffle(shape)
    labels = rng.sample(PHYS_LABELS, len(shape))
    sites = [(l, o, s) for l, (o, s) in zip(labels, shape)]
    modes = [(l, o, s) for l, orb, sp in sites for o in range(orb) for s in range(sp)]
    levels = rng.sample([k for k in range(-14, 15) if k != 0], len(modes))        # pairwise different
    terms = [(lv / 8, [(1, m), (0, m)]) for lv, m in zip(levels, modes)]
    for a, b in itertools.combinations(modes, 2):
        if rng.random() < (0.15 if big else 0.3):
            terms.append((rng.choice([k for k in range(-6, 11) if k != 0]) / 4, [(1, a), (1, b), (0, b), (0, a)]))
    hops = gen_hops(rng, sites, rng.randint(1, 3), want_asym=True)
    spins = [s for _, _, s in sites]
    symm = "ignore" if rng.random() < 0.2 else "default"
    if max(spins) <= 2 and min(spins) < 2:
        symm = "ignore"                    # see gen_phys_model
    return {"sites": sites, "terms": terms, "hops": hops, "beta": rng.choice([1, 2, 4, 8]), "symm": symm,
            "family": "presets-asym" if any(hop_is_asym(h) for h in hops) else "presets"}


def hop_line(h, relabel):
    cmd, l1, l2, t, a = h
    return "%s %s %s %r%s" % (cmd, relabel[l1], relabel[l2], t, "".join(" %d" % x for x in a))


def scenario_text(sid, model, relabel, order, mode):
    """relabel: dict label -> label; order: permutation of site positions for the addSite calls."""
    L = ["scenario %s" % sid]
    for k in order:
        l, o, s = model["sites"][k]
        L.append("site %s %d %d" % (relabel[l], o, s))
    for v, ops in model["terms"]:
        L.append("term %d %r %s" % (len(ops), v, " ".join("%d %s %d %d" % (dag, relabel[m[0]], m[1], m[2]) for dag, m in ops)))
    for h in model.get("hops", []):
        L.append(hop_line(h, relabel))
    L += ["order_spins %d" % mode, "symm %s" % model["symm"], "beta %r" % float(model["beta"]), "end"]
    return "\n".join(L) + "\n"


def parse_phys(out):
    res = {}
    for l in out.split("\n"):
        t = l.split()
        if len(t) < 2 or t[0] not in ("M", "I", "E", "O", "D", "A", "G", "g", "K", "B", "Z"):
            continue
        r = res.setdefault(t[1], {"I": {}, "O": {}, "D": {}, "A": {}, "G": {}, "g": {}, "K": {}, "done": False})
        if t[0] == "M":
            r["status"] = t[2]
            r["msg"] = " ".join(t[3:])
        elif t[0] == "I":
            r["I"][int(t[2])] = (t[3], int(t[4]), int(t[5]))
        elif t[0] == "E":
            r["ground"] = pv.hexf(t[2])
            r["eig"] = [pv.hexf(x) for x in t[4:]]
        elif t[0] == "O":
            r["O"][int(t[2])] = pv.hexf(t[3])
        elif t[0] == "D":
            r["D"][(int(t[2]), int(t[3]))] = pv.hexf(t[4])
        elif t[0] == "A":
            r["A"][(int(t[2]), int(t[3]))] = complex(pv.hexf(t[4]), pv.hexf(t[5]))
        elif t[0] in "Gg":
            r[t[0]][(int(t[2]), int(t[3]), int(t[4]))] = complex(pv.hexf(t[5]), pv.hexf(t[6]))
        elif t[0] == "K":
            r["K"][(int(t[2]), int(t[3]))] = int(t[4])
        elif t[0] == "B":
            r["beta"] = pv.hexf(t[2])
        elif t[0] == "Z":
            r["done"] = True
    return res


def close(a, b):
    return abs(a - b) <= TOL + TOL * max(abs(a), abs(b))


def compare_phys(base, var, relabel):
    """first difference between two results after applying pi, or None."""
    if base.get("status") != "ok" or var.get("status") != "ok":
        if base.get("status") == var.get("status") and base.get("msg") == var.get("msg"):
            return None
        return "one copy fails: base=%s %s | variant=%s %s" % (base.get("status"), base.get("msg"), var.get("status"), var.get("msg"))
    inv = {x: i for i, x in var["I"].items()}
    pi = {}
    for i, (l, o, s) in base["I"].items():
        j = inv.get((relabel[l], o, s))
        if j is None:
            return "index %d = (%s,%d,%d) has no counterpart in the variant's index table" % (i, l, o, s)
        pi[i] = j
    if sorted(pi.values()) != list(range(len(pi))) or len(var["I"]) != len(base["I"]):
        return "induced index map is not a permutation: %r" % (pi,)
    if len(base["eig"]) != len(var["eig"]):
        return "number of eigenvalues differs"
    for k, (a, b) in enumerate(zip(base["eig"], var["eig"])):
        if not close(a, b):
            return "eigenvalue %d: %r vs %r" % (k, a, b)
    if not close(base["ground"], var["ground"]):
        return "ground energy: %r vs %r" % (base["ground"], var["ground"])
    for i, v in base["O"].items():
        if not close(v, var["O"][pi[i]]):
            return "occupancy n_%d: %r vs n'_%d: %r" % (i, v, pi[i], var["O"][pi[i]])
    for (i, j), v in base["D"].items():
        a, b = sorted((pi[i], pi[j]))
        if not close(v, var["D"][(a, b)]):
            return "double occupancy (%d,%d): %r vs (%d,%d): %r" % (i, j, v, a, b, var["D"][(a, b)])
    for (i, j), v in base["A"].items():
        if not close(v, var["A"][(pi[i], pi[j])]):
            return "<c+_%d c_%d>: %r vs <c+_%d c_%d>': %r" % (i, j, v, pi[i], pi[j], var["A"][(pi[i], pi[j])])
    # G without dropped terms: must agree to rounding
    for (i, j, n), v in base["g"].items():
        w = var["g"][(pi[i], pi[j], n)]
        if not close(v, w):
            return "G_%d,%d(n=%d) [no Lehmann term dropped]: %r vs G'_%d,%d: %r" % (i, j, n, v, pi[i], pi[j], w)
    # G as the library computes it: each copy may have dropped up to K terms (and K merged sums) of magnitude <= 1e-8,
    # each at distance >= |w_n| from the frequency -- the documented truncation, which depends on the eigenbasis chosen
    # inside degenerate levels and therefore on the order of the basis states
    import math
    for (i, j, n), v in base["G"].items():
        w = var["G"][(pi[i], pi[j], n)]
        wn = math.pi * abs(2 * n + 1) / base["beta"]
        allow = 2e-8 * (base["K"][(i, j)] + var["K"][(pi[i], pi[j])]) / wn
        if abs(v - w) > TOL + TOL * max(abs(v), abs(w)) + allow:
            return "G_%d,%d(n=%d): %r vs G'_%d,%d: %r (allowance for dropped terms %.2g)" % (i, j, n, v, pi[i], pi[j], w, allow)
    return None


def phys_variants(rng, model):
    """(name, relabel, order, mode) copies of one model; the first is the base."""
    labels = [l for l, _, _ in model["sites"]]
    ident = {l: l for l in labels}
    n = len(labels)
    base = ("base", ident, list(range(n)), 0)
    vs = [base, ("mode", ident, list(range(n)), 1)]
    fresh = [l for l in PHYS_LABELS if l not in labels]
    new = rng.sample(fresh, n)
    # make sure the relabelling reverses the order of at least two sites when there are two
    if n >= 2:
        srt = sorted(labels)
        tgt = sorted(new, reverse=True)
        ren = {l: t for l, t in zip(srt, tgt)}
    else:
        ren = {labels[0]: new[0]}
    order = list(range(n))
    rng.shuffle(order)
    vs.append(("relabel", ren, list(range(n)), 0))
    vs.append(("relabel+reorder+mode", ren, order, 1))
    if n >= 2:
        vs.append(("reorder", ident, order[::-1] if order == list(range(n)) else order, 0))
    return vs


def model_is_safe(unsafe, model, relabel, mode):
    sm = tuple(site_map([(relabel[l].encode(), o, s) for l, o, s in model["sites"]]))
    return (int(mode), sm) not in unsafe


PHYS_BATCH_TIMEOUT = 150


def run_phys(hphys, jobs, timeout=PHYS_BATCH_TIMEOUT):
    """jobs: [(sid, text)] -> parsed results"""
    rc, out, err = pv.run_harness(hphys, "".join(t for _, t in jobs), timeout=timeout)
    res = parse_phys(out)
    return rc, res, err


def shrink_phys(hphys, model, var, budget=60):
    """drop terms (hermitian pairs together) while the two copies still disagree."""
    name, relabel, order, mode = var
    ident = {l: l for l, _, _ in model["sites"]}
    cur = dict(model)
    terms = list(model["terms"])
    i = 0
    while i < len(terms) and budget > 0:
        v, ops = terms[i]
        partner = [(1 - d, m) for d, m in reversed(ops)]
        drop = [i] + [j for j in range(len(terms)) if j != i and terms[j][1] == partner and terms[j][0] == v][:1]
        trial = [t for j, t in enumerate(terms) if j not in drop]
        m2 = dict(cur, terms=trial)
        rc, res, _ = run_phys(hphys, [("a", scenario_text("a", m2, ident, list(range(len(model["sites"]))), 0)),
                                      ("b", scenario_text("b", m2, relabel, order, mode))], timeout=20)
        budget -= 1
        if rc == 0 and "a" in res and "b" in res and compare_phys(res["a"], res["b"], relabel) is not None:
            terms = trial
        else:
            i += 1
    cur = dict(cur, terms=terms)
    # then the addHopping calls, one at a time
    hops = list(model.get("hops", []))
    i = 0
    while i < len(hops) and budget > 0:
        trial = hops[:i] + hops[i + 1:]
        m2 = dict(cur, hops=trial)
        rc, res, _ = run_phys(hphys, [("a", scenario_text("a", m2, ident, list(range(len(model["sites"]))), 0)),
                                      ("b", scenario_text("b", m2, relabel, order, mode))], timeout=20)
        budget -= 1
        if rc == 0 and "a" in res and "b" in res and compare_phys(res["a"], res["b"], relabel) is not None:
            hops = trial
        else:
            i += 1
    return dict(cur, hops=hops)


def phys_plans(chk, n_models, max_modes, n_hop=0, n_hop_big=0):
    rng = chk.rng
    models = [gen_phys_model(rng, max_modes) for _ in range(n_models)]
    models += [gen_hop_model(rng) for _ in range(n_hop)] + [gen_hop_model(rng, big=True) for _ in range(n_hop_big)]
    return [(m, phys_variants(rng, m)) for m in models]


def phys_index_cases(plans):
    """the lattices of the physics copies as ordinary index cases (they also tell which copies are safe to run)"""
    icases = []
    for m, vs in plans:
        for name, rel, order, mode in vs:
            calls = [(rel[m["sites"][k][0]].encode(), m["sites"][k][1], m["sites"][k][2]) for k in order]
            icases.append((mode, calls, std_queries(calls)))
    return icases


def phys_part(chk, plans, unsafe):
    hphys = pv.build_harness("h_c18_phys")
    n_models = len(plans)
    jobs, meta = [], []
    skipped = 0
    for mi, (m, vs) in enumerate(plans):
        if not model_is_safe(unsafe, m, vs[0][1], vs[0][3]):
            skipped += len(vs)
            continue
        for vi, (name, rel, order, mode) in enumerate(vs):
            if not model_is_safe(unsafe, m, rel, mode):
                skipped += 1
                chk.case("P skipped %d %s" % (mi, name), "phys skipped: index table of this copy already fails the property", nontrivial=False)
                continue
            sid = "m%dv%d" % (mi, vi)
            jobs.append((sid, scenario_text(sid, m, rel, order, mode)))
            meta.append((sid, mi, vi))
    texts = dict(jobs)
    res = {}
    BATCH = 120
    for b0 in range(0, len(jobs), BATCH):
        batch = jobs[b0:b0 + BATCH]
        rc, r1, err = run_phys(hphys, batch, timeout=PHYS_BATCH_TIMEOUT)
        res.update(r1)
        if rc != 0:
            undone = [sid for sid, _ in batch if not (sid in r1 and r1[sid]["done"])]
            what = ("did not finish within %d s (stopped)" % PHYS_BATCH_TIMEOUT) if rc == 124 else ("exited with %d" % rc)
            first = undone[0] if undone else None
            m = plans[[x for x in meta if x[0] == first][0][1]][0] if first else None
            chk.violation("ED chain %s sites=%s" % ("hangs" if rc == 124 else "crashes",
                                                    ",".join("%s(%d,%d)" % s for s in m["sites"]) if m else "?"),
                          "ED chain harness %s on scenario %s (%d of %d scenarios of the run done): %s" % (
                              what, first, len([1 for x in res.values() if x["done"]]), len(jobs), err[-300:]),
                          {"kind": "phys-crash", "scenario": texts.get(first), "stderr": err[-1500:]})
            break      # one runaway scenario is enough; do not spend the time budget on more
    compared = 0
    nviol = 0
    counts = {}
    for sid, mi, vi in meta:
        if vi == 0:
            continue
        m, vs = plans[mi]
        name, rel, order, mode = vs[vi]
        b, v = res.get("m%dv0" % mi), res.get(sid)
        if not b or not v or not b["done"] or not v["done"]:
            continue
        diff = compare_phys(b, v, rel)
        N = len(b["I"])
        both_err = b.get("status") != "ok"
        hops = m.get("hops", [])
        # bonds with distinguishable ends whose two labels swap their alphabetical order under this copy's renaming
        flipped = sum(1 for h in hops if hop_is_asym(h) and (h[1] < h[2]) != (rel[h[1]] < rel[h[2]]))
        fam = m.get("family", "terms")
        chk.case("P " + texts["m%dv0" % mi] + texts[sid],
                 "phys %s %s%s modes=%d symm=%s%s" % (name, fam, " bond-order-reversed" if flipped else "", N if not both_err else 0, m["symm"],
                                                    " both-error" if both_err else ""),
                 nontrivial=not both_err,
                 sample={"variant": name, "sites": m["sites"], "relabel": rel, "order": order, "mode": mode, "family": fam,
                         "n_terms": len(m["terms"]), "hops": [hop_line(h, {l: l for l, _, _ in m["sites"]}) for h in hops],
                         "hops_in_copy": [hop_line(h, rel) for h in hops],
                         "G00_base": str(b["G"].get((0, 0, 0)))} if (compared % 37 == 5 or (flipped and counts.get("flipped_samples", 0) < 2)) else None)
        if flipped:
            counts["flipped_samples"] = counts.get("flipped_samples", 0) + 1
            counts["asym_bond_reversed"] = counts.get("asym_bond_reversed", 0) + 1
        if hops:
            counts["with_preset_hops"] = counts.get("with_preset_hops", 0) + 1
        compared += 1
        if diff is not None:
            nviol += 1
            # two classes of mismatch (one copy is rejected while the other is built / both are built and the numbers differ):
            # three replays each, the first two shrunk; the counts go into the evidence
            cls = "rejected" if diff.startswith("one copy fails") else "values"
            counts["viol_" + cls] = counts.get("viol_" + cls, 0) + 1
            if counts["viol_" + cls] > 3:
                continue
            small = shrink_phys(hphys, m, vs[vi]) if counts["viol_" + cls] <= 2 else m
            ident = {l: l for l, _, _ in m["sites"]}
            ta = scenario_text("a", small, ident, list(range(len(m["sites"]))), 0)
            tb = scenario_text("b", small, rel, order, mode)
            rc2, r2, _ = run_phys(hphys, [("a", ta), ("b", tb)], timeout=20)
            d2 = compare_phys(r2.get("a", {}), r2.get("b", {}), rel) if rc2 == 0 else diff
            hl = [hop_line(h, ident) for h in small.get("hops", [])]
            key = "phys %s sites=%s terms=%d%s" % (name, ",".join("%s(%d,%d)" % s for s in m["sites"]), len(small["terms"]),
                                                   (" hops=" + ";".join(hl)) if hl else "")
            chk.violation(key, "results are not related by the induced index permutation (%s%s): %s" % (
                              name, ("; renaming " + ", ".join("%s->%s" % (l, rel[l]) for l, _, _ in m["sites"]) + "; " + "; ".join(hl)) if hl else "", d2 or diff),
                          {"kind": "phys", "base": ta, "variant": tb, "relabel": rel, "difference": d2 or diff})
    chk.extra["phys_models"] = n_models
    chk.extra["phys_comparisons"] = compared
    chk.extra["phys_skipped_unsafe_copies"] = skipped
    chk.extra["phys_mismatching_comparisons"] = nviol
    chk.extra["phys_mismatches_one_copy_rejected"] = counts.get("viol_rejected", 0)
    chk.extra["phys_mismatches_values_differ"] = counts.get("viol_values", 0)
    chk.extra["phys_comparisons_with_addHopping_calls"] = counts.get("with_preset_hops", 0)
    chk.extra["phys_comparisons_inter_orbital_or_spin_mixing_bond_with_label_order_reversed"] = counts.get("asym_bond_reversed", 0)


# --------------------------------------------------------------------------------------------

def gen_index_cases(chk, quick):
    rng = chk.rng
    cases = []
    # (1) exhaustive sweep of small shapes, canonical labels, both modes
    for calls in (sweep(3, 2, 3) if quick else sweep(4, 3, 3)):
        for mode in (0, 1):
            cases.append((mode, calls, []))
    # the same small shapes with labels whose byte order is not the call order
    for calls in sweep(3, 1, 3):
        n = len(calls)
        labs = [b"b", b"ab", b"a"][:n]
        for mode in (0, 1):
            c2 = [(l, o, s) for l, (_, o, s) in zip(labs, calls)]
            cases.append((mode, c2, std_queries(c2)))
    # (2) random lattices
    for _ in range(1500 if quick else 12000):
        calls = rand_lattice(rng)
        extra = [rand_label(rng) for _ in range(2)]
        extra = [l for l in extra if l not in [c[0] for c in calls]]
        for mode in (0, 1):
            cases.append((mode, calls, std_queries(calls, extra)))
    # (3) a few larger ones
    for _ in range(10 if quick else 100):
        n = rng.randint(5, 9)
        labels = []
        while len(labels) < n:
            l = rand_label(rng)
            if l not in labels:
                labels.append(l)
        calls = [(l, rng.randint(1, 4), rng.randint(1, 4)) for l in labels]
        for mode in (0, 1):
            cases.append((mode, calls, std_queries(calls)))
    return cases


def common(chk):
    chk.trusted += ["extraction: ExtrOcamlBasic, ExtrOcamlNatInt (nat -> OCaml int for small indices); ascii/string stay the extracted inductive types",
                    "ocaml/driver_c18.ml (parsing/printing), harness/h_c18.cpp (reads IndexSize / IndicesToInfo directly, compiled with -fno-access-control; "
                    "catches SIGSEGV raised inside prepare() in a forked child), harness/h_c18_phys.cpp + harness/ed_common.h",
                    "checks/C18.py: independent evaluation of the property on the implementation's output, computation of pi from the two index tables",
                    "translator/gen_index.py + translator/cstmt.py (statement splitter, expression parser with shifts / bit operations, shape recognition of "
                    "IndexClassification::prepare, IndexInfo::IndexInfo / operator<, getIndex, getInfo, checkIndex): the tie between coq/gen/Gen_Index*.v and "
                    "src/pomerol/IndexClassification.cpp (Properties_C18_source.v); a function it does not recognise falls back to its snapshot and is "
                    "then tied by the correspondence runs alone"]
    chk.assume += ["boost::hash<std::string> is injective on the labels that occur (checked for every case by the harness' hash dump)",
                   "std::map<std::string,...> iterates in byte-lexicographic key order (checked: the sites= field of every case)",
                   "orbital and spin counts < 65536 (unsigned short narrowing is outside the model)",
                   "a repeated prepare() on one object is specified as `starts from scratch' (repository commit 1fd1f00, comment at the top of prepare): "
                   "the re-prepare histories require the object after every call to equal a fresh object after prepare(m_last); "
                   "histories of up to three calls, no addSite between the calls",
                   "operator level: proved for every permutation (sem_permute_poly, hamiltonian_matrix_relabel) and the observables of the transported eigen-system (observables_relabel_partial); "
                   "independence of the observables from the choice of eigen-decomposition is not formalised: covered by the differential ED runs",
                   "differential runs: real-valued build, models with <= 5 modes, dyadic couplings, tolerance 1e-9 absolute + relative; "
                   "G as computed by the library is additionally allowed the documented truncation (terms with |residue| <= 1e-8 dropped: "
                   "2e-8 * (number of non-zero matrix elements of c_i in the parts) / |w_n| per copy); G with the drop thresholds set to 0 is compared strictly"]


def run(chk):
    quick = chk.tier == "quick"
    ok, log = chk.prove(["extract/Extract_C18.vo"], extra_props=["Properties_C18_source.v"])
    common(chk)
    runner = IndexRunner(chk)
    plans = phys_plans(chk, 150 if quick else 1200, 5, n_hop=60 if quick else 500, n_hop_big=6 if quick else 30)
    cases = gen_index_cases(chk, quick) + phys_index_cases(plans)
    unsafe = index_part(chk, runner, cases)      # (mode, site map) pairs whose index table has null entries
    lattices, seen = [], set()
    for mode, calls, queries in cases:
        k = (tuple(calls), tuple(queries))
        if k not in seen and all((m,) + k in runner.cache for m in (0, 1)):
            seen.add(k)
            lattices.append((calls, queries))
    reprepare_part(chk, runner, lattices, unsafe, HISTS_QUICK if quick else HISTS_ALL)
    phys_part(chk, plans, unsafe)
    chk.rule = ("index: exhaustive sweep of 1..3 sites x (1..2 orbitals, 1..3 spins) [thorough: 1..4 sites x 1..3 x 1..3] with canonical labels, "
                "the spin shapes again with labels whose byte order differs from the call order, random lattices (1..4 sites, 1..3 orbitals, "
                "1..3 spins, labels from a pool of prefixes / different lengths / bytes >= 0x80 / empty label, 3% repeated labels), a few with "
                "5..9 sites; both modes each; every case is compared byte for byte with both variants of the extracted model and evaluated "
                "against the property text; distinct = distinct (mode, call sequence); non-trivial = more than one mode. "
                "re-prepare: every lattice of the index part (both modes present) x histories of three prepare() calls on one object "
                "(quick: 001, 011, 100, 110; thorough: all 8), the object dumped after every call and compared with the property text, a fresh "
                "object's dump and the model's table for the last mode; distinct = (history, call sequence); non-trivial = the two "
                "orders differ on the lattice and the history switches mode. "
                "physics: random hermitian models (levels, hoppings, density-density, pair-hopping, occasionally pairing terms; 30% with one or two "
                "LatticePresets::addHopping calls) on <= 5 modes, and models on multi-orbital / multi-spin sites (4..6 modes, a few with 8) with "
                "pairwise different levels joined by addHopping8/7/6/4 bonds between different orbitals and / or different spins, labels passed "
                "in either alphabetical order; each built 4-5 times (mode switch, relabelling that reverses the label order, permuted addSite calls, "
                "all combined) and compared with the base copy through pi; copies whose index table has null entries are not run "
                "(reported by the index part); compared: sorted eigenvalues, ground energy, n_i, n_i n_j, <c+_i c_j>, G_ij at n = 0, 1, -1, 2, 7, -12 "
                "(with and without the documented dropping of small Lehmann terms)")


def setup():
    pv.build_driver("driver_c18", ["C18_model"])
    pv.build_harness("h_c18")
    pv.build_harness("h_c18_phys")


def replay(chk, path):
    r = json.load(open(path))
    rp = r.get("replay", {})
    print("replaying %s: %s" % (r.get("key"), r.get("what")))
    chk.prove(["extract/Extract_C18.vo"], extra_props=["Properties_C18_source.v"])
    common(chk)
    if isinstance(rp, dict) and rp.get("kind") == "index":
        runner = IndexRunner(chk)
        t = rp["case"].split()
        mode, ns = int(t[2]), int(t[3])
        calls = [(dec(t[4 + 3 * k]), int(t[5 + 3 * k]), int(t[6 + 3 * k])) for k in range(ns)]
        res = runner.run([(mode, calls, std_queries(calls))])[0]
        for tag in ("R", "M0", "M1"):
            print("%-2s %s" % (tag, res.get(tag, {}).get("body")))
        fs = spec_failures(mode, calls, res["R"])
        print("property on the implementation's output:", "; ".join(fs) if fs else "holds")
        if fs:
            chk.violation(r.get("key"), "; ".join(fs), rp)
    elif isinstance(rp, dict) and rp.get("kind") == "reprepare":
        runner = IndexRunner(chk)
        t = rp["hist"].split()
        h, ns = t[2], int(t[3])
        calls = [(dec(t[4 + 3 * k]), int(t[5 + 3 * k]), int(t[6 + 3 * k])) for k in range(ns)]
        q = std_queries(calls)
        single = runner.run([(m, calls, q) for m in (0, 1)])
        for m, rr in zip((0, 1), single):
            runner.cache[(m, tuple(calls), tuple(q))] = rr
        runner.variant_tags = [tag for tag in ("M0", "M1") if all(tag in rr and norm_body(rr[tag]) == norm_body(rr["R"]) for rr in single)]
        res = runner.run_hist([([h], calls, q)])[0]
        for k in range(len(h)):
            print("after call %d prepare(%s): %s" % (k + 1, h[k], res.get((h, k), {}).get("body")))
        for m in (0, 1):
            print("fresh object prepare(%d):   %s" % (m, single[m].get("R", {}).get("body")))
        fl = hist_failures(runner, [h], calls, q, res, set())
        print("failing steps:", [(hh, k + 1, p, c) for hh, k, p, c in fl] if fl else "none")
        for hh, k, p, c in fl:
            if p:
                chk.violation(r.get("key"), "; ".join(p + c), rp)
            else:
                chk.tie_broken("IndexReprepare.v vs IndexClassification::prepare called again", "; ".join(c))
    elif isinstance(rp, dict) and rp.get("kind") == "phys":
        hphys = pv.build_harness("h_c18_phys")
        rc, res, err = run_phys(hphys, [("a", rp["base"]), ("b", rp["variant"])])
        d = compare_phys(res.get("a", {}), res.get("b", {}), rp["relabel"]) if rc == 0 else "harness exit %d" % rc
        print("difference:", d)
        if d:
            chk.violation(r.get("key"), d, rp)
    else:
        print(json.dumps(rp, indent=1)[:3000])
        run(chk)
    return chk.finish()
