"""C13 -- 2PGF container honours the exchange symmetries regardless of request history.

Proof: props/Properties_C13.v (perm_table_correct, alias_denotes about tables the translator regenerates from
src/pomerol/Misc.cpp and include/pomerol/IndexContainer4.h on every run; eval_sound, container_refines_spec,
listed_elements_evaluable, bulk_compute_succeeds*, ready_* for every history of container calls, by induction over the
history; *_refuted for the container whose fill clears only ElementsMap).
Tie: (a) translator (translator/gen_c13.py); (b) correspondence: histories of container calls run through
harness/h_c13.cpp (real TwoParticleGFContainer) and through the extracted model in both variants (fill repaired / not);
maps, aliases, permutations, statuses and outcomes are diffed exactly after every call, values against freshly
constructed TwoParticleGF objects.  Which variant the library is, is decided here by that comparison.
Property oracle, independent of the model: the caller's view (extracted gstep, fed with the *implementation's* observable
trace) says which quadruples have been prepared and computed; every such evaluation must return the value of a fresh
TwoParticleGF for the requested quadruple at the requested triple, and a bulk computation must not throw when everything
listed has been prepared.  The two exchange symmetries are also checked on directly constructed objects.
"""
import itertools
import json

import pv

MODELS = [
    # name, scenario, IndexSize, index subset used for quadruples
    ("hubbard-atom", "site A 1 2\naddCoulombS A 1 -0.5\nbeta 10\n", 2, [0, 1]),
    ("two-site", "site A 1 2\nsite B 1 2\naddCoulombS A 2 -0.75\naddLevel B 0.25\naddHopping4 A B 0.5\nbeta 4\n", 4, [0, 1, 2]),
]

CANON_MODEL = "hubbard-atom"
CANON_HISTORY = [("prep", [(0, 1, 0, 1)]), ("prep", [(0, 1, 0, 1)]), ("compall", 1), ("eval", (0, 1, 0, 1), (0, 0, 0))]
CANON_KEY = "prepareAll{0101}; prepareAll{0101}; computeAll(split); eval 0101 (0,0,0)"
CANON_WHAT = ("TwoParticleGFContainer: after prepareAll(S); prepareAll(S); computeAll(split) evaluating a listed element throws "
              "'2PGFPart : Calling operator() on uncomputed container' -- IndexContainer4::fill clears ElementsMap but not "
              "NonTrivialElements, so computeAll_split computes the stale elements of the earlier fill and the listed ones stay "
              "uncomputed (same root cause: fill(S); prepareAll(S); computeAll(split) throws 'Object status mismatch')")

# two-site model: a key that is absent, not an alias of anything stored and not vanishing is requested on demand after a bulk
# computation, prepared and computed through the container and evaluated -- with the stored key above and below it in map order
ONDEMAND_CORPUS = [
    [("prep", [a]), ("compall", sp), ("lookup", b), ("prepelem", b), ("compelem", b), ("eval", b, (0, 1, 2)), ("eval", a, (0, 1, 2)), ("eval", b, (1, 0, -1))]
    for sp, (a, b) in enumerate([((0, 2, 0, 2), (0, 1, 0, 1)), ((0, 1, 0, 1), (0, 2, 0, 2)), ((1, 2, 1, 2), (0, 2, 0, 2)), ((0, 1, 0, 1), (1, 2, 1, 2))])
    ] + [[("prep", [(0, 1, 0, 1), (1, 2, 1, 2)]), ("compall", 1), ("compelem", (0, 2, 0, 2)), ("eval", (0, 2, 0, 2), (0, 1, 2)), ("eval", (2, 0, 0, 2), (0, 1, 2))]]
ONDEMAND_CORPUS = [[(o[0], o[1] % 2) if o[0] == "compall" else o for o in h] for h in ONDEMAND_CORPUS]

# histories always run first (regression seeds; the first one is the canonical witness of the *_refuted theorems)
CORPUS = [
    CANON_HISTORY,
    [("fill", [(0, 1, 0, 1)]), ("prep", [(0, 1, 0, 1)]), ("compall", 1), ("eval", (0, 1, 0, 1), (0, 0, 0))],
    [("lookup", (0, 1, 0, 1)), ("prep", [(0, 1, 0, 1)]), ("compall", 1), ("eval", (1, 0, 0, 1), (0, 1, 2))],
    [("prep", [(0, 1, 0, 1)]), ("prep", [(0, 1, 0, 1)]), ("compall", 0), ("eval", (0, 1, 1, 0), (0, 1, 2))],
    [("prep", [(0, 1, 0, 1)]), ("compall", 1), ("eval", (1, 0, 0, 1), (0, 1, 2)), ("eval", (1, 0, 1, 0), (1, -1, 2)),
     ("eval", (0, 0, 0, 0), (0, 0, 0)), ("prepelem", (0, 0, 0, 0)), ("eval", (0, 0, 0, 0), (0, 0, 0)),
     ("compelem", (0, 0, 0, 0)), ("eval", (0, 0, 0, 0), (0, 1, 1)), ("lookup", (1, 1, 0, 0)), ("compall", 0)],
    [("prep", []), ("compall", 1), ("eval", (1, 0, 1, 0), (0, -1, 0)), ("eval", (1, 1, 1, 1), (0, 0, 0)), ("eval", (0, 0, 1, 0), (1, 0, 0))],
    [("prep", []), ("compall", 0), ("eval", (1, 0, 0, 1), (-1, 0, 1)), ("prep", [(1, 0, 1, 0)]), ("compall", 1), ("eval", (0, 1, 0, 1), (0, 1, 0))],
    [("prep", [(0, 1, 0, 1), (0, 0, 0, 1)]), ("prep", [(1, 0, 1, 0), (0, 0, 1, 0)]), ("compall", 1), ("eval", (0, 1, 0, 1), (0, 0, 1)),
     ("eval", (0, 0, 0, 1), (0, 0, 1))],
    [("compelem", (0, 1, 0, 1)), ("eval", (0, 1, 0, 1), (0, 0, 0))],
]


# ----------------------------------------------------------------------------------------------------
# text forms

def qtxt(q):
    return "%d %d %d %d" % tuple(q)


def op_line(op):
    k = op[0]
    if k in ("fill", "prep"):
        return "%s %d %s" % (k, len(op[1]), " ".join(qtxt(q) for q in op[1]))
    if k == "compall":
        return "compall %d" % op[1]
    if k == "eval":
        return "eval %s %d %d %d" % ((qtxt(op[1]),) + tuple(op[2]))
    return "%s %s" % (k, qtxt(op[1]))


def hist_txt(hist):
    return "; ".join(op_line(o) for o in hist)


def op_from_json(o):
    if o[0] in ("fill", "prep"):
        return (o[0], [tuple(q) for q in o[1]])
    if o[0] == "compall":
        return ("compall", int(o[1]))
    if o[0] == "eval":
        return ("eval", tuple(o[1]), tuple(o[2]))
    return (o[0], tuple(o[1]))


def close(a, b):
    return abs(a - b) <= 1e-10 * max(abs(a), abs(b)) + 1e-12


# ----------------------------------------------------------------------------------------------------
# running the two sides

class Env:
    def __init__(self, drv, h):
        self.drv, self.h = drv, h
        self.van = {}          # model name -> list of vanishing quads

    def vanishing(self, model):
        name, scen, nidx, sub = model
        if name not in self.van:
            rc, out, err = pv.run_harness(self.h, "model\n%send\nvan %d %s\n" % (scen, len(sub), " ".join(map(str, sub))), timeout=300)
            if rc != 0 or "M ok" not in out:
                raise pv.BuildError("h_c13 failed on model " + name, out[-500:] + err[-1500:])
            self.van[name] = [tuple(int(x) for x in l.split()[1:5]) for l in out.split("\n") if l.startswith("VAN ") and l.split()[5] == "1"]
        return self.van[name]

    def run_model(self, model, hists, variant):
        """-> per history: list of dicts {G, R, D} per operation (or None if the driver failed)."""
        name, scen, nidx, sub = model
        inp = ["cfg %s %d" % (variant, nidx)] + ["van " + qtxt(q) for q in self.vanishing(model)]
        for hs in hists:
            inp.append("hist")
            inp += [op_line(o) for o in hs]
        rc, out, err = pv.sh([self.drv], input="\n".join(inp) + "\n", timeout=300)
        if rc != 0 or "PARSE-ERROR" in out:
            return None
        return split_trace(out, hists, "H")

    def run_impl(self, model, hists, oracle_reqs):
        """-> (per history list of dicts {R, D} per operation, oracle dict) or (None, stderr) on a crash."""
        name, scen, nidx, sub = model
        inp = ["model", scen + "end"]
        for hs in hists:
            inp.append("hist")
            inp += [op_line(o) for o in hs]
        for (q, n) in sorted(set(oracle_reqs)):
            inp.append("oracle %s %d %d %d" % ((qtxt(q),) + tuple(n)))
        rc, out, err = pv.run_harness(self.h, "\n".join(inp) + "\n", timeout=600)
        if rc != 0:
            return None, "exit %d: %s" % (rc, (out[-300:] + err[-700:]))
        oracle = {}
        for l in out.split("\n"):
            if l.startswith("O "):
                t = l.split()
                key = (tuple(int(x) for x in t[1:5]), tuple(int(x) for x in t[5:8]))
                oracle[key] = None if t[8] == "THROWS" else complex(pv.hexf(t[8]), pv.hexf(t[9]))
        return split_trace(out, hists, "H"), oracle

    def run_ghost(self, hists, impl):
        """caller's view from the implementation's observable trace (extracted gstep). -> per history list of G strings."""
        inp = []
        for hs, tr in zip(hists, impl):
            inp.append("ghist")
            for op, rec in zip(hs, tr):
                keys = dump_keys(rec.get("D", ""))
                inp.append("gop %s %d %s %s" % (rec["R"].split()[0], len(keys), " ".join(k.replace(",", " ") for k in keys), op_line(op)))
        rc, out, err = pv.sh([self.drv], input="\n".join(inp) + "\n", timeout=300)
        if rc != 0 or "PARSE-ERROR" in out:
            return None
        res, cur = [], None
        for l in out.split("\n"):
            if l == "GH":
                cur = []
                res.append(cur)
            elif l.startswith("G "):
                cur.append(l.split()[2])
        return res


def split_trace(out, hists, start):
    res, cur, rec = [], None, None
    for l in out.split("\n"):
        if l == start:
            cur = []
            res.append(cur)
            continue
        if cur is None or len(l) < 2 or l[1] != " " or l[0] not in "GRDT":
            continue
        t = l.split(" ", 2)
        k = int(t[1])
        while len(cur) < k:
            cur.append({})
        cur[k - 1][l[0]] = t[2] if len(t) > 2 else ""
    if len(res) != len(hists) or any(len(tr) != len(hs) or any("R" not in r for r in tr) for tr, hs in zip(res, hists)):
        return None
    return res


def dump_keys(d):
    e = d.split("|")[0].split()
    return [x.split(">")[0] for x in e[1:]] if e and e[0] == "E" else []


def oracle_requests(hists, mtraces):
    reqs = []
    for hs, tr in zip(hists, mtraces):
        for op, rec in zip(hs, tr):
            if op[0] == "eval":
                reqs.append((op[1], op[2]))
                t = rec["R"].split()
                if t[0] == "SYM":
                    reqs.append((tuple(int(x) for x in t[2].split(",")), tuple(int(x) for x in t[3:6])))
    return reqs


def impl_value(r):
    t = r.split()
    return complex(pv.hexf(t[1]), pv.hexf(t[2]))


def agree(hs, impl, mod, oracle):
    """exact comparison of the implementation's trace with a model trace. -> None or a description of the first difference."""
    for k, (op, a, b) in enumerate(zip(hs, impl, mod), 1):
        ra, rb = a["R"], b["R"]
        ta, tb = ra.split()[0], rb.split()[0]
        if ta == "VAL" and tb in ("SYM", "ZERO"):
            v = impl_value(ra)
            if tb == "ZERO":
                if v != 0:
                    return "op %d (%s): implementation returns %s, model: 0.0 of an unprepared element" % (k, op_line(op), v)
            else:
                t = rb.split()
                sg, q0, tr = int(t[1]), tuple(int(x) for x in t[2].split(",")), tuple(int(x) for x in t[3:6])
                ref = oracle.get((q0, tr))
                if ref is None or not close(v, sg * ref):
                    return "op %d (%s): implementation returns %s, model: %d * chi_%s%s = %s" % (k, op_line(op), v, sg, q0, tr, None if ref is None else sg * ref)
        elif ra != rb:
            return "op %d (%s): implementation %s, model %s" % (k, op_line(op), ra[:60], rb[:60])
        if a.get("D") != b.get("D"):
            return "op %d (%s): state after the call differs: implementation [%s] model [%s]" % (k, op_line(op), a.get("D"), b.get("D"))
    return None


def property_violations(hs, impl, ghost, oracle):
    """the property text applied to the implementation's trace. -> list of (op number, description)."""
    bad = []
    # the caller's own record of what it did to elements obtained on demand since the last refill: "prepared and computed ... on
    # the element obtained on demand" does not depend on what the container lists (the extracted caller's view follows the listing,
    # so a container that hands out the element of ANOTHER key and never lists the requested one would otherwise escape)
    prepared, computed = set(), set()
    for k, (op, a, g) in enumerate(zip(hs, impl, ghost), 1):
        r = a["R"]
        if op[0] in ("fill", "prep"):
            prepared, computed = set(), set()
        elif op[0] == "prepelem" and r.startswith("UNIT"):
            prepared.add(op[1])
        elif op[0] == "compelem" and r.startswith("UNIT") and op[1] in prepared:
            computed.add(op[1])
        if op[0] == "eval" and g != "X" and op[1] in computed:
            ref = oracle.get((op[1], op[2]))
            if r.startswith("THROWS"):
                bad.append((k, "evaluation of %s at %s throws '%s' although the caller prepared and computed the element it obtained on demand for "
                               "that quadruple (fresh TwoParticleGF: %s)" % (op[1], op[2], r[7:60], ref)))
            elif r.startswith("VAL") and (ref is None or not close(impl_value(r), ref)):
                bad.append((k, "evaluation of %s at %s returns %s, a fresh TwoParticleGF for that quadruple gives %s (the caller prepared and computed "
                               "the element it obtained on demand for that quadruple; the container does not list the quadruple)"
                               % (op[1], op[2], impl_value(r), ref)))
        if op[0] == "eval" and g == "X":
            ref = oracle.get((op[1], op[2]))
            if r.startswith("THROWS"):
                bad.append((k, "evaluation of %s at %s throws '%s' although the quadruple was prepared and computed through the container "
                               "(fresh TwoParticleGF: %s)" % (op[1], op[2], r[7:60], ref)))
            elif r.startswith("VAL") and (ref is None or not close(impl_value(r), ref)):
                bad.append((k, "evaluation of %s at %s returns %s, a fresh TwoParticleGF for that quadruple gives %s" % (op[1], op[2], impl_value(r), ref)))
        if op[0] == "compall" and g == "1" and r.startswith("THROWS"):
            bad.append((k, "computeAll(%s) throws '%s' although every listed quadruple was prepared through the container" % ("split" if op[1] else "nosplit", r[7:60])))
    return bad


class Runner:
    """runs batches of histories on one model through both sides and caches nothing: every call re-runs the binaries."""
    def __init__(self, env, model):
        self.env, self.model = env, model

    def run(self, hists):
        """-> list of result dicts per history: impl, m0, m1, ghost, oracle, d0, d1 (first difference or None), viol; or raises Crash."""
        m0 = self.env.run_model(self.model, hists, "0")
        m1 = self.env.run_model(self.model, hists, "1")
        if m0 is None or m1 is None:
            raise ModelFailure("driver_c13 failed")
        impl, oracle = self.env.run_impl(self.model, hists, oracle_requests(hists, m0) + oracle_requests(hists, m1))
        if impl is None:
            raise Crash(oracle)
        ghost = self.env.run_ghost(hists, impl)
        if ghost is None:
            raise ModelFailure("driver_c13 (caller's view) failed")
        res = []
        for i, hs in enumerate(hists):
            res.append({"impl": impl[i], "m0": m0[i], "m1": m1[i], "ghost": ghost[i], "oracle": oracle,
                        "d0": agree(hs, impl[i], m0[i], oracle), "d1": agree(hs, impl[i], m1[i], oracle),
                        "viol": property_violations(hs, impl[i], ghost[i], oracle)})
        return res


class Crash(Exception):
    pass


class ModelFailure(Exception):
    pass


# ----------------------------------------------------------------------------------------------------
# generation, shrinking

def aliases(q):
    i, j, k, l = q
    return [(i, j, k, l), (j, i, k, l), (i, j, l, k), (j, i, l, k)]


def gen_history(rng, model, quick):
    name, scen, nidx, sub = model
    def rq():
        if rng.random() < 0.25:      # equal annihilation and/or creation indices
            a, c = rng.choice(sub), rng.choice(sub)
            return rng.choice([(a, a, c, rng.choice(sub)), (a, rng.choice(sub), c, c), (a, a, c, c)])
        return tuple(rng.choice(sub) for _ in range(4))
    def rset():
        if nidx == 2 and rng.random() < 0.12:
            return []                # all combinations (cheap on the atom only)
        return [rq() for _ in range(rng.choice([1, 1, 2, 3]))]
    def rtriple():
        return rng.choice([(0, 0, 0), (0, 1, 2), (1, 0, 1), (-1, 0, 2), (0, -1, 0), (1, -2, 0), (2, 1, -1), (0, 0, 1)]) if rng.random() < 0.7 \
            else tuple(rng.randint(-3, 3) for _ in range(3))
    hs, seen, sets = [], [], []

    def pick():
        if seen and rng.random() < 0.75:
            return rng.choice(aliases(rng.choice(seen)))
        return rq()

    def newset():
        s = list(rng.choice(sets)) if sets and rng.random() < 0.45 else rset()     # the same set again / another set
        sets.append(s)
        seen.extend(s if s else [rq()])
        return s

    if rng.random() < 0.55:
        # structured: rounds of bulk preparation and computation, evaluations of listed keys and their aliases, on-demand use afterwards
        for _ in range(rng.randint(1, 3)):
            if rng.random() < 0.15:
                hs.append(("fill", newset()))
            hs.append(("prep", newset()))
            if rng.random() < 0.3:
                hs.append(("prep", newset()))
            if rng.random() < 0.2:
                hs.append(rng.choice([("lookup", pick()), ("eval", pick(), rtriple()), ("prepelem", pick())]))
            hs.append(("compall", rng.choice([0, 1, 1])))
            for _ in range(rng.randint(1, 3)):
                hs.append(("eval", pick(), rtriple()))
            if rng.random() < 0.5:
                q = rq()
                seen.append(q)
                for o in [("lookup", q), ("eval", q, rtriple()), ("prepelem", q), ("compelem", q), ("eval", rng.choice(aliases(q)), rtriple())]:
                    if rng.random() < 0.7:
                        hs.append(o)
            if rng.random() < 0.25:
                hs.append(("compall", rng.choice([0, 1])))
                hs.append(("eval", pick(), rtriple()))
        return hs

    n = rng.randint(3, 9 if quick else 14)
    for _ in range(n):
        x = rng.random()
        if x < 0.22:
            hs.append(("prep", newset()))
        elif x < 0.29:
            hs.append(("fill", newset()))
        elif x < 0.45:
            hs.append(("compall", rng.choice([0, 1, 1])))
        elif x < 0.52:
            q = pick(); seen.append(q); hs.append(("lookup", q))
        elif x < 0.60:
            q = pick(); seen.append(q); hs.append(("prepelem", q))
        elif x < 0.68:
            q = pick(); seen.append(q); hs.append(("compelem", q))
        else:
            q = pick(); seen.append(q); hs.append(("eval", q, rtriple()))
    # make sure most histories end with evaluations of listed / alias keys
    for _ in range(rng.randint(1, 3)):
        if seen:
            hs.append(("eval", rng.choice(aliases(rng.choice(seen))), rtriple()))
    return hs


def exhaustive(maxlen):
    """every history up to maxlen calls over a 9-letter alphabet on the atom (stored key a, its alias a', a second key b),
    each followed by evaluations of a and b."""
    a, a1, b = (0, 1, 0, 1), (1, 0, 0, 1), (0, 0, 0, 0)
    alphabet = [("prep", [a]), ("prep", [a, b]), ("fill", [a]), ("compall", 0), ("compall", 1), ("lookup", a1), ("prepelem", a1),
                ("compelem", b), ("eval", a1, (0, 1, 2))]
    out = []
    for n in range(1, maxlen + 1):
        for w in itertools.product(alphabet, repeat=n):
            out.append(list(w) + [("eval", a, (0, 0, 0)), ("eval", b, (0, 1, 1))])
    return out


def signature(hs, res):
    kinds = [o[0] for o in hs]
    bulk = sorted(set("split" if o[1] else "nosplit" for o in hs if o[0] == "compall"))
    refill = sum(1 for k in kinds if k in ("fill", "prep")) > 1
    first_bulk = kinds.index("compall") if "compall" in kinds else len(kinds)
    ondemand = any(k in ("lookup", "prepelem", "compelem") for k in kinds[first_bulk:])
    alias_eval = any(o[0] == "eval" and "SYM" in r["R"] and (" -1 " in r["R"] or ",".join(map(str, o[1])) != r["R"].split()[2])
                     for o, r in zip(hs, res["m1"]))
    eqidx = any(o[0] not in ("fill", "prep", "compall") and (o[1][0] == o[1][1] or o[1][2] == o[1][3]) for o in hs)
    throws = any(r["R"].startswith("THROWS") for r in res["impl"])
    ready = sum(1 for g, o in zip(res["ghost"], hs) if o[0] == "eval" and g == "X")
    return "bulk=%s refill=%d ondemand-after-bulk=%d alias-eval=%d equal-indices=%d throws=%d ready-evals=%s" % (
        "+".join(bulk) or "none", refill, ondemand, alias_eval, eqidx, throws, "0" if ready == 0 else "1" if ready == 1 else "2+")


def shrink(hs, pred, budget=60):
    """drop operations, then set members, then simplify triples, while pred(history) stays true."""
    cur = list(hs)
    changed = True
    while changed and budget > 0:
        changed = False
        for i in reversed(range(len(cur))):
            cand = cur[:i] + cur[i + 1:]
            budget -= 1
            if cand and pred(cand):
                cur, changed = cand, True
                break
            if budget <= 0:
                break
    for i, o in enumerate(list(cur)):
        if o[0] in ("fill", "prep") and len(o[1]) > 1:
            for j in range(len(o[1])):
                cand = cur[:i] + [(o[0], o[1][:j] + o[1][j + 1:])] + cur[i + 1:]
                budget -= 1
                if budget > 0 and pred(cand):
                    cur = cand
                    break
        if o[0] == "eval" and o[2] != (0, 0, 0):
            cand = cur[:i] + [("eval", o[1], (0, 0, 0))] + cur[i + 1:]
            budget -= 1
            if budget > 0 and pred(cand):
                cur = cand
    return cur


# ----------------------------------------------------------------------------------------------------

def build(chk=None):
    drv = pv.build_driver("driver_c13", ["C13_model"])
    h = pv.build_harness("h_c13")
    return Env(drv, h)


def replay_obj(model, hs, res, what):
    return {"harness": "h_c13", "model": model[0], "scenario": model[1], "index_size": model[2],
            "history": [list(o) for o in hs], "history_text": hist_txt(hs),
            "observed": [r["R"][:80] for r in res["impl"]],
            "caller_view_before_each_call": res["ghost"],
            "model_fill_unrepaired": [r["R"][:80] for r in res["m0"]], "model_fill_repaired": [r["R"][:80] for r in res["m1"]],
            "expected": what}


def distributed_slice(chk, quick):
    """Bulk computation through the container on P > 1 ranks (harness h_c06 under mpiexec): every element the container lists
    must be evaluable on every rank and equal the single-rank value, for rank counts that do and do not divide the number
    of stored elements (split computation assigns elements to colours of ranks).  Termination is C06's business."""
    import C06
    h = pv.build_harness("h_c06")
    fr = " ".join("%d %d %d" % f for f in C06.FREQS[:5])
    nf = 5
    for (P, nc) in ([(3, 2), (2, 3), (3, 4)] if quick else [(3, 2), (2, 3), (3, 4), (5, 2), (5, 3), (4, 3), (6, 4), (7, 5)]):
        qs = C06.QUADS[:nc]
        cmds = "ham\nc2 1 0 %d %s %d %s\n" % (len(qs), " ".join("%d %d %d %d" % q for q in qs), nf, fr)
        rc, ranks, err = C06.launch(h, 1, cmds, threads=1, timeout=120)
        ref = C06.parse(ranks[0])
        if rc != 0 or not ref["done"]:
            chk.tie_broken("h_c06 single-rank reference (C13 distributed slice)", "rc=%s %s" % (rc, err))
            continue
        rc, ranks, err = C06.launch(h, P, cmds, threads=1, timeout=60)
        if rc != 0:      # a loaded machine: once more with a generous limit before the launch is given up
            rc, ranks, err = C06.launch(h, P, cmds, threads=1, timeout=300)
        chk.case("mpi %d %d" % (P, nc), "distributed bulk computation P=%d stored=%d %s" % (P, nc, "P|n" if nc % P == 0 else "P!|n"), True, None)
        if rc != 0:
            chk.notes.append("distributed slice: launch P=%d with %d components ended with rc=%s (termination is decided by C06)" % (P, nc, rc))
            continue
        for r in sorted(ranks):
            o = C06.parse(ranks[r])
            for k in ref["eval"]:
                if not C06.close(o["eval"].get(k, []), ref["eval"][k]):
                    chk.violation("distributed-evaluation P=%d stored=%d" % (P, nc),
                                  "after computeAll(split) on %d ranks with %d stored elements, rank %d evaluates listed element %s to %s, the single-rank run gives %s"
                                  % (P, nc, r, "".join(k), o["eval"].get(k, ["(not evaluable)"])[:4], ref["eval"][k][:4]),
                                  {"harness": "h_c06", "P": P, "commands": cmds, "model": C06.MODEL, "threads": 1})
                    break
    # containers on communicators other than the world: groups of ranks fill and compute their OWN lists at the same time; every
    # listed element must evaluate, on every rank of its group, to the single-rank value of that element (stage shared with C06)
    C06.subcomm_stage(chk, h, True, chk.rng, set())


def run(chk):
    quick = chk.tier == "quick"
    ok, log = chk.prove(["extract/Extract_C13.vo"], extra_props=["Properties_C13_source.v"])
    chk.trusted += ["translator/gen_c13.py and translator/cexpr.py (tables, alias table, fill's clear() calls, frequency array)",
                    "translator/gen_container.py (statement splitter of gen_symm.py + one reader per C++ function, ~1300 lines of Python): reads fill, set, "
                    "isInContainer, enumerateInitialIndices, operator()(Indices), ElementWithPermFreq::operator(), createElement, prepareAll, computeAll, "
                    "computeAll_nosplit, computeAll_split statement by statement into Gallina functions over abstract primitives (coq/gen/Gen_C4*.v); "
                    "coq/theories/Container4Gen.v instantiates the primitives with the model's std::map / status operations (hand-written, tied by the histories below)",
                    "extraction: ExtrOcamlBasic, ExtrOcamlNatInt (nat -> int: indices and element ids < 2^62); no Extract Constant of our own",
                    "ocaml/driver_c13.ml (parsing/printing, element-id renaming by first appearance), harness/h_c13.cpp (same renaming; "
                    "keeps a shared_ptr to every element seen so that addresses identify elements), harness/ed_common.h",
                    "oracle: a freshly constructed TwoParticleGF (prepare, compute) of the same library build -- its own correctness is C02"]
    chk.assume += ["one MPI rank (multi-rank behaviour of computeAll is C06)",
                   "computeAll / compute are called with clearTerms = false (with true, evaluation throws by design)",
                   "the table returned by computeAll is not compared (the property is about evaluation through the container)",
                   "value comparison: relative 1e-10 (+1e-12 absolute)"]
    env = build()
    # what the translator read off the source
    rc, out, err = pv.sh([env.drv], input="srcfixed\n", timeout=60)
    src_fixed = {"SRCFIXED 1": True, "SRCFIXED 0": False}.get(out.strip())
    chk.extra["translator_says_fill_clears_NonTrivialElements"] = src_fixed

    stats = {"histories": 0, "agree_unrepaired": 0, "agree_repaired": 0, "agree_neither": 0, "property_violations": 0}
    disagreements, violating = [], []
    nrand = {"hubbard-atom": 120 if quick else 1500, "two-site": 60 if quick else 800}
    for model in MODELS:
        name, scen, nidx, sub = model
        runner = Runner(env, model)
        hists = [h for h in CORPUS] if name == CANON_MODEL else [[("prep", [(0, 2, 0, 2)]), ("prep", [(0, 2, 0, 2), (1, 1, 2, 2)]), ("compall", 1),
                                                                 ("eval", (2, 0, 2, 0), (0, 1, 2)), ("eval", (1, 1, 2, 2), (0, 0, 0))]] + ONDEMAND_CORPUS
        if name == CANON_MODEL:
            hists += exhaustive(2 if quick else 3)
        hists += [gen_history(chk.rng, model, quick) for _ in range(nrand[name])]
        try:
            results = runner.run(hists)
        except Crash as ex:
            # find the crashing history
            results = []
            for hs in hists:
                try:
                    results.append(runner.run([hs])[0])
                except Crash as ex1:
                    small = shrink(hs, lambda c: _crashes(runner, c))
                    chk.violation("crash %s: %s" % (name, hist_txt(small)), "h_c13 crashes: %s" % str(ex1)[-300:],
                                  {"harness": "h_c13", "model": name, "scenario": scen, "history": [list(o) for o in small], "history_text": hist_txt(small)})
                    results.append(None)
        except ModelFailure as ex:
            chk.tie_broken("driver_c13", str(ex))
            continue
        for hs, res in zip(hists, results):
            if res is None:
                continue
            stats["histories"] += 1
            canon = name + ": " + hist_txt(hs)
            chk.case(canon, signature(hs, res), nontrivial=any(o[0] == "eval" for o in hs),
                     sample={"model": name, "history": hist_txt(hs), "implementation": [r["R"][:40] for r in res["impl"]],
                             "caller_view": res["ghost"]} if stats["histories"] in (5, 12, 40) else None)
            a0, a1 = res["d0"] is None, res["d1"] is None
            stats["agree_unrepaired"] += a0
            stats["agree_repaired"] += a1
            if not a0 and not a1:
                stats["agree_neither"] += 1
                disagreements.append((model, hs, res))
            if res["viol"]:
                stats["property_violations"] += 1
                violating.append((model, hs, res))

        # ---- exchange symmetries on directly constructed objects ----
        quads = list(itertools.product(sub, repeat=4))
        if len(quads) > 16:
            quads = [q for q in quads if q[0] <= q[1] and q[2] <= q[3]]
            chk.rng.shuffle(quads)
            quads = quads[:14 if quick else 36]
        triples = [(0, 0, 0), (0, 1, 2), (-1, 0, 2), (1, -2, 0), (0, -1, 0)] + [tuple(chk.rng.randint(-3, 3) for _ in range(3)) for _ in range(2 if quick else 6)]
        reqs = []
        for (i, j, k, l) in quads:
            for (n1, n2, n3) in triples:
                reqs += [((i, j, k, l), (n2, n1, n3)), ((j, i, k, l), (n1, n2, n3)), ((i, j, k, l), (n1, n2, n1 + n2 - n3)), ((i, j, l, k), (n1, n2, n3))]
        _, oracle = env.run_impl(model, [], reqs)
        if _ is None:
            chk.violation("crash %s: direct TwoParticleGF objects" % name, "h_c13 crashes while evaluating directly constructed TwoParticleGF objects: %s" % oracle,
                          {"harness": "h_c13", "model": name, "scenario": scen})
            continue
        for (i, j, k, l) in quads:
            for (n1, n2, n3) in triples:
                a, b = oracle[((j, i, k, l), (n1, n2, n3))], oracle[((i, j, k, l), (n2, n1, n3))]
                c, d = oracle[((i, j, l, k), (n1, n2, n3))], oracle[((i, j, k, l), (n1, n2, n1 + n2 - n3))]
                chk.case("%s swap %s %s" % (name, (i, j, k, l), (n1, n2, n3)),
                         "direct symmetry %s%s" % ("equal-c " if i == j else "", "equal-cx" if k == l else ""), nontrivial=(abs(b) > 1e-9 or abs(d) > 1e-9))
                if a is None or b is None or not close(a, -b):
                    chk.violation("swap12 %s quad=%s triple=%s" % (name, (i, j, k, l), (n1, n2, n3)),
                                  "chi_jikl(w1,w2;w3) = %s but -chi_ijkl(w2,w1;w3) = %s on directly constructed TwoParticleGF objects" % (a, None if b is None else -b),
                                  {"harness": "h_c13", "model": name, "scenario": scen, "oracle": [[j, i, k, l, n1, n2, n3], [i, j, k, l, n2, n1, n3]]})
                if c is None or d is None or not close(c, -d):
                    chk.violation("swap34 %s quad=%s triple=%s" % (name, (i, j, k, l), (n1, n2, n3)),
                                  "chi_ijlk(w1,w2;w3) = %s but -chi_ijkl(w1,w2;w1+w2-w3) = %s on directly constructed TwoParticleGF objects" % (c, None if d is None else -d),
                                  {"harness": "h_c13", "model": name, "scenario": scen, "oracle": [[i, j, l, k, n1, n2, n3], [i, j, k, l, n1, n2, n1 + n2 - n3]]})

    # ---- which variant is the library? ----
    n = stats["histories"]
    variant = None
    if n and stats["agree_neither"] == 0:
        if stats["agree_repaired"] == n:
            variant = "repaired"            # (histories that never refill agree with both variants)
        elif stats["agree_unrepaired"] == n:
            variant = "unrepaired"
    chk.extra["library_variant_by_correspondence"] = variant
    chk.extra["correspondence"] = stats

    # ---- property violations: shrink, attribute ----
    stale = [(m, hs, res) for (m, hs, res) in violating if res["d0"] is None and res["d1"] is not None]
    other = [(m, hs, res) for (m, hs, res) in violating if not (res["d0"] is None and res["d1"] is not None)]
    reported_stale = False
    if stale:
        # The implementation behaves on these histories exactly as the model whose fill does not clear NonTrivialElements, and the repaired
        # model (for which the theorems hold) behaves differently: one root cause, reported under one key with the canonical minimal
        # history, after confirming that history on the implementation itself.
        cm = [m for m in MODELS if m[0] == CANON_MODEL][0]
        cr = Runner(env, cm).run([CANON_HISTORY])[0]
        if cr["viol"]:
            reported_stale = True
            obj = replay_obj(cm, CANON_HISTORY, cr, "value of a fresh TwoParticleGF(0,1,0,1) at (0,0,0): %s" % cr["oracle"].get(((0, 1, 0, 1), (0, 0, 0))))
            obj["refuted_theorems"] = ["container_refines_spec_refuted", "listed_elements_evaluable_refuted", "bulk_compute_succeeds_refuted"]
            m0, h0, r0 = stale[0]
            runner = Runner(env, m0)
            obj["also_seen"] = [m0[0] + ": " + hist_txt(shrink(h0, lambda c: _violates(runner, c)))] + [m[0] + ": " + hist_txt(hs) for (m, hs, _) in stale[1:4]]
            obj["violating_histories_in_this_run"] = len(stale)
            chk.violation(CANON_KEY, CANON_WHAT, obj)
        else:
            other = stale + other
    seen_what = set()
    for (model, hs, res) in other[:6]:
        runner = Runner(env, model)
        small = shrink(hs, lambda c: _violates(runner, c))
        r = runner.run([small])[0]
        what = "; ".join(d for _, d in r["viol"])
        if what in seen_what or len(seen_what) >= 3:      # the same observation reached through another history
            continue
        seen_what.add(what)
        chk.violation("%s: %s" % (model[0], hist_txt(small)), "; ".join(d for _, d in r["viol"]) or "violation not reproduced after shrinking",
                      replay_obj(model, small, r, "see description"))

    # ---- correspondence failures that are not property violations: the model is not the code ----
    if not violating:
        for (model, hs, res) in disagreements[:2]:
            runner = Runner(env, model)
            small = shrink(hs, lambda c: _neither(runner, c))
            r = runner.run([small])[0]
            chk.tie_broken("container model vs TwoParticleGFContainer",
                           {"model": model[0], "history": hist_txt(small), "vs_unrepaired": r["d0"], "vs_repaired": r["d1"]})
        if variant is None and not disagreements and n:
            chk.tie_broken("container model vs TwoParticleGFContainer", "some histories agree only with the repaired model and others only with the unrepaired one: %r" % stats)
        if variant is not None and src_fixed is not None and (variant == "repaired") != src_fixed and stats["agree_repaired"] != stats["agree_unrepaired"]:
            chk.tie_broken("translator vs correspondence", "translator reads fill_clears_nontrivial = %s, the library behaves as the %s model" % (src_fixed, variant))
    if variant == "unrepaired" and not reported_stale and stats["agree_repaired"] != n:
        # the library is the unrepaired variant but no generated history exposed a violation (cannot happen while the corpus is run)
        chk.tie_broken("variant", "library behaves as the unrepaired model but no violating history was found")

    distributed_slice(chk, chk.tier == "quick")
    chk.rule = ("histories of fill / prepareAll / computeAll(split|nosplit) / lookup / prepare / compute / evaluate calls: a fixed corpus (incl. the witnesses of "
                "the *_refuted theorems) plus random histories over quadruples from a small index subset (25% with equal annihilation or creation indices, "
                "75% of the on-demand and evaluated keys are aliases of keys used before, repeated prepareAll with the same and with other sets, empty set = all "
                "combinations on the atom), plus every history of up to 2 (quick) / 3 (thorough) calls over a 9-letter alphabet on the atom; every call's outcome and the full state (both maps, permutations, statuses) compared with the extracted model in both "
                "variants; a history is non-trivial when it evaluates something; distinct = distinct canonical history text. Direct symmetry cases: quadruples x "
                "triples on freshly constructed objects, non-trivial when the value is non-zero")


def _violates(runner, hs):
    try:
        return bool(runner.run([hs])[0]["viol"])
    except (Crash, ModelFailure):
        return False


def _neither(runner, hs):
    try:
        r = runner.run([hs])[0]
        return r["d0"] is not None and r["d1"] is not None
    except (Crash, ModelFailure):
        return False


def _crashes(runner, hs):
    try:
        runner.run([hs])
        return False
    except Crash:
        return True
    except ModelFailure:
        return False


def replay(chk, path):
    r = json.load(open(path))
    rp = r.get("replay", r)
    print(json.dumps({k: rp.get(k) for k in ("model", "history_text", "expected", "observed")}, indent=1))
    if "history" not in rp:
        run(chk)
        return chk.finish()
    chk.prove(["extract/Extract_C13.vo"], extra_props=["Properties_C13_source.v"])
    env = build()
    model = [m for m in MODELS if m[0] == rp["model"]][0]
    hs = [op_from_json(o) for o in rp["history"]]
    res = Runner(env, model).run([hs])[0]
    for k, (op, a, b0, b1, g) in enumerate(zip(hs, res["impl"], res["m0"], res["m1"], res["ghost"]), 1):
        print("%2d %-28s caller's view before: %s\n   implementation: %s\n   model (fill as read): %s\n   model (fill repaired): %s\n   state: %s" % (
            k, op_line(op), g, a["R"], b0["R"], b1["R"], a.get("D")))
    chk.case(rp["model"] + ": " + hist_txt(hs), "replay", True)
    if res["viol"]:
        key = r.get("key", hist_txt(hs))
        chk.violation(key, CANON_WHAT if key == CANON_KEY else "; ".join(d for _, d in res["viol"]), replay_obj(model, hs, res, rp.get("expected")))
    else:
        print("no violation of the property on this history")
    return chk.finish()


def setup():
    build()
