"""C01 -- the single-particle Matsubara Green's function equals its definition.

Proof: props/Properties_C01.v (merge walk complete for all sparse patterns; part = Lehmann double sum in exact form, error
identity and bound in tolerance form; term container invariant; stripe selection complete; blocks-to-full = EDSpec.gf;
fermionic term integral; container returns the requested component), about models whose leaf expressions the translator
regenerates from the C++ on every run (coq/gen/Gen_C01.v).  props/Properties_C17_loops.v is built alongside.

Ties, both kinds:
 (T) translator/gen_c01.py: residue, pole, relevance test, comparator, negligibility, Term::operator() in z and tau,
     tolerance constants, Matsubara argument.
 (C1) term-list correspondence: harness/h_c01.cpp dumps the compressed matrices exactly as Eigen holds them, the bimap views,
     eigenvalues, weights; the extracted model (PV.GFPart: stripe walk, merge walk, TermList) recomputes, per part, the term
     list; compared with GreensFunctionPart::Terms (count, poles, residues to 1e-12), the parts prepare() made, and values.
     The model's access trace (strict / lenient / repaired loops) is recorded; in the `asan` build it is compared with
     AddressSanitizer's verdict (the C17 demonstration).
 (C2) end-to-end: GreensFunction::operator() (stand-alone object, container, Matsubara numbers) vs the full-space
     specification PV.EDSpec.gf (oracle driver_ed), tolerance 1e-11*scale + documented truncation bound (PV.TruncSpec,
     full space: dropped residues and merged poles; partial sums dropped as negligible from the model's event log).
     Every tier includes the deterministic low-temperature family LOWTEMP (beta*|E_ground| from 300 to 4700, thorough: 90000,
     ground energy of either sign): there exp(-beta*E) is outside binary64, so the library's weights must be taken relative
     to the ground energy; the references (EDSpec.weights, PV.TruncSpec) are.  beta*E_ground of each is in the evidence.
"""
import json
import re

import pv
import edlib
import scen
import c01lib as L

hx = float.fromhex
NOISE = 1e-11


def zs_for(tier):
    return L.OFFAXIS


def gf_queries(pairs, zs, ns):
    q = []
    zt = " ".join("%r %r" % z for z in zs)
    for (i, j) in pairs:
        q.append("gf %d %d %d %s" % (i, j, len(zs), zt))
        q.append("gfc %d %d %d %s" % (i, j, len(zs), zt))
        q.append("gfn %d %d %s" % (i, j, " ".join(str(n) for n in ns)))
    return q


def bound_queries(pairs, zs, ns):
    zt = " ".join("%r %r" % z for z in zs)
    return ["gfbound %d %d %d %s n %d %s" % (i, j, len(zs), zt, len(ns), " ".join(str(n) for n in ns)) for (i, j) in pairs]


def end_to_end(chk, fam, text, nmodes, symm, variant, pairs, zs, ns, negl_of=None, record=True):
    tie_broken = chk.tie_broken if record else (lambda *a: None)     # candidates tried while shrinking raise no alarms
    """runs the scenario through the library and the full-space oracle; returns list of failures
    (i, j, kind, point, impl, oracle, allowed)"""
    r = edlib.run(text, gf_queries(pairs, zs, ns), variant=variant)
    fails = []
    if r.crash or r.error:
        return [("crash", r.crash or r.error)], r
    if r.cert is None or max(r.cert) > 1e-9:
        tie_broken("eigen-certificate", "residuals %r for %s" % (r.cert, L.canon(text)))
        return [], r
    try:
        bl = L.oracle_bounds(r, bound_queries(pairs, zs, ns))
        have_bounds = True
    except Exception as ex:     # model driver unavailable: fall back to a loose tolerance, say so
        tie_broken("driver_c01 (truncation bound)", repr(ex)[:300])
        bl, have_bounds = [], False
    bz = {(int(t[1]), int(t[2])): t for t in bl if t[0] == "GFBOUND"}
    bnl = [t for t in bl if t[0] == "GFBOUNDN"]
    G = {(int(t[1]), int(t[2])): t for t in r.get("impl", "G")}
    GC = {(int(t[1]), int(t[2])): t for t in r.get("impl", "GC")}
    GN = {(int(t[1]), int(t[2])): t for t in r.get("impl", "GN")}
    # the same values read from copies of the GreensFunction object: a plain copy of the computed object (GCOPY), that copy after
    # prepare(); compute() on it (GCOPYRUN), and a copy taken before prepare() and run afterwards (GCOPY0)
    GCPS = [(tag, what, {(int(t[1]), int(t[2])): t for t in r.get("impl", tag)}) for tag, what in (
        ("GCOPY", "read from a COPY of the GreensFunction object"),
        ("GCOPYRUN", "read from a COPY of the computed GreensFunction object after prepare(); compute() on the copy"),
        ("GCOPY0", "read from a COPY taken before prepare(), prepared and computed afterwards"))]
    OG = {(int(t[1]), int(t[2])): t for t in r.get("oracle", "G")}
    OGN = {(int(t[1]), int(t[2])): t for t in r.get("oracle", "GN")}
    for k, (i, j) in enumerate(pairs):
        if (i, j) not in G or (i, j) not in OG or (i, j) not in GN or (i, j) not in OGN:
            tie_broken("missing record", "pair %d %d in %s" % (i, j, L.canon(text)))
            continue
        negl = negl_of(i, j) if negl_of else 0.0
        anything_dropped = False
        pts = []
        for q, z in enumerate(zs):
            vi, vc, vo = L.cplx(G[(i, j)], 4 + 2 * q), L.cplx(GC[(i, j)], 4 + 2 * q), L.cplx(OG[(i, j)], 3 + 2 * q)
            if have_bounds:
                b = bz[(i, j)]
                drop, merge, abssum = hx(b[4 + 3 * q]), hx(b[5 + 3 * q]), hx(b[6 + 3 * q])
            else:
                drop, merge, abssum = 1e-6, 0.0, abs(vo)
            pts.append(("z=%r" % (complex(*z),), vi, vc, vo, drop, merge, abssum))
            for tag, what, GCP in GCPS:
                if (i, j) in GCP:
                    vcp = L.cplx(GCP[(i, j)], 4 + 2 * q)
                    if vcp != vi and not (abs(vcp - vi) <= 1e-14 * (1.0 + abs(vi))):
                        fails.append((i, j, "container", "z=%r (%s)" % (complex(*z), what), vcp, vi, 1e-14 * (1.0 + abs(vi))))
                        break
        bn = bnl[k] if k < len(bnl) else None
        for q, n in enumerate(ns):
            vi, vo = L.cplx(GN[(i, j)], 4 + 3 * q), L.cplx(OGN[(i, j)], 4 + 3 * q)
            if have_bounds and bn is not None:
                drop, merge, abssum = hx(bn[3 + 4 * q]), hx(bn[4 + 4 * q]), hx(bn[5 + 4 * q])
            else:
                drop, merge, abssum = 1e-6, 0.0, abs(vo)
            pts.append(("n=%d" % n, vi, None, vo, drop, merge, abssum))
        for (pt, vi, vc, vo, drop, merge, abssum) in pts:
            allowed = NOISE * (1.0 + abs(vo) + abssum) + drop + merge + negl
            anything_dropped = anything_dropped or drop > 0
            if not (abs(vi - vo) <= allowed):
                fails.append((i, j, "value", pt, vi, vo, allowed))
            if vc is not None and not (abs(vc - vi) <= 1e-14 * (1.0 + abs(vi))):
                fails.append((i, j, "container", pt, vc, vi, 1e-14 * (1.0 + abs(vi))))
        if record:
            sig = "%s|%s|symm=%s|%s|dropped=%s" % (re.sub(r'-beta.*|-cplx', '', fam), "diag" if i == j else "offdiag", symm, variant,
                                                   "yes" if anything_dropped else "no")
            vanishing = G[(i, j)][3] == "1"
            chk.case("C01 %s | gf %d %d" % (L.canon(text), i, j), sig + ("|vanishing" if vanishing else ""),
                     nontrivial=not vanishing,
                     sample={"scenario": L.canon(text), "pair": [i, j], "impl": str(pts[0][1]), "oracle": str(pts[0][3]),
                             "bound": pts[0][4] + pts[0][5]} if (i != j and not vanishing) else None)
    return fails, r


def shrink_and_report(chk, fam, text, nmodes, symm, variant, fail, zs, ns):
    i, j, kind, pt, a, b, allowed = fail
    lines = [l for l in text.strip().split("\n") if l.strip()]

    def still(cand_lines, pair=(i, j)):
        f, _ = end_to_end(chk, fam, "\n".join(cand_lines) + "\n", nmodes, symm, variant, [pair], zs, ns, record=False)
        return any(x[0] != "crash" and x[2] == kind for x in f)
    try:
        small = L.shrink_lines(lines, still)
        # smaller index pair
        best = (i, j)
        for cand in sorted([(p, q) for p in range(nmodes) for q in range(nmodes)], key=lambda pq: (pq[0] + pq[1], pq)):
            if cand >= best and cand != best:
                continue
            if (cand[0] == cand[1]) == (i == j) and still(small, cand):
                best = cand
                break
        f, _ = end_to_end(chk, fam, "\n".join(small) + "\n", nmodes, symm, variant, [best], zs, ns, record=False)
        f = [x for x in f if x[0] != "crash" and x[2] == kind] or [fail]
        i, j, kind, pt, a, b, allowed = f[0]
        text = "\n".join(small) + "\n"
    except Exception:
        pass
    key = "%s: %s | gf %d %d | %s" % (kind, L.canon(text), i, j, variant)
    if kind == "container":
        what = "G_%d%d read through GFContainer differs from the stand-alone GreensFunction at %s: %s vs %s" % (i, j, pt, a, b)
    else:
        what = ("G_%d%d at %s: library %s, definition (full-space Lehmann sum) %s, difference %.3e exceeds the documented "
                "truncation bound + rounding %.3e" % (i, j, pt, a, b, abs(a - b), allowed))
    chk.violation(key, what, {"harness": "h_ed", "variant": variant, "scenario": text, "query": "gf %d %d" % (i, j), "point": pt,
                              "expected": str(b), "observed": str(a), "allowed": allowed})


def term_correspondence(chk, fam, text, symm, variant, pairs, zs, ns, negl):
    """(C1); fills negl[(i,j)] with the model's negligible-sum bound (max over points); returns the Raw results"""
    zt = " ".join("%r %r" % z for z in zs)
    nt = "n %d %s" % (len(ns), " ".join(str(n) for n in ns))
    rq = [("gfraw %d %d %d %s %s" % (i, j, len(zs), zt, nt), "gfmodel %d %s %s" % (len(zs), zt, nt)) for (i, j) in pairs]
    res, derr, crash, head = L.run_raw(text, rq, variant=variant)
    if derr:
        chk.tie_broken("driver_c01", derr)
        return res
    if crash:
        chk.tie_broken("h_c01", "harness exit %s on %s: %s" % (crash[0], L.canon(text), crash[1][-300:]))
    for (i, j), r in zip(pairs, res):
        if not r.model or L.recs(r.model, "MODELFAIL") or L.recs(r.model, "DRIVER-ERROR"):
            chk.tie_broken("model evaluation", "pair %d %d of %s: %s" % (i, j, L.canon(text), r.model[:2]))
            continue
        wf = L.recs(r.model, "WF")[0][1] == "1"
        if not wf:
            chk.tie_broken("cs_wf", "a dumped matrix is not a well-formed compressed matrix: pair %d %d of %s" % (i, j, L.canon(text)))
        ip = L.recs(r.impl, "PARTS")
        mp = L.recs(r.model, "MPARTS")
        if not ip or not mp or ip[0][1:] != mp[0][1:]:
            chk.tie_broken("stripe selection (GreensFunction::prepare vs PV.GFPart.gf_prepare)",
                           "pair %d %d of %s: library %s model %s" % (i, j, L.canon(text), ip[:1], mp[:1]))
            continue
        it = {(a, b): t for (a, b, t) in map(L.terms_of, L.recs(r.impl, "TERMS"))}
        mt = {(a, b): t for (a, b, t) in map(L.terms_of, L.recs(r.model, "MTERMS"))}
        bad = None
        for k in it:
            d = L.compare_terms(it[k], mt.get(k, []))
            if d:
                bad = "part %s: %s" % (k, d)
                break
        if bad:
            chk.tie_broken("term list (GreensFunctionPart::compute vs PV.GFPart.gf_part_compute)",
                           "pair %d %d of %s: %s" % (i, j, L.canon(text), bad))
        iv, mv = L.recs(r.impl, "VAL"), L.recs(r.model, "MVAL")
        if iv and mv:
            for q in range(len(zs)):
                a, b = L.cplx(iv[0], 3 + 2 * q), L.cplx(mv[0], 3 + 2 * q)
                if abs(a - b) > 1e-12 * (1 + abs(a)):
                    chk.tie_broken("part evaluation", "pair %d %d of %s at z#%d: %s vs %s" % (i, j, L.canon(text), q, a, b))
        mb = L.recs(r.model, "MBOUND") + L.recs(r.model, "MBOUNDN")
        ng = 0.0
        for t in mb:
            step, first = (3, 2) if t[0] == "MBOUND" else (4, 3)
            for q in range(int(t[1])):
                ng = max(ng, hx(t[first + step * q + 2]))
        negl[(i, j)] = ng
        stat = L.recs(r.model, "MSTAT")
        runs = L.recs(r.model, "RUN")
        strict = sorted(set(t[4] for t in runs if t[1] == "strict"))
        lenient = sorted(set(t[4] for t in runs if t[1] == "lenient"))
        tot = [sum(int(t[k]) for t in stat) for k in range(3, 10)] if stat else [0] * 7
        sig = "terms|%s|symm=%s|%s|strict=%s|lenient=%s|merged=%s|negl=%s|dropped=%s" % (
            "diag" if i == j else "offdiag", symm, variant, "+".join(strict) or "-", "+".join(lenient) or "-",
            "yes" if tot[4] else "no", "yes" if tot[5] else "no", "yes" if tot[2] else "no")
        chk.case("C01-terms %s | gf %d %d" % (L.canon(text), i, j), sig, nontrivial=tot[0] > 0,
                 sample={"scenario": L.canon(text), "pair": [i, j], "matched/kept/dropped/new/merged/negl/refused": tot,
                         "walk": {"strict": strict, "lenient": lenient}} if tot[5] or "PastEnd" in strict else None)
        if tot[6]:
            chk.tie_broken("term lost", "the model's add_term loop ran out of its bound (excluded by termlist_loop_terminates): %s" % L.canon(text))
        chain = max([int(t[3]) for t in L.recs(r.model, "MCHAIN")] or [0])
        if chain > 1:
            chk.tie_broken("merge chain", "an added term went through %d merges (termlist_invariant / gf_part_events_short: at most "
                           "one with the library's comparator): %s" % (chain, L.canon(text)))
    return res


def asan_tie(chk, cases):
    """the C17 demonstration for GreensFunctionPart::compute; cases: [(scenario text, [(i, j)])]"""
    return L.asan_tie(chk, [(text, [("gfraw %d %d 1 0 1.5" % p, "gfmodel 1 0 1.5", "gf %d %d" % p) for p in pairs]) for text, pairs in cases],
                      "GreensFunctionPart::compute", "C01")


# regression seeds, always run first: single-block models with off-diagonal components (chase past the inner vector),
# components that vanish by symmetry (every partial sum dropped as negligible), strongly degenerate spectra
FIXED = [
    ("two-site", "site A 1 2\nsite B 1 2\naddCoulombS A 2 -1\naddLevel B 0.25\naddHopping4 A B 0.5\nsymm ignore\nbeta 4\n", 4, "ignore", "real",
     [(0, 1), (0, 2), (2, 0), (1, 1)]),
    ("hubbard-atom", "site A 1 2\naddCoulombS A 2 -1\nsymm ignore\nbeta 4\n", 2, "ignore", "real", [(1, 0), (0, 1), (0, 0)]),
    ("atomic-limit", "site A 1 2\nsite B 1 2\naddCoulombS A 2 -1\naddCoulombS B 2 -1\nsymm default\nbeta 25\n", 4, "default", "real",
     [(0, 0), (0, 2), (3, 3)]),
    # complex matrix-element build in EVERY tier: complex hopping and complex spin mixing, so that G_ij != G_ji and an
    # (i,j) <-> (j,i) mix-up between the stand-alone object and the container element is visible
    ("two-site-complex", "site A 1 2\nsite B 1 2\naddCoulombS A 2 -1\naddLevel B 0.25\naddHopping4 A B 0.5,0.25\n"
     "addHopping8 A B 0.25,-0.5 0 0 0 1\nsymm default\nbeta 2\n", 4, "default", "complex",
     [(0, 2), (2, 0), (0, 3), (3, 0), (1, 2), (0, 0)]),
]

ASAN_CASES = [
    ("site A 1 2\naddCoulombS A 2 -1\nsymm ignore\nbeta 4\n", [(1, 0), (0, 1), (0, 0)]),
    ("site A 1 2\nsite B 1 2\naddCoulombS A 2 -1\naddLevel B 0.25\naddHopping4 A B 0.5\nsymm ignore\nbeta 4\n", [(0, 1), (0, 2), (2, 3)]),
]


# "every inverse temperature": deterministic low-temperature scenarios, run in every tier.  What matters is beta*|E_ground|
# (the Boltzmann factors exp(-beta*E) leave binary64 beyond 709.78 upwards and 745.13 downwards, so the weights have to be
# taken relative to the ground energy): ~300 (control), ~800, ~1200, ~2900, ~4600, ground energy of either sign.  A positive
# ground energy needs a constant in H, which the scenario language only has through c c^+ = 1 - n.  Atoms: non-degenerate
# and doubly degenerate ground states; dimers: off-diagonal components between the sites.  The oracle's own weights are
# EDSpec.weights (relative to the lowest eigenvalue), the bound driver's likewise: nothing on the reference side overflows.
CCDAG_A = "term 2 %s 0 A 0 0 1 A 0 0\nterm 2 %s 0 A 0 1 1 A 0 1\n"        # v (c_up c^+_up + c_dn c^+_dn) = v (2 - n_A)
LOWTEMP = [
    # (family, scenario, modes, build, pairs, intended beta*|E_ground|)
    ("lowT-atom", "site A 1 2\naddCoulombS A 4 -3\nsymm default\nbeta 100\n", 2, "real", [(0, 0), (1, 1), (0, 1)], 300),
    ("lowT-atom", "site A 1 2\naddCoulombS A 1 -1.5\naddMagnetization A 0.25\nsymm default\nbeta 400\n", 2, "real", [(0, 0), (1, 1), (1, 0)], 800),
    ("lowT-dimer", "site A 1 2\nsite B 1 2\naddCoulombS A 4 -2.5\naddCoulombS B 4 -2\naddHopping4 A B 0.5\nsymm default\nbeta 1000\n", 4, "real",
     [(0, 0), (3, 3), (0, 2), (2, 0), (1, 3), (0, 1)], 4600),
    ("lowT-atom-positive", "site A 1 2\naddCoulombS A 2 0.5\n" + CCDAG_A % ("3", "3") + "symm default\nbeta 400\n", 2, "real",
     [(0, 0), (1, 1), (0, 1)], 1200),
    ("lowT-dimer-positive", "site A 1 2\nsite B 1 2\naddCoulombS A 1 1\naddLevel B 0.75\naddHopping4 A B 0.5\n" + CCDAG_A % ("2", "2") +
     "symm default\nbeta 1000\n", 4, "real", [(0, 0), (2, 2), (0, 2), (3, 1), (1, 0)], 2900),
]
LOWTEMP_THOROUGH = [
    ("lowT-atom-positive", "site A 1 2\naddCoulombS A 2 0.5\n" + CCDAG_A % ("3", "3") + "symm default\nbeta 100\n", 2, "real",
     [(0, 0), (1, 1), (0, 1)], 300),
    ("lowT-dimer", "site A 1 2\nsite B 1 2\naddCoulombS A 4 -2.5\naddCoulombS B 4 -2\naddHopping4 A B 0.5\nsymm ignore\nbeta 200\n", 4, "real",
     [(0, 0), (3, 3), (0, 2), (2, 0), (1, 3), (0, 1)], 920),
    ("lowT-dimer", "site A 1 2\nsite B 1 2\naddCoulombS A 2 -3\naddLevel B -2.5\naddHopping4 A B 1\naddHopping8 A B 0.5 0 0 0 1\nsymm default\nbeta 10000\n",
     4, "real", [(0, 0), (0, 1), (0, 2), (0, 3), (3, 0), (2, 2)], 90000),
    ("lowT-dimer-cplx", "site A 1 2\nsite B 1 2\naddCoulombS A 4 -2.5\naddCoulombS B 4 -2\naddHopping4 A B 0.5,0.25\nsymm default\nbeta 1000\n", 4, "complex",
     [(0, 0), (3, 3), (0, 2), (2, 0), (1, 3)], 4600),
    ("lowT-atom", "site A 1 2\naddCoulombS A 1 -1.5\naddMagnetization A 0.25\nsymm ignore\nbeta 2000\n", 2, "real", [(0, 0), (1, 1), (1, 0)], 4000),
]


def low_temperature(tier):
    out = []
    for (fam, text, n, variant, pairs, _) in LOWTEMP + ([] if tier == "quick" else LOWTEMP_THOROUGH):
        out.append((fam, text, n, re.search(r'(?m)^symm (\S+)', text).group(1), variant, pairs))
    return out


def note_low_temperature(chk, fam, text, r):
    """evidence that the low-temperature scenarios are where they are meant to be: beta*E_ground as the library reports it"""
    try:
        e0 = min(min(v) for v in r.eigs().values())
        chk.extra.setdefault("low_temperature", []).append({"family": fam, "scenario": L.canon(text), "E_ground": e0,
                                                            "beta*E_ground": r.beta() * e0})
    except Exception as ex:
        chk.tie_broken("low-temperature bookkeeping", "%s: %r" % (L.canon(text), ex))


def run(chk):
    quick = chk.tier == "quick"
    ok, log = chk.prove(["props/Properties_C17_loops.vo", "extract/Extract_C01.vo", "extract/Extract_ED.vo"],
                        extra_props=["Properties_C01_source.v", "Properties_C01_copy.v", "Properties_Spine.v"])   # Spine: end-to-end composition of the layers for G
    chk.extra["c17_loops_theorems"] = pv.count_obligations("Properties_C17_loops.v")
    ax17, _ = pv.print_assumptions("Properties_C17_loops.v") if ok else ({}, "")
    chk.extra["c17_loops_axioms"] = ax17
    chk.trusted += ["translator/gen_copy.py (~150 lines: regular expressions over the copy constructor's initialiser list and body) and the meaning coq/theories/CopyShapes.v gives to such a constructor (field-wise state, base classes Thermal = {beta}, ComputableObject = {Status}); a constructor outside the recognised shape falls back to the snapshot and copies are then judged by the runs only",
                    "translator/gen_c01.py and translator/cexpr.py",
                    "translator/gen_lehmann.py with translator/cstmt.py (statement splitter + shape recognition): reads, one generated file per C++ function, "
                    "the control structure of GreensFunctionPart::compute, TermList::add_term / operator(), the call operators of GreensFunctionPart and "
                    "GreensFunction (coq/gen/Gen_Leh*.v in the vocabulary coq/theories/LehmannShapes.v); coq/theories/LehmannInterp.v gives the descriptions "
                    "their meaning; Properties_C01_source.v = the agreement with the hand-written models and the theorems about the interpreted source. "
                    "coq/theories/TermList.v models add_term as the retry loop the source has (insert; while refused: reduce with the blocking term, erase it, "
                    "return if negligible, retry): it agrees with the interpreted source on every input, no hypothesis (add_term_src_agrees_with_model); the "
                    "former find/erase/insert form is kept as add_term_findform (add_term_forms_differ)",
                    "extraction: ExtrOcamlBasic, ExtrOcamlNatInt, ExtrOCamlFloats; no Extract Constant of our own",
                    "ocaml/driver_c01.ml, ocaml/driver_ed.ml (parsing, assembling, printing), harness/h_c01.cpp, harness/h_ed.cpp, harness/ed_common.h",
                    "Eigen's self-adjoint solver: certified per run (|HU-UE|, |U^+U-1| < 1e-9 from the oracle driver); exp of libm",
                    "g++ 12 / Eigen / Boost as used by the library build; AddressSanitizer for the access-trace tie"]
    chk.assume += ["floating-point rounding is outside the model: comparisons allow 1e-11*(1+|G|+sum|R|/|z-P|) on top of the truncation bound",
                   "scenario amplitudes are small dyadic rationals, so discrete decisions agree in exact and binary64 arithmetic",
                   "Eigen::SparseMatrix is in compressed mode (checked per matrix by the harness)"]
    try:
        L.driver()
        L.raw_harness("real")
        have_model = True
    except pv.BuildError as ex:
        chk.tie_broken("build of the model driver / raw harness", ex.what + ": " + ex.log[-400:])
        have_model = False
    zs = zs_for(chk.tier)
    ns = L.MATS_QUICK if quick else L.MATS_THOROUGH
    scs = L.scenarios(chk.rng, chk.tier)
    worst = 0.0
    work = list(FIXED) + low_temperature(chk.tier) + [(f, t, n, sy, v, None) for (f, t, n, sy, v) in scs]
    for (fam, text, nmodes, symm, variant, fixed_pairs) in work:
        pairs = fixed_pairs or L.index_pairs(chk.rng, nmodes, chk.tier)
        negl = {}
        if have_model:
            try:
                term_correspondence(chk, fam, text, symm, variant, pairs, zs, ns, negl)
            except pv.BuildError as ex:
                chk.tie_broken("h_c01 build (%s)" % variant, ex.what)
        fails, r = end_to_end(chk, fam, text, nmodes, symm, variant, pairs, zs, ns, negl_of=lambda i, j: negl.get((i, j), 0.0))
        if fam.startswith("lowT") and r.dump:
            note_low_temperature(chk, fam, text, r)
        for f in fails:
            if f[0] == "crash":
                chk.violation("crash: %s | %s" % (L.canon(text), variant), "the documented workflow crashed or threw: %s" % (f[1],),
                              {"harness": "h_ed", "variant": variant, "scenario": text})
                break
        real_fails = [f for f in fails if f[0] != "crash"]
        if real_fails:
            shrink_and_report(chk, fam, text, nmodes, symm, variant, real_fails[0], zs, ns)
    import distslice
    distslice.gf_slice(chk, quick, "the value of the single-particle Green's function depends on the number of MPI ranks")
    # the C17 demonstration (model access trace vs sanitizer)
    if have_model:
        try:
            findings = asan_tie(chk, ASAN_CASES[:1] if quick else ASAN_CASES)
            chk.notes.append("C17 loop findings (not violations of C01; proved result-neutral): %d" % len(findings))
        except pv.BuildError as ex:
            chk.tie_broken("asan build", ex.what)
    chk.rule = ("scenario families of tools/scen.py (Hubbard atom, two-site incl. spin-flip hopping, Anderson, free degenerate, atomic limit, "
                "Kanamori, exchange; pairing and spinless with symmetries ignored), default and ignored symmetries, real build always, "
                "complex build with complex hoppings and beta in {0.5..200} in the thorough tier; in every tier five fixed low-temperature "
                "scenarios (Hubbard atoms and dimers at beta = 100, 400, 1000 with beta*E_ground = -300, -800, -4739, +1200, +2526; thorough: "
                "five more incl. symmetries ignored, complex hopping, beta = 10000); per scenario all diagonal and (thorough: all, "
                "quick: 4) off-diagonal (i,j); z at Matsubara numbers from -20..20 and three off-axis points; stand-alone vs container; "
                "a case = (scenario, i, j); non-trivial = component not identically vanishing (value cases) / at least one matched "
                "position (term-list cases); distinct = distinct canonical input")
    chk.extra["scenarios"] = len(scs)


def setup():
    L.driver()
    L.raw_harness("real")
    edlib.binaries("real")


def replay(chk, path):
    r = json.load(open(path))
    print(json.dumps(r, indent=1)[:3000])
    rp = r.get("replay", {})
    if isinstance(rp, dict) and rp.get("variant") == "asan":
        t = rp["query"].split()
        print(asan_tie(chk, [(rp["scenario"], [(int(t[1]), int(t[2]))])]))
    elif isinstance(rp, dict) and "scenario" in rp and "query" in rp and rp.get("harness") == "h_ed":
        t = rp["query"].split()
        i, j = int(t[1]), int(t[2])
        zs, ns = L.OFFAXIS, L.MATS_THOROUGH
        fails, run_ = end_to_end(chk, "replay", rp["scenario"], 4, "?", rp.get("variant", "real"), [(i, j)], zs, ns)
        print("replay: %d failing points" % len(fails))
        for f in fails[:10]:
            print("  ", f)
        for f in fails:
            if f[0] != "crash":
                chk.violation(r.get("key", "replay"), "replayed: G_%d%d at %s: library %s, definition %s" % (i, j, f[3], f[4], f[5]), rp)
                break
    else:
        run(chk)
    return chk.finish()
