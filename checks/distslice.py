"""Shared distributed slice for the single-particle chain (used by C01 and C10): the documented workflow on P > 1 MPI ranks
(harness h_c06 under mpiexec: Hamiltonian::prepare/compute(comm), FieldOperatorContainer::computeAll, GreensFunction) must leave
on EVERY rank the single-particle Green's functions of the single-rank run -- which the calling check certifies against the
definition / the rotated Jordan-Wigner operators.  A defect that needs more than one rank (a part not broadcast, a copy filled
on the owner only) is then seen by the property it breaks and not only by C06.  Termination is C06's business."""
import pv
import C06


def gf_slice(chk, quick, blame):
    h = pv.build_harness("h_c06")
    models = [("two-site", C06.MODEL, 4), ("atom", C06.ATOM, 2)]
    for name, model, n in models:
        cmds = "ham\n" + "".join("gf %d %d 0 1 -2\n" % (i, j) for i in range(n) for j in range(n))
        rc, ranks, err = C06.launch(h, 1, cmds, threads=1, timeout=120, model=model)
        ref = C06.parse(ranks[0])
        if rc != 0 or not ref["done"]:
            chk.tie_broken("h_c06 single-rank reference (distributed slice)", "rc=%s %s" % (rc, err))
            continue
        for P in ((2, 3) if quick else (2, 3, 5)):
            rc, ranks, err = C06.launch(h, P, cmds, threads=1, timeout=90, model=model)
            if rc != 0:      # a loaded machine: once more with a generous limit before the launch is given up
                rc, ranks, err = C06.launch(h, P, cmds, threads=1, timeout=300, model=model)
            chk.case("mpi gf %s %d" % (name, P), "distributed workflow P=%d %s" % (P, name), True, None)
            if rc != 0:
                chk.notes.append("distributed slice: launch P=%d on %s ended with rc=%s (termination is decided by C06)" % (P, name, rc))
                continue
            done = False
            for r in sorted(ranks):
                o = C06.parse(ranks[r])
                for k in sorted(ref["g"]):
                    if not C06.close(o["g"].get(k, []), ref["g"][k]):
                        chk.violation("distributed-G %s" % name,
                                      "%s: on %d ranks, rank %d obtains G_%s%s = %s, the single-rank run gives %s"
                                      % (blame, P, r, k[0], k[1], o["g"].get(k, ["(missing)"])[:2], ref["g"][k][:2]),
                                      {"harness": "h_c06", "P": P, "model": model, "commands": cmds, "threads": 1})
                        done = True
                        break
                if done:
                    break
