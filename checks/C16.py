"""C16 -- Job dispatcher runs every job exactly once and always terminates.

Proof: props/Properties_C16.v (job_conservation, worker_conservation, finish_only_when_done, root_matching,
link_capacity, model_envelope, no_deadlock, progress_measure, stutter_same, bounded_work, can_finish, final_state,
one_rank_per_job, final_check, rounds, rounds_exist, candidates_complete) about the transition system
coq/theories/Dispatch.v, for every number of jobs, ranks and rounds and every interleaving.

Tie (correspondence, every run, against a libpomerol rebuilt from the working tree):
 (a) black box: harness/h_c16.cpp runs pMPI::mpi_skel (include_boss=true) and the documented master-only-root
     loop (include_boss=false) for J jobs, P ranks, R consecutive rounds with pseudo-random job delays; per
     round: every job executed exactly once, the returned map identical on all ranks, defined on all jobs,
     naming the executing rank; a watchdog turns a hang into a violation with configuration and seed;
 (b) trace inclusion: with the C16 hook (proposed/hook-c16-dispatch-events.diff) each rank logs its dispatcher
     actions; the per-rank logs are merged here into one sequence consistent with per-rank order and message
     causality and replayed through the extracted `step`: the first event the model does not allow is reported;
     at the end of every round the model's end-of-round predicate must hold and the model's log / DispatchMap
     must equal what the harness observed.  Without the hook (plain tree) only (a) runs: `hook-absent`.
 (c) the extracted model is explored exhaustively (all interleavings) for small configurations: no deadlock,
     measure decreases, end-of-round predicate -- a cross-check of extraction and theorems.
"""
import json
import os
import shutil
import tempfile
import threading

import pv

WATCHDOG = {"quick": 10, "thorough": 25}
LOCK = threading.Lock()      # launches run concurrently; accounting and replay are serialised
BARRIER_KEY = "subcomm-rounds-hang mode=skel P=4 G=2 rounds=1,2"


# ----------------------------------------------------------------------------
# scenarios

class Scen:
    def __init__(self, sid, mode, J, P, G, rounds, seed, maxus, cx):
        self.id, self.mode, self.J, self.P, self.G = sid, mode, J, P, G
        self.rounds, self.seed, self.maxus, self.cx = list(rounds), seed, maxus, list(cx)

    def line(self):
        return "S %s %s %d %d %s %d %d C %s\n" % (self.id, self.mode, self.J, self.G, ",".join(map(str, self.rounds)),
                                                   self.seed, self.maxus, " ".join(map(str, self.cx)))

    def obj(self):
        return {"mode": self.mode, "J": self.J, "P": self.P, "G": self.G, "rounds": self.rounds, "seed": self.seed,
                "maxus": self.maxus, "complexities": self.cx}

    def canon(self):
        return "%s J=%d P=%d G=%d R=%s seed=%d us=%d cx=%s" % (self.mode, self.J, self.P, self.G,
                                                               ",".join(map(str, self.rounds)), self.seed, self.maxus,
                                                               ",".join(map(str, self.cx)))

    def key(self, what):
        """stable identification of a failing configuration (without the seed: timing is not part of the input)"""
        return "%s mode=%s J=%d P=%d G=%d rounds=%s" % (what, self.mode, self.J, self.P, self.G, ",".join(map(str, self.rounds)))

    def groups(self):
        """world ranks of each colour"""
        if self.G < 1:
            return {0: list(range(self.P))}
        g = {}
        for r in range(self.P):
            g.setdefault(r % self.G, []).append(r)
        return g

    def signature(self):
        np_ = self.P if self.G < 1 else min(len(v) for v in self.groups().values())
        nw = np_ if self.mode == "skel" else np_ - 1
        rel = "J=0" if self.J == 0 else ("J<W" if self.J < nw else ("J=W" if self.J == nw else "J>W"))
        return "%s %s %s R=%s%s" % ("ib=1" if self.mode == "skel" else "ib=0", "P=1" if np_ == 1 else ("P=2" if np_ == 2 else "P>2"), rel,
                                    "/".join(map(str, sorted(set(self.rounds)))), " split" if self.G >= 1 else "") + (" boss=last-rank" if self.mode == "nobossL" else "")


def make_scenarios(chk, P, Jmax, nseeds):
    out = []
    k = 0
    for J in range(0, Jmax + 1):
        for mode in ("skel", "noboss", "nobossL"):
            for si in range(nseeds):
                if mode == "nobossL" and (P < 2 or si > 0):
                    continue            # the boss on a rank other than 0 (black box only): one probe per (J, P)
                if mode == "noboss" and P == 1 and (J > 1 or si > 0):
                    continue            # P=1 without include_boss throws "No workers": one or two probes suffice
                R = (J + si + (mode != "skel")) % 3 + 1
                maxus = [0, 300, 1500][k % 3]
                cx = [chk.rng.randint(1, 4) for _ in range(J)]
                seed = chk.rng.randint(1, 10 ** 6)
                out.append(Scen("p%dk%d" % (P, k), mode, J, P, 0, [R], seed, maxus, cx))
                k += 1
    return out


def split_scenarios(chk):
    """sub-communicators (comm.split): equal round counts per group, then different ones"""
    r = chk.rng
    return [Scen("s4a", "skel", 5, 4, 2, [2, 2], r.randint(1, 10 ** 6), 300, [1, 2, 3, 1, 2]),
            Scen("s5a", "noboss", 4, 5, 2, [1, 1], r.randint(1, 10 ** 6), 300, [1, 1, 2, 2]),
            Scen("s4b", "skel", 3, 4, 2, [1, 2], r.randint(1, 10 ** 6), 300, [1, 2, 3])]


# ----------------------------------------------------------------------------
# running the harness

def launch(h, scens, P, workdir, watchdog, hook_trace=True):
    """one mpiexec launch running the scenarios in order; returns rc, outdir, tracedir"""
    os.makedirs(workdir, exist_ok=True)
    out, tr = os.path.join(workdir, "out"), os.path.join(workdir, "trace")
    for d in (out, tr):
        shutil.rmtree(d, ignore_errors=True)
        os.makedirs(d)
    script = os.path.join(workdir, "script.txt")
    with open(script, "w") as f:
        f.write("".join(s.line() for s in scens))
    budget = 30 + watchdog + 2 * len(scens)
    rc, o, e = pv.run_harness(h, None, np=P, timeout=budget,
                              args=["--script", script, "--out", out, "--trace", tr, "--watchdog", str(watchdog)])
    return rc, out, tr, e


def read_out(outdir, P):
    """per scenario id: {world rank: [lines]}"""
    res = {}
    for r in range(P):
        p = os.path.join(outdir, "rank%d.out" % r)
        if not os.path.exists(p):
            continue
        for l in open(p):
            t = l.split()
            if len(t) >= 2:
                res.setdefault(t[1], {}).setdefault(r, []).append(t)
    return res


# ----------------------------------------------------------------------------
# hook traces -> model events

def parse_trace(path):
    ev = []
    for l in open(path):
        t = l.split()
        if len(t) >= 2:
            ev.append(t[1:])        # drop the hook's own round counter; rounds are delimited by B lines
    return ev


def rank_rounds(lines):
    """split one rank's trace into rounds: each {'B': [...], 'M': [...]|None, 'ev': [model events of this rank]}.
    The M line (master constructed) precedes the B line of its round."""
    rounds, pendingM, cur = [], None, None
    i = 0
    while i < len(lines):
        t = lines[i]
        k = t[0]
        if k == "M":
            pendingM = t
        elif k == "B":
            cur = {"B": t, "M": pendingM, "ev": [], "lastjob": None}
            pendingM = None
            rounds.append(cur)
        elif cur is None:
            raise ValueError("event before round begin: %r" % (t,))
        elif k == "O":
            pairs = []
            while i < len(lines) and lines[i][0] == "O":
                pairs += [int(lines[i][1]), int(lines[i][2])]
                i += 1
            if i < len(lines) and lines[i][0] == "P":
                i += 1
            cur["ev"].append(("O", pairs))
            continue
        elif k in ("C", "F"):
            seen, fins = [], []
            while i < len(lines) and lines[i][0] in ("C", "F"):
                (seen if lines[i][0] == "C" else fins).append(int(lines[i][1]))
                i += 1
            if i < len(lines) and lines[i][0] == "K":
                i += 1
            cur["ev"].append(("C", seen, fins))
            continue
        elif k == "W":
            cur["lastjob"] = int(t[1])
            cur["ev"].append(("RW", int(t[1])))
        elif k == "X":
            cur["ev"].append(("RF",))
        elif k == "Y":
            cur["ev"].append(("RP",) if t[1] == "0" else ("R?", t[1]))
        elif k == "R":
            cur["ranjob"] = int(t[1])
        elif k == "D":
            cur["ev"].append(("X", cur.pop("ranjob", cur["lastjob"])))
        elif k == "E":
            cur["ev"].append(("E",))
        elif k in ("P", "K"):
            pass
        else:
            raise ValueError("unknown trace line %r" % (t,))
        i += 1
    return rounds


def merge_round(queues):
    """queues: {local rank: [events]} of one round. Returns (driver lines, leftover) -- a linearisation that respects
    each rank's own order and message causality (a receive after its send); leftover != {} if none exists."""
    sent = {}   # (kind, w) -> number sent;  kinds: work, fin, rep
    got = {}
    out = []
    pos = {r: 0 for r in queues}

    def ready(r, e):
        if e[0] == "C":
            need = {}
            for w in e[1]:
                need[w] = need.get(w, 0) + 1
            return all(sent.get(("rep", w), 0) - got.get(("rep", w), 0) >= n for w, n in need.items())
        if e[0] == "RW":
            return sent.get(("work", r), 0) > got.get(("work", r), 0)
        if e[0] == "RF":
            return sent.get(("fin", r), 0) > got.get(("fin", r), 0)
        if e[0] == "RP":
            return sent.get(("rep", r), 0) > got.get(("rep", r), 0)
        return True

    def emit(r, e):
        if e[0] == "O":
            for j, w in zip(e[1][0::2], e[1][1::2]):
                sent[("work", w)] = sent.get(("work", w), 0) + 1
            out.append("O " + " ".join(map(str, e[1])))
        elif e[0] == "C":
            for w in e[1]:
                got[("rep", w)] = got.get(("rep", w), 0) + 1
            for w in e[2]:
                sent[("fin", w)] = sent.get(("fin", w), 0) + 1
            out.append("C %d %s %d %s" % (len(e[1]), " ".join(map(str, e[1])), len(e[2]), " ".join(map(str, e[2]))))
        elif e[0] == "RW":
            got[("work", r)] = got.get(("work", r), 0) + 1
            out.append("RW %d %d" % (r, e[1]))
        elif e[0] == "RF":
            got[("fin", r)] = got.get(("fin", r), 0) + 1
            out.append("RF %d" % r)
        elif e[0] == "RP":
            got[("rep", r)] = got.get(("rep", r), 0) + 1
            out.append("RP %d" % r)
        elif e[0] == "X":
            sent[("rep", r)] = sent.get(("rep", r), 0) + 1
            out.append("X %d %d" % (r, e[1] if e[1] is not None else -1))
        elif e[0] == "E":
            out.append("E %d" % r)
        else:
            out.append("?? %r" % (e,))

    progress = True
    while progress:
        progress = False
        for r in sorted(queues):
            while pos[r] < len(queues[r]) and ready(r, queues[r][pos[r]]):
                emit(r, queues[r][pos[r]])
                pos[r] += 1
                progress = True
    left = {r: queues[r][pos[r]:] for r in queues if pos[r] < len(queues[r])}
    return out, left


def build_case(scen, colour, wranks, tracedir, complete):
    """driver input for one communicator of one scenario, or (None, reason)"""
    d = os.path.join(tracedir, scen.id)
    per = {}
    for wr in wranks:
        p = os.path.join(d, "rank%d.trace" % wr)
        if not os.path.exists(p):
            return None, "no-trace"
        per[wr] = rank_rounds(parse_trace(p))
    np_ = len(wranks)
    ib = 1 if scen.mode == "skel" else 0
    lines = ["CASE %s.%d %d %d" % (scen.id, colour, np_, ib)]
    notes = {"sorted": True, "pool_ok": True}
    nr = max(len(v) for v in per.values()) if per else 0
    for k in range(nr):
        queues, M = {}, None
        for wr in wranks:
            if k < len(per[wr]):
                rd = per[wr][k]
                lr = int(rd["B"][1])
                queues[lr] = rd["ev"]
                if rd["M"] is not None:
                    M = rd["M"]
        if M is None:
            return None, "no-master-line round %d" % k
        nj = int(M[3])
        js = [int(x) for x in M[4:4 + nj]]
        nw = int(M[5 + nj])
        pool = [int(x) for x in M[6 + nj:6 + nj + nw]]
        if pool != (list(range(np_)) if ib else list(range(1, np_))):
            notes["pool_ok"] = False
        if sorted(js) != list(range(scen.J)) or any(scen.cx[a] < scen.cx[b] for a, b in zip(js, js[1:])):
            notes["sorted"] = False
        lines.append("N " + " ".join(map(str, js)))
        ev, left = merge_round(queues)
        lines += ev
        if left:
            if complete:
                lines.append("?? causality: no send for %r" % ({r: v[0] for r, v in left.items()},))
            break
    lines.append("END" if complete else "PARTIAL")
    return "\n".join(lines) + "\n", notes


# ----------------------------------------------------------------------------
# black-box comparison of one scenario

def blackbox(scen, recs):
    """recs: {world rank: [token lists]}. Returns (list of (what, detail)), per-(colour, round) observed (log, map)."""
    bad, obs = [], {}
    hung = [r for r in range(scen.P) if not any(t[0] == "SCEN" and t[2] == "end" for t in recs.get(r, []))]
    wd = [" ".join(t) for r in range(scen.P) for t in recs.get(r, []) if t[0] == "WATCHDOG"]
    if hung:
        bad.append(("hang", {"ranks_not_finished": hung, "watchdog": wd[:8]}))
    for colour, wranks in scen.groups().items():
        np_ = len(wranks)
        R = scen.rounds[min(colour, len(scen.rounds) - 1)]
        local = {wr: i for i, wr in enumerate(wranks)}
        for k in range(R):
            runs, maps, throws = [], {}, []
            for wr in wranks:
                for t in recs.get(wr, []):
                    if t[0] == "RUN" and int(t[2]) == k:
                        runs.append((int(t[3]), int(t[4])))
                        if int(t[4]) != local[wr]:
                            bad.append(("rank-mismatch", {"line": t}))
                    elif t[0] == "MAP" and int(t[2]) == k:
                        maps[wr] = tuple(tuple(int(x) for x in p.split(":")) for p in t[3].split(",")) if len(t) > 3 else ()
                    elif t[0] == "THROW" and int(t[2]) == k:
                        throws.append(" ".join(t[3:]))
            if scen.mode != "skel" and np_ == 1:
                if not throws and not hung:
                    bad.append(("no-workers-not-rejected", {"round": k}))
                continue
            if throws:
                bad.append(("exception", {"round": k, "what": throws[:3]}))
                continue
            if hung:
                continue           # counted once above; partial rounds are not compared
            cnt = {}
            for j, w in runs:
                cnt[j] = cnt.get(j, 0) + 1
            wrong = {j: cnt.get(j, 0) for j in range(scen.J) if cnt.get(j, 0) != 1}
            extra = [j for j in cnt if not 0 <= j < scen.J]
            if wrong or extra:
                bad.append(("not-exactly-once", {"colour": colour, "round": k, "executions": wrong, "unknown_jobs": extra}))
            if len(set(maps.values())) > 1 or len(maps) != np_:
                bad.append(("map-differs-across-ranks", {"colour": colour, "round": k, "maps": {str(r): m for r, m in maps.items()}}))
            elif maps:
                m = dict(next(iter(maps.values())))
                if sorted(m) != list(range(scen.J)):
                    bad.append(("map-domain", {"colour": colour, "round": k, "map": m}))
                elif any(m[j] != w for j, w in runs if j in m):
                    bad.append(("map-names-wrong-rank", {"colour": colour, "round": k, "map": m, "runs": sorted(runs)}))
                if scen.mode != "skel" and any(w == (np_ - 1 if scen.mode == "nobossL" else 0) for _, w in runs):
                    bad.append(("root-ran-job-without-include_boss", {"colour": colour, "round": k}))
                obs[(colour, k)] = (sorted(runs), sorted(m.items()))
    return bad, obs


# ----------------------------------------------------------------------------

def process(chk, drv, scens, P, outdir, tracedir, state):
    """compare one finished launch; returns index of the first scenario that hung (or None)"""
    recs = read_out(outdir, P)
    cases, meta = [], {}
    first_hang = None
    for idx, s in enumerate(scens):
        rec = recs.get(s.id, {})
        if not rec:
            # the launch ended before this scenario started although no earlier scenario was seen hanging
            chk.violation(s.key("launch-died-before"), "the MPI launch ended before scenario %s started" % s.canon(),
                          {"harness": "h_c16", "np": s.P, "scenario": s.obj(), "script_line": s.line()})
            first_hang = idx
            break
        bad, obs = blackbox(s, rec)
        hung = any(w == "hang" for w, _ in bad)
        chk.case(s.canon(), s.signature(), nontrivial=True,
                 sample={"scenario": s.obj(), "observed_round0": obs.get((0, 0))} if s.J in (3, 7) and s.P == 3 else None)
        for what, detail in bad:
            chk.violation(s.key(what) if not (what == "hang" and s.G >= 1 and len(set(s.rounds)) > 1) else BARRIER_KEY,
                          "dispatcher %s: %s (%s)" % (what, json.dumps(detail, default=str)[:400], s.canon()),
                          {"harness": "h_c16", "np": s.P, "scenario": s.obj(), "script_line": s.line(), "detail": detail,
                           "how": "mpiexec -np %d h_c16 --script <file with script_line> --out <dir> --watchdog 10" % s.P})
        # hook traces
        have = os.path.isdir(os.path.join(tracedir, s.id)) and os.listdir(os.path.join(tracedir, s.id))
        if scen_throws(s):
            pass
        elif s.mode == "nobossL":
            state["blackbox_only"] = state.get("blackbox_only", 0) + 1      # the trace replay numbers the master as rank 0
        elif not have:
            state["hook_absent"] += 1
        else:
            state["hook_present"] += 1
            for colour, wranks in s.groups().items():
                text, notes = build_case(s, colour, wranks, tracedir, complete=not hung)
                if text is None:
                    chk.tie_broken("trace-merge", "%s: %s" % (s.canon(), notes))
                    continue
                if not notes["pool_ok"]:
                    chk.tie_broken("worker pool", "%s: pool logged by the master differs from the model's pool" % s.canon())
                state["sorted_ok" if notes["sorted"] else "sorted_bad"] += 1
                cases.append(text)
                meta["%s.%d" % (s.id, colour)] = (s, colour, obs, hung)
        if hung:
            first_hang = idx
            break
    if cases:
        rc, out, err = pv.sh([drv], input="".join(cases), timeout=300)
        if rc != 0:
            chk.tie_broken("driver_c16", "replay driver failed rc=%d %s" % (rc, err[-300:]))
        seen_ids = set()
        model_rounds = {}
        for l in out.split("\n"):
            t = l.split(" ", 2)
            if len(t) < 2:
                continue
            if t[0] == "ROUND":
                tt = l.split()
                cid, k = tt[1], int(tt[2])
                lg = tt[tt.index("LOG") + 1:tt.index("MAP")]
                mp = tt[tt.index("MAP") + 1:]
                f = lambda xs: sorted(tuple(int(v) for v in p.split(":")) for x in xs for p in x.split(",") if p)
                model_rounds.setdefault(cid, {})[k] = (f(lg), f(mp))
                continue
            cid = t[1]
            if cid not in meta:
                continue
            s, colour, obs, hung = meta[cid]
            seen_ids.add(cid)
            if t[0] == "OK":
                state["replayed"] += 1
                state["events"] += int(l.split("events=")[1])
                for k, (mlog, mmap) in model_rounds.get(cid, {}).items():
                    o = obs.get((colour, k))
                    if o is not None and (o[0] != mlog or o[1] != mmap):
                        chk.tie_broken("replay vs harness", "%s round %d: model log/map %r differs from observed %r" % (s.canon(), k, (mlog, mmap), o))
            elif t[0] == "PARTIAL":
                state["partial"].append({"scenario": s.obj(), "model": l[:600]})
            elif t[0] in ("FAIL", "FINALBAD", "INVALID"):
                chk.violation(s.key("trace-not-in-model"),
                              "an execution of the real dispatcher is not an execution of the model: %s (%s)" % (l[:500], s.canon()),
                              {"harness": "h_c16", "np": s.P, "scenario": s.obj(), "script_line": s.line(), "driver_output": l,
                               "driver_input": [c for c in cases if c.startswith("CASE %s " % cid)][0].split("\n")})
        for cid in meta:
            if cid not in seen_ids:
                chk.tie_broken("driver_c16", "no verdict for case %s" % cid)
    return first_hang


def scen_throws(s):
    return s.mode != "skel" and min(len(v) for v in s.groups().values()) == 1


def run_batch(chk, h, drv, scens, P, state, watchdog, tag):
    """run the scenarios for one P (relaunching after a hang), compare, replay"""
    work = tempfile.mkdtemp(prefix="c16-%s-" % tag)
    try:
        rest, relaunch = list(scens), 0
        while rest and relaunch < 4:
            rc, out, tr, err = launch(h, rest, P, work, watchdog)
            state["launches"] += 1
            with LOCK:
                fh = process(chk, drv, rest, P, out, tr, state)
            if fh is None:
                if rc != 0:
                    chk.violation("h_c16 exit code P=%d" % P, "mpiexec/h_c16 exit code %d without a hang being detected: %s" % (rc, err[-300:]),
                                  {"harness": "h_c16", "np": P, "stderr": err[-1500:], "script": [s.line() for s in rest]})
                break
            rest = rest[fh + 1:]
            relaunch += 1
        pv.sh("pkill -9 -f %s" % work, timeout=10)      # nothing should be left; make sure
    finally:
        shutil.rmtree(work, ignore_errors=True)


def explore(chk, drv, quick):
    cfgs = []
    for np_ in range(1, 5 if quick else 6):
        for ib in (1, 0):
            for J in range(0, 4 if quick else 5):
                if np_ + J <= (6 if quick else 8):
                    cfgs.append((np_, ib, J, 2 if np_ * J <= 6 else 1))
    rc, out, err = pv.sh([drv], input="".join("EXPLORE %d %d %d %d\n" % c for c in cfgs), timeout=600)
    tot, bad = 0, []
    for l in out.split("\n"):
        if l.startswith("EXPLORED np="):
            d = dict(x.split("=") for x in l.split()[1:9])
            tot += int(d["states"])
            if int(d["bad"]) != 0:
                bad.append(l)
    if rc != 0 or bad:
        chk.tie_broken("model exploration", "extracted model violates a proved property on a small configuration: %s %s" % (bad[:2], err[-200:]))
    chk.extra["model_exploration"] = {"configurations": len(cfgs), "states": tot, "bad": len(bad),
                                      "checks": "no deadlock, measure decreases on every event, end-of-round predicate, err flag"}


def run(chk, only=None):
    quick = chk.tier == "quick"
    ok, log = chk.prove(["extract/Extract_C16.vo"], extra_props=["Properties_C16_source.v"])
    chk.trusted += ["translator/gen_dispatch.py (statement splitter + shape recognition, ~800 lines of Python): reads the statement sequences, loop ranges, conditions, "
                    "message tags / destinations, barriers and broadcasts of MPIMaster / MPIWorker / mpi_skel::run off the source into coq/gen/Gen_Disp*.v (one file per "
                    "function); Properties_C16_source.v is about those generated descriptions and about DispatchGen.v's reading of them (interpreters [..._by]); the MPI "
                    "layer (per-link queues, matching rule) and the master-only-root loop of test/mpi_dispatcher_test_nomaster.cpp stay hand-written; a function that "
                    "leaves the recognised shape falls back to its snapshot and is then tied by the runs only",
                    "extraction: ExtrOcamlBasic, ExtrOcamlNatInt (nat -> OCaml int; ranks and job ids are tiny); no Extract Constant of our own",
                    "ocaml/driver_c16.ml (parsing, printing, state key for exploration), harness/h_c16.cpp, the trace merge in checks/C16.py",
                    "proposed/hook-c16-dispatch-events.diff: the event lines are written where the actions happen",
                    "Open MPI 4.1.4 / Boost.MPI 1.83 behave as the model's MPI layer assumes (below)"]
    chk.assume += ["MPI: messages between a pair of ranks on one communicator are non-overtaking; an incoming message is matched with the "
                   "earliest posted receive that accepts its (source, tag); MPI_Send of these <= 4-byte messages completes without waiting "
                   "for the receiver (a matching receive is in fact always pre-posted: shapes LSent/LFinSent/LDone); MPI_Cancel removes "
                   "an unmatched posted receive; MPI makes progress (a sent message is eventually reported by test())",
                   "boost::mpi::request::test() reports each completion once and returns an empty optional for null / already reported "
                   "requests (boost/mpi/request.hpp:107, Boost 1.83)",
                   "rounds are separated by the barriers of mpi_skel::run (lines 49, 65, 82, 85): no rank is in round k+1 while another is in the loop of round k",
                   "the broadcast of the map after the loop is a collective and not modelled: map equality across ranks is established by the black-box comparison only",
                   "fairness: every rank keeps executing its loop (weak fairness); under it no_deadlock + progress_measure give termination"]
    drv = pv.build_driver("driver_c16", ["C16_model"])
    h = pv.build_harness("h_c16")
    explore(chk, drv, quick)

    state = {"hook_absent": 0, "hook_present": 0, "replayed": 0, "events": 0, "launches": 0, "partial": [],
             "sorted_ok": 0, "sorted_bad": 0}
    wd = WATCHDOG["quick" if quick else "thorough"]
    Pmax, Jmax, nseeds = (6, 12, 3) if quick else (16, 16, 4)
    batches = [(P, make_scenarios(chk, P, Jmax if P <= 8 else 12, nseeds if P <= 8 else 2)) for P in range(1, Pmax + 1)]
    splits = split_scenarios(chk)
    if only is not None:
        batches, splits = [(only.P, [only])], []
    # launches for small P run concurrently (16 cores); big ones one after the other
    small = [b for b in batches if b[0] <= 6]
    big = [b for b in batches if b[0] > 6]
    errs = []

    def job(P, sc):
        try:
            run_batch(chk, h, drv, sc, P, state, wd, "p%d" % P)
        except Exception as ex:       # pragma: no cover
            import traceback
            errs.append(traceback.format_exc())

    lock_free = [threading.Thread(target=job, args=b) for b in small]
    for t in lock_free[:3]:
        t.start()
    for t in lock_free[:3]:
        t.join()
    for t in lock_free[3:]:
        t.start()
    for t in lock_free[3:]:
        t.join()
    for P, sc in big:
        job(P, sc)
    for s in splits:
        job(s.P, [s])
    for e in errs:
        chk.broken.append({"kind": "internal", "trace": e})

    if state["hook_present"] == 0 and state["hook_absent"] > 0:
        chk.extra["hook"] = "hook-absent"
        chk.notes.append("hook-absent")
    elif state["hook_absent"] == 0:
        chk.extra["hook"] = "present"
    else:
        chk.extra["hook"] = "inconsistent"
        chk.tie_broken("hook traces", "trace files for %d scenarios but none for %d" % (state["hook_present"], state["hook_absent"]))
    chk.extra["trace_replay"] = {"scenario_communicators_replayed": state["replayed"], "events_replayed": state["events"],
                                 "partial_after_hang": state["partial"][:4], "mpiexec_launches": state["launches"],
                                 "job_order_sorted_by_complexity": {"yes": state["sorted_ok"], "no": state["sorted_bad"]}}
    chk.rule = ("one case = one scenario (mode skel: mpi_skel::run, include_boss=true | noboss: master-only root, include_boss=false; J jobs with "
                "random complexities 1..4; P ranks; R in 1..3 consecutive rounds on the same communicator; delay seed; max job delay 0/300/1500 us): "
                "quick J=0..12 x P=1..6 x both modes x 3 seeds, thorough J=0..16 x P=1..16 x 4 seeds (2 for P>8); plus comm.split scenarios with "
                "equal and with different round counts per group. Compared per round: executed exactly once, maps equal on all ranks, map names the "
                "executing rank; with the hook the merged event trace is replayed through the extracted model. Signature = include_boss, P class, "
                "J vs number of workers W, rounds, split. Every scenario counts as non-trivial; distinct = distinct canonical scenario incl. seed.")


def replay(chk, path):
    r = json.load(open(path))
    sc = r["replay"]["scenario"]
    print(json.dumps(r["replay"].get("detail", r["replay"].get("driver_output", "")), indent=1)[:2000])
    s = Scen("replay", sc["mode"], sc["J"], sc["P"], sc["G"], sc["rounds"], sc["seed"], sc["maxus"], sc["complexities"])
    run(chk, only=s)
    return chk.finish()


def setup():
    pv.build_driver("driver_c16", ["C16_model"])
    pv.build_harness("h_c16")
